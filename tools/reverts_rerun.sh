#!/bin/bash
# tools/reverts_rerun.sh — re-applies the reverse of every repair (mutants/revert_<commit>.diff) to a scratch worktree and runs the
# checks named in the last column of DESIGN.md section 4.1; each must be reported again by at least one of them.
cd "$(dirname "$0")/.."
bad=0
grep -E '^\| [0-9a-f]{7} \|' DESIGN.md | sed 's/\\|/!/g' | while IFS='|' read -r _ h props what by _; do
  h=$(echo $h); by=$(echo "$by" | sed 's/thorough//g; s/[^C0-9,]//g')
  [ -f mutants/revert_$h.diff ] || { echo "$h: no revert patch"; continue; }
  out=$(tools/mutant.sh mutants/revert_$h.diff "$by" quick 2>&1)
  n=$(echo "$out" | grep "^== " | grep -c "exit 1")
  echo "$h ($by): reported by $n check(s)$(echo "$out" | grep -q 'DOES NOT APPLY' && echo ' PATCH DOES NOT APPLY')"
done
