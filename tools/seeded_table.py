#!/usr/bin/env python3
"""Regenerates the table of confirmed seeded changes in DESIGN.md (section 7) from seeded/*/meta.json."""
import json, os, glob, re
V = os.path.dirname(os.path.dirname(os.path.abspath(__file__)))
rows = []
for d in sorted(glob.glob(os.path.join(V, "seeded", "*"))):
    mf = os.path.join(d, "meta.json")
    if not os.path.exists(mf):
        continue
    m = json.load(open(mf))
    checks = ", ".join("%s (%s)" % (c, "reported" if v["exit"] == 1 and v["violation_lines"] else "silent") for c, v in m["checks"].items())
    cls = ""
    for c, v in m["checks"].items():
        if v["first"]:
            mm = re.search(r"\|([a-zA-Z0-9_]+) ::", v["first"][0])
            if mm:
                cls = mm.group(1)
                break
    rows.append("| `%s` | %s | %s | %s |" % (os.path.basename(d), m.get("needs_to_manifest", ""), checks, cls))
table = "| seeded change | needs, to manifest | checks run (quick tier) | first failure class |\n|---|---|---|---|\n" + "\n".join(rows)
p = os.path.join(V, "DESIGN.md")
s = open(p).read()
a = s.find("<!-- SEEDED-TABLE-BEGIN -->")
if a < 0:
    s = s.replace("SEEDED_TABLE_PLACEHOLDER", "<!-- SEEDED-TABLE-BEGIN -->\n" + table + "\n<!-- SEEDED-TABLE-END -->")
else:
    b = s.find("<!-- SEEDED-TABLE-END -->")
    s = s[:a] + "<!-- SEEDED-TABLE-BEGIN -->\n" + table + "\n" + s[b:]
open(p, "w").write(s)
print("%d seeded changes listed" % len(rows))
