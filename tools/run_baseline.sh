#!/bin/bash
# Build /repo (or $1) with its own CMake build and run the unit tests; report failing gtest cases
# other than the four the baseline marks as flaky. Exit 0 iff none.
R=${1:-/repo}
B=$R/_build
if [ ! -d "$B" ]; then cmake -G Ninja -S "$R" -B "$B" -DFETCHCONTENT_FULLY_DISCONNECTED=ON >/dev/null 2>&1 || { echo "cmake configure failed"; exit 2; }; fi
cmake --build "$B" 2>&1 | tail -3 | grep -i "error\|FAILED" && { echo "BUILD FAILED"; exit 2; }
fail=0
for t in "$B"/tests/test_*; do
  [ -x "$t" ] || continue
  out=$(cd "$R/tests" && timeout 900 "$t" 2>&1)
  echo "$out" | grep -E "^\[  FAILED  \] [A-Za-z0-9_]+\.[A-Za-z0-9_]+" | sed 's/ (.*//' | sort -u | grep -v -E "TestIntegrate2DMC|TestMetropolis2D" && fail=1
  echo "$out" | grep -q "PASSED\|FAILED" || { echo "no gtest output from $t"; fail=1; }
done
[ $fail = 0 ] && echo "BASELINE OK (apart from known-flaky cases)"
exit $fail
