#!/bin/bash
# run_baseline.sh [repo-dir]
# Build the repository's own unit tests and run them; report failing gtest cases other than the ones the
# baseline marks as flaky (TestIntegrate2DMC, TestMetropolis2D). Exit 0 iff none.
# For /repo the existing CMake build in /repo/_build is used; for a scratch worktree the library and the
# test executables are compiled directly (googletest cannot be fetched offline) into <dir>/_tbuild.
R=${1:-/repo}
fail=0
if [ "$R" = "/repo" ]; then
  B=$R/_build
  out=$(cmake --build "$B" 2>&1) || { echo "$out" | tail -20; echo "BUILD FAILED"; exit 2; }
  BIN=$B/tests
else
  BIN=$R/_tbuild; mkdir -p "$BIN/gen"
  sed -e 's/@[A-Z_]*@/x/g' "$R/include/version.hpp.in" > "$BIN/gen/version.hpp"
  pids=()
  for s in "$R"/src/*.cpp; do
    n=$(basename "$s" .cpp); [ "$n" = main ] && continue
    g++ -std=c++14 -O2 -w -I"$R/include" -I"$BIN/gen" -c "$s" -o "$BIN/$n.o" & pids+=($!)
  done
  for t in "$R"/tests/test_*.cpp; do
    n=$(basename "$t" .cpp)
    g++ -std=c++14 -O2 -w -DGTEST_HAS_PTHREAD=1 -I"$R/include" -I"$BIN/gen" -I"$R/src" -isystem /usr/src/googletest/googletest/include -c "$t" -o "$BIN/$n.to" & pids+=($!)
  done
  for p in "${pids[@]}"; do wait $p || { echo "BUILD FAILED"; exit 2; }; done
  ar rcs "$BIN/libphysica.a" "$BIN"/*.o
  for t in "$BIN"/*.to; do
    n=$(basename "$t" .to)
    g++ "$t" "$BIN/libphysica.a" /repo/_build/lib/libgtest_main.a /repo/_build/lib/libgtest.a -lconfig++ -lpthread -o "$BIN/$n" || { echo "LINK FAILED"; exit 2; }
  done
fi
for t in "$BIN"/test_*; do
  case "$t" in *.to|*.o) continue;; esac
  [ -x "$t" ] || continue
  out=$(cd "$R/tests" && timeout 900 "$t" 2>&1)
  echo "$out" | grep -E "^\[  FAILED  \] [A-Za-z0-9_]+\.[A-Za-z0-9_]+" | sed 's/ (.*//' | sort -u | grep -v -E "TestIntegrate2DMC|TestMetropolis2D" && fail=1
  echo "$out" | grep -q "PASSED\|FAILED" || { echo "no gtest output from $t"; fail=1; }
done
[ $fail = 0 ] && echo "BASELINE OK (apart from known-flaky cases)"
exit $fail
