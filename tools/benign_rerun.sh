#!/bin/bash
# tools/benign_rerun.sh — every benign refactoring under /verif/benign must leave its group's checks silent (quick tier).
cd "$(dirname "$0")/.."
declare -A G=([B1]="C01,C08,C09" [B2]="C02,C03,C11,C12,C13" [B3]="C04,C05,C15,C16" [B4]="C06,C07,C17,C18" [B5]="C14,C19,C20" [D1]="C01,C08,C09,C10" [D2]="C02,C03,C11,C12,C13,C10" [D3]="C04,C05,C15,C16,C10" [D4]="C06,C07,C17,C18,C10" [D5]="C14,C19,C20,C10")
bad=0
for g in B1 B2 B3 B4 B5 D1 D2 D3 D4 D5; do
  for p in benign/$g/patch*.diff; do
    out=$(tools/mutant.sh "$p" "${G[$g]}" quick 2>&1)
    if echo "$out" | grep -q "PATCH DOES NOT APPLY"; then echo "$p: does not apply to the current tree (skipped)"; continue; fi
    n=$(echo "$out" | grep -c "^VIOLATION")
    e=$(echo "$out" | grep "^== " | grep -vc "exit 0")
    echo "$p: $n VIOLATION lines, $e checks with non-zero exit"
    if [ "$n" != 0 ] || [ "$e" != 0 ]; then bad=1; echo "$out" | grep "^VIOLATION" | head -3 | cut -c1-300; fi
  done
done
exit $bad
