#!/bin/bash
# tools/benign_rerun.sh [jobs] — every benign change under /verif/benign must leave its group's checks silent (quick tier).
cd "$(dirname "$0")/.."
J=${1:-4}
export VERIF_JOBS=$((16 / J > 0 ? 16 / J : 1))
one() {
  p=$1
  g=$(basename "$(dirname "$p")")
  case $g in
    B1) ids=C01,C08,C09;; B2) ids=C02,C03,C11,C12,C13;; B3) ids=C04,C05,C15,C16;; B4) ids=C06,C07,C17,C18;; B5) ids=C14,C19,C20;;
    D1|E1) ids=C01,C08,C09,C10;; D2|E2) ids=C02,C03,C11,C12,C13,C10;; D3|E3) ids=C04,C05,C15,C16,C10;; D4|E4) ids=C06,C07,C17,C18,C10;; D5|E5) ids=C14,C19,C20,C10;;
  esac
  out=$(tools/mutant.sh "$p" "$ids" quick 2>&1)
  if echo "$out" | grep -q "PATCH DOES NOT APPLY"; then echo "$p: does not apply to the current tree (skipped)"; return; fi
  n=$(echo "$out" | grep -c "^VIOLATION")
  e=$(echo "$out" | grep "^== " | grep -vc "exit 0")
  echo "$p: $n VIOLATION lines, $e checks with non-zero exit"
  [ "$n" = 0 ] && [ "$e" = 0 ] || echo "$out" | grep "^VIOLATION" | head -3 | cut -c1-300
}
export -f one
ls benign/*/patch*.diff | xargs -P "$J" -I{} bash -c 'one {}' | tee /tmp/benign_rerun.$$
bad=$(grep -vc ": 0 VIOLATION lines, 0 checks with non-zero exit\|skipped" /tmp/benign_rerun.$$)
rm -f /tmp/benign_rerun.$$
exit $((bad > 0))
