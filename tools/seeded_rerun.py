#!/usr/bin/env python3
"""seeded_rerun.py [-j 4] [--only C01,C05] [--tier quick]

Re-runs every confirmed seeded change under /verif/seeded against the checks recorded in its meta.json, on a
scratch worktree of /repo HEAD (never /repo itself), and refreshes meta.json (checks, detected_by, repo_head)
and patch.diff (re-diffed against HEAD when a 3-way apply was needed). Prints one line per change and exits 1
if a change is reported by none of its checks."""
import os, sys, json, subprocess, tempfile, shutil, re, argparse
from concurrent.futures import ThreadPoolExecutor

VERIF = os.path.dirname(os.path.dirname(os.path.abspath(__file__)))


def sh(cmd, **kw):
    return subprocess.run(cmd, shell=True, stdout=subprocess.PIPE, stderr=subprocess.STDOUT, text=True, **kw)


def one(d, tier):
    p = os.path.join(VERIF, "seeded", d)
    meta = json.load(open(os.path.join(p, "meta.json")))
    wt = tempfile.mkdtemp(prefix="seedre-", dir="/tmp")
    os.rmdir(wt)
    try:
        if sh("git -C /repo worktree add -q --detach %s HEAD" % wt).returncode != 0:
            return d, None, "worktree failed"
        patch = os.path.join(p, "patch.diff")
        r = sh("git -C %s apply %s" % (wt, patch))
        if r.returncode != 0:
            r = sh("git -C %s apply --3way %s" % (wt, patch))
            if r.returncode != 0:
                return d, None, "patch does not apply"
            sh("git -C %s reset -q" % wt)
            open(patch, "w").write(sh("git -C %s diff" % wt).stdout)
        meta["repo_head"] = sh("git -C /repo rev-parse --short HEAD").stdout.strip()
        for c in list(meta["checks"].keys()):
            env = dict(os.environ, VERIF_REPO=wt)
            rr = subprocess.run([os.path.join(VERIF, "vcheck"), c, "--tier", tier], stdout=subprocess.PIPE, stderr=subprocess.STDOUT, text=True, env=env)
            viols = [l for l in rr.stdout.split("\n") if l.startswith("VIOLATION")]
            meta["checks"][c] = dict(tier=tier, exit=rr.returncode, violation_lines=len(viols), first=[re.sub(r"replay=\S+\s+", "", v)[:300] for v in viols[:3]],
                                     summary=[l for l in rr.stdout.split("\n") if l.startswith(c + " tier")][-1:])
        meta["detected_by"] = [c for c, v in meta["checks"].items() if v["exit"] == 1 and v["violation_lines"] > 0]
        json.dump(meta, open(os.path.join(p, "meta.json"), "w"), indent=1)
        return d, meta["detected_by"], ""
    finally:
        sh("git -C /repo worktree remove --force %s" % wt)
        shutil.rmtree(wt, ignore_errors=True)


def main():
    ap = argparse.ArgumentParser()
    ap.add_argument("-j", type=int, default=4)
    ap.add_argument("--only")
    ap.add_argument("--tier", default="quick")
    a = ap.parse_args()
    dirs = sorted(x for x in os.listdir(os.path.join(VERIF, "seeded")) if os.path.exists(os.path.join(VERIF, "seeded", x, "meta.json")))
    if a.only:
        keep = a.only.split(",")
        dirs = [x for x in dirs if x.split("-")[0] in keep or x in keep]
    bad = 0
    env_jobs = max(1, 16 // a.j)
    os.environ.setdefault("VERIF_JOBS", str(env_jobs))
    with ThreadPoolExecutor(a.j) as ex:
        for d, det, err in ex.map(lambda x: one(x, a.tier), dirs):
            if det is None or not det:
                bad += 1
            print("%-55s %s %s" % (d, "reported by " + ",".join(det) if det else "NOT REPORTED", err), flush=True)
    print("%d seeded changes, %d not reported" % (len(dirs), bad))
    sys.exit(1 if bad else 0)


if __name__ == "__main__":
    main()
