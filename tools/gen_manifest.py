#!/usr/bin/env python3
"""Writes /verif/MANIFEST.json from the table below (kept in one place so the manifest stays valid and current)."""
import json, os, sys

VERIF = os.path.dirname(os.path.dirname(os.path.abspath(__file__)))

# id -> (category, technique, level text, level note, design ref)
CLAIMED = {
    "C09": ("model_checking",
            "explicit-state BFS to fixpoint over the real Interpolation / Interpolation_2D objects (state = all fields), every letter applied in every reachable state, oracle = fresh object",
            "Every reachable (cached index, correlation flag, prefactor) state of the compiled object is visited and every operation of a finite query alphabet is executed in every one of them and compared with the same call on a fresh object (bitwise off the knots, rounding-level at knots). Because the search closes, the result covers call histories of unbounded length over the alphabet, which no finite test list can.",
            "Alphabet: knots, their nextafter neighbours, quarter points, domain ends and extrapolation-zone points of tables N<=40 plus one of 1100 points (quick) / N<=2000 (thorough) in three spacings; prefactors {1,2,-1,-2}. Arguments outside the alphabet are not covered. State fields are set directly (harness TU compiled with -fno-access-control); reachability of every visited state through the public API is shown by replaying witness paths.",
            "§3 C09"),
}

CLAIMED.update({
    "C01": ("exploration",
            "bounded-exhaustive enumeration (complete mixed-radix products of tables over spacing x ordinate alphabets, small-scope argument for N<=5) against an independent long-double Steffen reference model",
            "Every table with N=3,4 (quick; N=5 thorough) over a 6-letter spacing alphabet (ratios to 1e18) and an 11-letter ordinate alphabet (mixed sign, 1e-20..1e20, plateaus, spikes) is built with the real constructor and queried at knots, nextafter neighbours, 16 interior points per segment and the extrapolation zone; knot reproduction is bitwise, overshoot/monotonicity/continuity/derivative consistency are checked against forward-error bounds and against a reference written from Steffen's paper. Each Steffen segment depends on at most three neighbouring intervals plus a boundary flag, so N<=5 realises every local configuration of longer tables; long tables check position independence. Query orders: on four tables (N=9,12; uniform/geometric spacing; zig-zag ordinates) every sequence of 4 (quick: 7.3e5 sequences) / 5 (thorough: 1.6e7 sequences, 7.9e7 queries) queries over the alphabet {knots, segment midpoints} is replayed on a fresh object with the index-search state left alone, every answer held to knot reproduction (to rounding after a history) and the cell range of its true segment. The 2D part enumerates every cell x every 4-tuple of corner values.",
            "Nothing is concluded for ordinates/spacings outside the alphabets; tolerance T2 = 32u(|y_j|+|y_j+1|) is derived from the rounding model, not fitted. Private fields are read with -fno-access-control only to reset the locator state before each query of the per-table oracles (the query-order part resets nothing); query orders longer than 5 are C09's subject (fixpoint over the locator state).",
            "§3 C01"),
    "C08": ("model_checking",
            "explicit-state BFS over Set_Prefactor/Multiply histories on the real object (state = prefactor bits, reference model = one double) x complete enumeration of tables and ordered limit pairs, oracle = exact antiderivative/extrema of the independent Steffen reference",
            "All prefactor histories to depth 2 (quick) / 3 (thorough) over 12 operations are executed on the real object and compared with a one-double model; in every reached state (core tables) and in 12 representative states (every table with N=3,4 over reduced alphabets; N<=6 thorough) every ordered pair of a limit alphabet (knots, knot+-ulp, quarter points, extrapolation zone) goes through Integrate (both orders), Local_Minimum, Local_Maximum, Global_*: antisymmetry bitwise, additivity over all triples, min*len<=I<=max*len, agreement with the exact integral/extrema of the reference curve, lattice containment, difference quotient in the upper limit.",
            "Alphabets as stated in the evidence; extrema of the reference curve include stationary points of the edge cubics inside the extrapolation zones. Tolerances are forward-error bounds (sum of magnitudes of antiderivative terms anchored at the segment's left knot).",
            "§3 C08"),
})

CLAIMED.update({
    "C02": ("model_checking",
            "stateless exploration of environment answers: the harness plays the user function, enumerates every answer sequence over a 7-letter alphabet at the first 6 (quick) / 7-8 (thorough) queries with prefix-replaying DFS, oracle = certificate over all continuous completions; plus complete family products and one-request-per-child diagnostics",
            "An execution of Find_Root is determined by the answers it receives; every finite set of (abscissa, value) pairs is consistent with a continuous function, so enumerating all answer sequences is enumerating all continuous functions up to the depth bound. On every execution: all abscissae and the result lie in the bracket, (a,b) and (b,a) give identical queries and bits, and the recorded answers contain a zero or an adjacent opposite-sign pair within the accuracy of the result (equivalent to: every continuous function consistent with what was seen changes sign within the accuracy). Violations are materialised as a piecewise-linear function and replayed as a plain call. Concrete families (power laws over 13 decades, saturating CDF-like functions, inflection, multiple roots, linear) are enumerated completely over brackets x 9 accuracies x both orders. Power laws also on brackets [1e-k,1e+k] up to 600 decades; a second answer alphabet {-1,-1e-200,0,1e-200,1}; NaN at one end together with a zero at the other must terminate. Both ends zero: one of them is returned. The reversed bracket is judged by the same clauses on its own evaluations (not by equality with the forward call). Call histories over 9 request letters.",
            "Deviations are confined to the first D queries (later queries are answered by the piecewise-linear interpolant of earlier answers); answer alphabet {0, +-1e-6, +-1, +-1e6}; 'within accuracy' allows 4 ulp of the abscissa.",
            "§3 C02"),
})

CLAIMED.update({
    "C03": ("model_checking",
            "complete products (4096 quintic coefficient vectors x intervals x epsilon x depth; estimator-regular families admitted by a closed-form filter) plus deviation-bounded stateless DFS in which the harness answers the integrand, compared on every execution with a textbook adaptive-Simpson recursion on the same answers",
            "Exactness on quintics is decided on every member of a 4^6 coefficient product on 9 intervals (both orientations, width 1e-6..1e3, equal limits) x 5 epsilons x 5-7 depths against a binary128 antiderivative; the 4*epsilon error clause on every admitted member of the exp/cosh/inverse-power/power families; the structural clauses (swap = bitwise negation, epsilon sign, abscissae inside the closed interval, at most 2^(depth+2)+1 evaluations) on all of those and on every execution in which the harness itself answers the integrand with all placements of <=3 (quick) / <=4 (thorough) non-zero answers among the first 17/33 queries. Special structures: polynomials vanishing on every subset of the first five Simpson abscissae, integrands that re-enter Integrate with other settings (compared with the same values from a table), refinement to the depth bound at one place on narrow intervals at non-dyadic offsets. Integrands infinite at a limit (location and count clauses); call histories over 9 request letters (result, abscissae and count identical whatever preceded).",
            "Error clause skipped (and counted) where the recursion bottoms out; deviations limited to the stated window and alphabet {+-1, +-1e6, 1e-9}; default answer 0.",
            "§3 C03"),
    "C11": ("model_checking",
            "stateless exploration of environment answers: the harness plays the objective for Find_Minimum/Find_Maximum and Minimization::minimize (every answer sequence over 6 letters at the first 7 (quick) / 8 (thorough) evaluations, then a convex default bowl); complete products of unimodal 1D objectives and quadratic bowls d<=6",
            "'Never worse than the start' and the consistency of the reported state (fmin, y, best-first simplex, nfunc) are statements about every objective; an execution is determined by the objective values it sees, so all answer sequences up to the depth bound are enumerated on the real code and the clauses are checked on each (Find_Maximum(-f) must issue identical queries and return identical bits). Convergence is decided on complete products objective x start x tolerance (1D) and dimension x condition x rotation x offset x scale x ftol (bowls), with the three overloads compared bitwise. Unequal, non-palindromic deltas: the first d+1 evaluations are the documented simplex and the result equals that of the simplex overload; a second minimize() on the same object equals a fresh object (value, fmin, nfunc). Symmetric bowls from every half-integer lattice start (exact ties between vertex values) with optimum values 0, -2.5, -1000: no exit, descent, state consistency; on every normal return of every Nelder-Mead part the vertex values satisfy the documented fractional tolerance. Seven asymmetric / non-quadratic unimodal wells and the Lennard-Jones wells from a sweep of 72 start pairs.",
            "An execution that ends in the library's iteration-cap exit under an adversarial objective is permitted and counted (link-time interposition of exit()); on unimodal objectives and convex bowls it is a violation. Bowl distance bound sqrt(20*ftol*(|f*|+1e-10)/lambda_min) as fixed in DESIGN.md; eight bowl inputs that exceed it are recorded in KNOWN_FINDINGS.txt.",
            "§3 C11"),
})

CLAIMED.update({
    "C04": ("exploration",
            "bounded-exhaustive enumeration of all shape triples (m,n,k)<=5 (quick) / <=8 (thorough) x all ordered pairs of 7 fill patterns with exact (dyadic) arithmetic so every oracle is an equality; every ordered pair of shapes for the element-wise operators in child processes under ASan/UBSan",
            "Every operator spelling (member functions, operators, compound assignment, free operators) is compared entry by entry with its definition on operands whose sums and products are exact in binary64, for every shape triple up to the bound including all non-square ones; transpose/identity/involution laws, matrix-vector/vector-matrix/outer/dot/cross against products of row and column matrices, Trace, Norm, predicates with every single-entry perturbation, Sub_Matrix/Delete/Return for every index, block constructor for every 2x2 arrangement with block dimensions 0..3. For every ordered pair of shapes the element-wise operations must return iff the shapes are equal, else exit with a diagnostic and no sanitizer report. Object histories: all sequences (depth 3, thorough 4 for Vector) of 13 Vector / 14 Matrix letters (queries and in-place mutations); after every step all observations of the used object equal those of a fresh object with the same visible contents. Two of the nine fill patterns live at the scales 2^-80 and 2^80. A tenth pattern is not representable in single precision. Products are conformable exactly when the inner dimensions agree, for every pair of shapes and every spelling, also with an identity on the right.",
            "Entries come from 7 deterministic patterns over half-integers and powers of two (not arbitrary reals): rounding behaviour of inexact sums is outside this check; scalar multiplication and division are also run with the scalars 3, -7, 0.1 and 1.5, where each entry is one correctly rounded binary64 operation.",
            "§3 C04"),
})

CLAIMED.update({
    "C05": ("exploration",
            "bounded-exhaustive enumeration of integer matrices (all 2x2 over {-2..2}, all 3x3 over {-1,0,1} quick / {-1,0,1,2} thorough, all signed permutation matrices n<=5 / n<=7, P*L*U with every permutation) and structured families, against an exact Bareiss determinant (__int128) and a binary128 complete-pivoting inverse",
            "Determinant must equal the exact integer determinant bit for bit on every enumerated integer matrix (transpose invariance, row-swap sign, multiplicativity, triangular product checked directly), Invertible must agree with it, Inverse must return for every invertible matrix whatever the position of its zero or tiny entries and agree with the exact inverse within 16*n*kappa*u (X*M and M*X against I with the stated powers of kappa), and must end the process for every singular or non-square one. Complete products make 'whatever the position of the zeros' a statement about all positions rather than one sample. Object histories (Determinant/Invertible/Inverse, then +=, -=, element or row writes, assignment, then the queries again) must answer like a fresh matrix with the same entries; singular integer matrices include non-trivial row/column combinations up to n=7; orthogonal matrices are perturbed by 1e-13..1e-6. The matrix returned by Inverse() must itself answer like a fresh matrix with the same entries.",
            "Sizes above 3 are covered by structured families (permutations, PLU, tiny pivots in every diagonal position, triangular/diagonal/symmetric, rank-deficient, graded scalings to kappa 1e8), not by complete products. Rejection is observed through interposed exit(); the diagnostic text is checked in C10.",
            "§3 C05"),
    "C15": ("exploration",
            "bounded-exhaustive enumeration of structured families n<=5 (quick) / n<=7 (thorough): QR on integer/graded/all non-singular 3x3 matrices; symmetric M = Q diag(lambda) Q^T for every member of a finite orthogonal family x eigenvalue ratio patterns x sign patterns, against long-double cyclic Jacobi; every Eigensystem/Eigenvectors call in its own child process with a 2 s limit",
            "QR: Q^T Q = I and QR = M within 16 n^2 u, R exactly zero below the diagonal, on every enumerated non-singular matrix. Eigenvalues: spectrum equals the Jacobi reference as a multiset, sums to the trace, multiplies to the determinant. Eigensystem/Eigenvectors: must terminate (time-bounded child), return n unit vectors, each an eigenpair within 1e-8*|M|, each reference eigenvalue represented once - including diagonal and block-diagonal matrices and eigenvectors with zero components, which is where the pinned code aborted or looped. The argument matrix must come back bit-identical; Eigenvectors() must equal Eigensystem().second up to signs; call histories over QR/Inverse/Eigenvalues/Eigensystem letters on four matrices. Every spectrum also in ascending order and with neighbours exchanged; rotations by 1e-7..3e-10; QR on geometric singular values up to cond 1e6. The dense integer QR family is repeated at the exact scalings 2^-60, 2^-200 and 2^60 (the defining equations are scale free).",
            "Orthogonal family and ratio patterns are finite lists (signed permutations, Givens products with angles pi/6, pi/4, pi/3, 1, rotations in the planes (i,i+2) giving checkerboard matrices, Householder reflectors of integer vectors; ratios 0.1..0.8). Overall magnitudes 1, 40, 1e-7, 1e7 (thorough also 1e-30, 1e30, 3e-4); QR families include nearly triangular matrices with sub-diagonal parts of relative size 1e-6..1e-15.",
            "§3 C15"),
})

CLAIMED.update({
    "C16": ("exploration",
            "bounded-exhaustive enumeration: complete product of 101 angles x 98 axes x 3 axis lengths for the rotations, and r x 25 polar x 24 azimuthal angles x the same axes for the spherical coordinates, each case compared with long-double geometry",
            "Every enumerated Rotation_Matrix is checked for R^T R = I, det = 1, R n = n, R v = cos(a) v + sin(a) n x v for v perpendicular to n, and R(a)R(b) = R(a+b), within 16u; every Spherical_Coordinates result for norm r, v.n = r cos(theta) within 16u r and right-handed progression in phi; axis +z and the plain overload bitwise against the closed form. The axis list contains both poles and directions 1e-12, 1e-8, 1e-4 away from them, which is where a division by sqrt(1-n_z^2) breaks. Angles include 1e-12..1e-2 around every multiple of pi/2; v(phi) is compared with r(cos(theta) n + sin(theta)(cos(phi) e1 + sin(phi) e2)) (frame from v(0)) on the ring and on azimuths 1e-9..1e-3 next to the multiples of pi/2; every ordered pair of axes is requested back to back and must not influence each other; Angle for every pair of the axis alphabet including parallel and antiparallel pairs. Radii 1e-6..1e6 with every axis length.",
            "Angles and axes are the stated finite lists (all multiples of pi/12 in [-4pi,4pi] plus four irrational angles; coordinate, diagonal, (1,2,3)-permutation and near-pole axes with lengths 1e-6, 1, 1e6).",
            "§3 C16"),
})

CLAIMED.update({
    "C10": ("fault_enumeration",
            "enumeration of guard boundaries: a declarative table of 89 guarded entry points x boundary letters (index = size-1, size, size+1, UINT_MAX; shapes equal / transposed / off by one; table lengths 0..4; x at 0.99 % and 1.01 % of the edge interval outside both domain ends; parameters on both sides of every range test), one request per child process under ASan+UBSan",
            "For every listed request the side of the guard is stated in the table and the child's observable outcome is classified (returned / exit with failure status and non-empty diagnostic / sanitizer report / signal / timeout): rejected side must produce exactly the diagnostic exit, accepted side must return. Running each request in its own sanitized process turns 'reads or writes out of bounds' into an outcome instead of a plausible number.",
            "The table is hand-written from the property's anchors (995 requests; the evidence lists which of the library's diagnostics answered); entry points not named there (Configuration, terminal output helpers, Logger) are not covered. The exact 1 % point of the extrapolation tolerance is not probed (rounding decides its side).",
            "§3 C10"),
})

CLAIMED.update({
    "C06": ("model_checking",
            "explicit-state BFS to fixpoint over the global factorial memo (state = memo contents, every Factorial/Binomial_Coefficient letter applied in every reachable state, oracle = fresh memo) plus complete grids against two mutually checking long-double references (positive series and Lentz continued fraction)",
            "The memo makes Factorial/Binomial_Coefficient a function of the call history; all 171 reachable memo states are visited and all 315 letters executed in each, so 'every call order' is decided, not sampled. Binomial_Coefficient is checked for all 0<=k<=n<=400 (Pascal, symmetry, exact integer where the rounding bound allows), GammaLn/Gamma on 2001 points within 16u in the logarithm, P and Q on an (a,x) grid dense around x=a+1 and a=100 (range, P+Q=1, monotone in x, 1e-12 / 1e-3 against the reference, Upper+Lower=Gamma), and the inverses on 60 probabilities for every a of the grid. GammaLn/Gamma on 4443 points from 1e-300 to 1e300. Shape parameters within 1e-12..3e-9 (relative) of the integers 1..31. Call histories over the whole family.",
            "Grid, not continuum: a on 47 (quick) / 407 (thorough) values of (1e-3,1e4], x on 200 / 2000 points per a plus the switch-over neighbourhoods. Inverse cases whose solution lies below the normal double range (tiny a, small p) are excluded and counted. The two reference methods must agree (count of unresolved points is reported and is 0).",
            "§3 C06"),
})

CLAIMED.update({
    "C07": ("exploration",
            "bounded-exhaustive enumeration: per family a complete product of a parameter alphabet and an argument grid containing the support boundaries, both sides of every branch and far tails (binomial: all trials 0..170 x 6 p x all x; Poisson: 14 means x all counts 0..500), coherence oracles between the two members of each pair",
            "Coherence is a relation between two functions that no single-point test touches: on every adjacent pair of grid points the CDF difference is compared with the harness's own 64-point Gauss-Legendre integral of the library's PDF (32-point self-check), discrete CDFs with the running sum of the PMF and their steps with the PMF; range, monotonicity and limits of every CDF; Quantile_Gauss and Inv_CDF_Poisson against their CDFs; Poisson likelihoods against PMF_Poisson (binned: all tuples over small alphabets for 1..4 bins); KDE non-negative and integrating to one within 1e-6 for 120 data/weight/window/bandwidth configurations and for the complete lattice of weighted samples (n=6; thorough n=6,7,9: positions with gaps from {0.1,1}, every weight from {0.2,1,5}, window flush with the data, two bandwidths: 1.8e6 samples).",
            "Parameter alphabets are finite (e.g. normal mu in {0,-3,1e3} x sigma in {1e-3,1,50}; chi-square dof in {0.5,...,342,344,400}). Intervals on which the 32/64-point self-check does not agree (integrable singularities at 0) are skipped and counted.",
            "§3 C07"),
})

CLAIMED.update({
    "C17": ("exploration",
            "bounded-exhaustive enumeration: Round on every d-digit mantissa x every decimal exponent (d<=3 all of -299..299; d=4 all exponents in thorough; d=5..7 at three exponents) each with its nextafter neighbours and the half-way point +-1 ulp; Dawson/Erfi/Inv_Erf on complete grids against long-double quadrature / Newton references; all pairs of a 12-value alphabet for the comparison helpers; all (l,m) with l<=12 x 144 directions for the harmonics",
            "Oddness and idempotence of Round are demanded bit for bit, monotonicity along the sorted enumeration and the half-unit bound on 2.3e7 (quick) / 5.8e8 (thorough) arguments that sit exactly at and next to every representable decimal boundary - the places two hand-picked numbers never reach. Dawson within 2e-7 absolutely, Erfi within 1e-6 relatively, Inv_Erf within 1e-4 of a long-double inverse up to 1-1e-12; Sign/StepFunction/Relative_Difference/Floats_Equal consistent, reflexive and symmetric on all pairs including signed zeros and subnormals; Y_{l,-m} conjugation symmetry, vector Y = radial unit vector times Y_lm, Psi tangential and equal to theta^ dY/dtheta + phi^ (im/sin theta) Y with the derivative from the ladder relation, for every (l,m). Inv_Erf: oddness up to the last doubles below one and at the ends +-1 (saturation values); accuracy 1e-4 on the stated range |p| <= 1-1e-12. Psi at a pole equals its limit along the meridian; Round(Vector/Matrix) element-wise on every shape.",
            "Grids, not the continuum, for Dawson/Erfi/Inv_Erf (|x|<=30 in steps of 1/64 plus both sides of |x|=0.2). The Psi identity is checked for sin(theta) > 1e-7 with a tolerance growing like 1/sin(theta); at the poles only tangentiality is checked.",
            "§3 C17"),
})

CLAIMED.update({
    "C12": ("exploration",
            "bounded-exhaustive enumeration of all orders n=1..128 (quick) / 1..512 plus eight orders up to 4000 (thorough) x 7 intervals (shifted, far from the origin, reversed), each rule checked against its reference-free definition and against a long-double Newton reference",
            "Order-dependent errors (odd n, large n, the mirror assignment, the middle node written twice, shifted or reversed intervals) are invisible to the single even order the tests use; here every order is built and checked for strictly monotone nodes strictly inside the interval, node and weight symmetry (weights bit for bit), weight sign, sum of weights, exact integration of every Legendre polynomial and monomial of degree k<=min(2n-1,60), agreement of nodes (few ulp) and weights (L1 norm) with an independent long-double rule, identical bits from the three Integrate_Gauss_Legendre overloads and rejection of mismatched lengths. Intervals include widths below 1e-16 at the origin; all ordered pairs of orders up to 32 (thorough 64) are requested back to back through both entry points and must give identical bits. Intervals of width exactly 1 and 2 away from the origin; orders beyond the complete range up to 4096 (every 37th / 5th and the powers of two with their neighbours), each first in a child with a time limit.",
            "Exactness is checked directly only up to degree 60 (conditioning); above that it follows from agreement with the reference rule. Tolerances are O(n)u (rounding of the three-term recurrence), not fitted.",
            "§3 C12"),
    "C13": ("exploration",
            "bounded-exhaustive enumeration over configurations: 6 method names x 19 smooth integrands x 4 intervals x {default, explicit} method_parameter in both orientations and with equal limits; Integrate_2D/3D for every method x every orientation of every axis with different factors and disjoint ranges per axis; spherical overload on angular sub-ranges",
            "The repository's multi-dimensional tests use integrands symmetric under exchange of variables on identical limits, so a swapped argument or limit cannot show; here every axis has its own range and its own factor, every argument handed to the integrand is recorded and must lie in the range of its own pair of limits, and the result must be the signed product of the 1D integrals. 1D: every method within its stated accuracy relative to kappa = int|f|/|int f|, reversed limits the bitwise negation, equal limits exactly 0, abscissae inside the interval. Spherical overload: norm in the shell, z/r in the cos(theta) range, azimuth in the phi range, result = solid angle x radial integral. Intervals narrower than 1e-12 ([1,1+2^-41], [0,1e-13], [-3e-14,2e-14]) against a 24-point long-double rule; call histories: all sequences (depth 3, thorough 4) of 14 request letters (every method, explicit node counts, 2D/3D nested requests) give identical bits per letter, explicit Gauss-Legendre_2 node counts equal the textbook n-point rule. Explicit parameters 1, 2, 7 for the four methods that take none; the spherical overload also with defaulted angles. The defaulted-angle forms of the spherical overload are also run with the direction-dependent integrand cos^2(theta) g(r) (exact value known).",
            "Integrand families are finite lists (damped cosines up to two periods, Lorentzian, 1/(x+s), Gaussians); 3D Trapezoidal uses factors linear in y and z (the boost rule would otherwise need 7e10 evaluations). One integrand on which the trapezoidal rule misses 1e-6 by 6 % is recorded in KNOWN_FINDINGS.txt.",
            "§3 C13"),
})

CLAIMED.update({
    "C19": ("exploration",
            "complete enumeration of the finite parts: all (workers,tasks) in [1,32]x[0,256] (quick) / [1,128]x[0,1024] (thorough), all integer (min,max) in [-40,40]^2 x step 1..40, all step counts 0..200 / 0..2000 on a (min,max) alphabet, all non-decreasing lists over {0,1,2,3} of length <=6 with every element/midpoint/+-ulp/outside target, all lists of length 0..4 over 3-letter alphabets of int, double and std::string with every Sub_List index pair including INT_MIN..INT_MAX and UINT_MAX (also under ASan), all permutations of dyadic data sets n<=6",
            "Each helper is compared with its element-wise definition on every member of the stated finite space: shares of Workload_Distribution differ by at most one and span 0..tasks; Range is the half-open range in the stated direction; Linear_Space/Log_Space have the requested count, start at min, end at max within rounding, are strictly monotone and equally spaced (in the logarithm); Locate_Closest_Location returns an index of a nearest element including ties; the list templates agree with ==, concatenation, transposition and the clamped inclusive Sub_List definition; mean/median/variance/standard deviation/weighted average obey permutation, translation (by 16 and by 2^20..2^40, with the (u*shift)^2 bound of a two-pass scheme) and power-of-two scaling laws (factors 2^-200..2^300, also for the standard deviation and the standard error) on dyadic data and reduce to each other; unequal weights against an independent Cochran reference.",
            "Value alphabets are small and fixed; random long lists of the property's quantifier are replaced by pattern lists up to length 200.",
            "§3 C19"),
})

CLAIMED.update({
    "C14": ("model_checking",
            "exhaustive exploration of call histories with owned entropy: std::random_device::_M_getval() is interposed so every seed is a letter; every history of prior integrations up to depth 2 (quick) / 3 (thorough) over a 10-letter alphabet is run in a child process forked from a pristine parent, and each of 12 observed calls x seeds in its own grandchild; oracle = value bits and the hash of the complete argument stream of the same call in a fresh process",
            "The integrators keep grids, counters and work arrays in function-local statics, so whether a call is affected by earlier ones is a property of the call sequence; all sequences up to the bound are executed (110 / 1110 histories, 2640 / 79920 observed calls) and compared bitwise with a fresh process, including an integrand that reads the whole vector it is handed and a needle integrand that drives Miser into its fall-back branch. In addition every method x dimension 1..6 x 4 regions (offset, anisotropic, width 1e-3, width 1e3) x budgets x 4 families x seeds runs in its own process: every argument vector has the right size and lies inside the hyper-rectangle, constants are integrated to rounding, smooth families within six plain-Monte-Carlo standard errors of the closed form; the 2D/3D front ends pass each coordinate within its own axis' range. Families include sharply peaked off-centre Gaussians (width 0.07 and 0.1 of the side). The constant family takes the values 2.75, 0 and -1.5; the 2D/3D front ends are also called with the budget left at its default.",
            "History alphabet and depth are finite; seeds are the values returned by the interposed entropy source (1,2 quick; 1..6 thorough). Three (method, dimension, region) inputs where Vegas misses a constant because of its absolute TINY threshold are recorded in KNOWN_FINDINGS.txt.",
            "§3 C14"),
})

CLAIMED.update({
    "C18": ("model_checking",
            "the caller's generator is the environment: a real std::mt19937 is scripted (state loaded through operator>> with inverted tempering) so the uniforms each sampler sees are enumerated on complete grids; explicit enumeration of all interleavings of 10 sampler letters up to depth 3 (quick) / 4 (thorough) from two seeds, every transition compared with the same call made first in a pristine process that loads the serialised generator state",
            "Reproducibility and purity are statements about every generator state and every sequence of sampler calls: all sequences up to the bound are executed and each further call must produce the same output and leave the same generator state as in a pristine process started from the serialised state (so no sampler keeps hidden state or consults another entropy source: random_device, rand, random and getrandom are interposed and must stay at zero). The laws are decided exactly instead of statistically: Sample_Uniform is affine in the scripted uniform bit for bit, Sample_Gauss hits the normal quantile within the Kolmogorov distance implied by Inv_Erf's 1e-4, inverse-transform samples satisfy cdf(x)=u, rejection sampling returns the first pair under the density on a full grid of first trials (two envelopes: loose, and 0.4 % below the maximum of the density), Sample_Poisson follows Knuth's product rule on every uniform sequence over a 12-letter grid (15 letters for means below 0.1: mean/2, 1-mean/2, 1-mean/4 added) up to length 5/6 (and on two-level sequences for means 600..5000); targets with bounded support, plateaus and zero-density regions in every sampler from 8/32 seeds: twice from equal states (identical output and final state), no foreign entropy, inside the domain, never leaving the support once reached ; Gaussian tails on scripted uniforms down to 2^-53 and 0 (judged in z), inverse-transform sampling of non-linear CDFs on domains of width 2e-10, 3e-9 and 9e-14, the Metropolis kernel is compared rule by rule on a grid of (start, proposal, acceptance) uniforms, and all (sample, thinning, burn_in) triples of the stated grid return exactly `sample` states of the reference chain at iterations >= burn_in spaced by thinning.",
            "Scripted grids are finite (stratified u=(i+1/2)/m); a supplementary Kolmogorov-Smirnov test at 1e-9 on real streams (8 seeds) is included but is not what decides the property. Poisson sequences whose product ties with exp(-mean) within 1e-12 are skipped and counted.",
            "§3 C18"),
})

CLAIMED.update({
    "C20": ("model_checking",
            "explicit enumeration of file states (every sequence of two / three exports of differently shaped tables to one path followed by an import) and of configurations: shapes x value patterns x header lengths x unit arrangements for the round trip, and the four build configurations g++/clang++ x -O0/-O2 of Natural_Units.cpp, each probed for every unit constant after start-up",
            "The round trip is executed for every member of shapes {1,2,3,7,200}x{1,2,5,12} x 4 value patterns (integers, six-digit decimals over 600 decades, long fractions, dyadics) x {0,1,3} header lines (also headers with a blank line, a whitespace-only line, only a blank, numeric tokens) x 3 unit arrangements over 60 decades (lists and both Export_Function overloads likewise): same shape, every value within half a unit of the sixth significant digit, six-digit decimals exactly. Whether a derived constant defined before its base constants has the right value is a property of the build configuration: Natural_Units.cpp is compiled in all four configurations on every run, a probe prints all 130 constants as hex floats, none may be 0/inf/NaN, 82 defining relations (Joule=kg m^2/s^2, Volt*Coulomb=Joule, Ohm=Volt/Ampere, Tesla, Hz, time and length multiples...) must hold within 8u in each build and the builds must agree within 2u.",
            "Needs g++ and clang++ on PATH (both present in this image). Table configurations whose quotient value/unit leaves the normal double range are excluded and counted. Other compilers or flags (-ffast-math, LTO) are not covered.",
            "§3 C20"),
})

NOT_APPLICABLE = {
}

# coverage added in the sixth and seventh round of seeded changes (DESIGN.md section 7), appended to the level texts
ROUNDS_6_7 = {
    "C02": "Families scaled to subnormal values (1e-310, 3e-320) and to 1e300; brackets next to the ends of the double range ([1e308,1.7e308], [-1.7e308,1.7e308]); the solved function itself calling Find_Root.",
    "C03": "Regular families on similar copies of their intervals (factors 1e-6 .. 1e5), requests down to 1e-21 of the integral, quintics on intervals of one to three ulp; references evaluated without cancellation; the evaluation bound at explicit depths 18-21 on an integrand that never converges.",
    "C04": "Zero scalars, operands whose entries are 1-3 ulp apart, nearly parallel cross products, chained compound assignments and self-assignments, predicates on matrices at 2^-600 / 2^-1000 and with a single subnormal entry.",
    "C05": "Dense ill-conditioned matrices (Hilbert n<=6, rotated graded spectra, condition 1e2..8e7), each inversion first in a child with a 20 s limit.",
    "C06": "Gamma up to its overflow point 171.6 with an explicit finiteness test; whole-number shapes 4..5000 also passed as int and unsigned.",
    "C07": "Success probabilities next to 0 and 1, fractional degrees of freedom, Poisson means 800..2500, every observed count 0..260 (unbinned and in one bin of three), shared parameter objects for PDF_Gauss_2D, digitised KDE samples, -0.0 as the argument of every density and distribution function.",
    "C08": "Prefactors +-1e300, +-1e-300 on four tables.",
    "C10": "Two-argument interpolation requests inside one extrapolation zone; vectors and matrices without components made in four ways each; ragged last rows.",
    "C11": "Both 1D functions with the tolerance left to its default; restart from the object's own best vertex (argument aliasing the object).",
    "C12": "Polynomials that fall, rise or alternate over many orders of magnitude through all three overloads; integrals nested one to six levels deep.",
    "C13": "Every integrand also with sign and scale variants; intervals on the negative axis.",
    "C14": "Subnormal-valued integrand letters, floating-point environment recorded before every observed call, front ends with the widths in every order, front ends nested in front ends (all nine method pairs; Vegas inside Vegas is a recorded finding), the spherical front end with the Monte-Carlo methods, power-of-two budgets, containment with 1e6 samples in far-offset narrow boxes.",
    "C15": "Hollow symmetric matrices (complete for 3x3 and 4x4 over small alphabets), spectra with one vanishing eigenvalue, eigenvectors orthogonal to the start vector of the inverse iteration.",
    "C16": "Radii 1e+-154 .. 1.5e308, tilts from +-z down to the smallest subnormal, every integer axis up to 24 (40) per component and a generic lattice, in batches under a watchdog.",
    "C17": "Directions within 1e-100 .. 1e-7 of the poles.",
    "C18": "Targets that vanish around the internally drawn start; Poisson means around the underflow of exp(-mean) (708..746); the acceptance rule on a V-shaped density.",
    "C19": "Unequal weights with unit mean; lists of neighbouring doubles in the list helpers.",
    "C20": "Header lines consisting of numbers only, neighbours across a power of ten in the rounding overloads (oracle independent of Round), round trips under global locales with decimal comma / digit grouping, file entries below DBL_MIN, logarithmic ranges beyond 308 decades, per-column units on 3-4 columns, matrices of every shape up to 4x4.",
}
for _k, _v in ROUNDS_6_7.items():
    _t = list(CLAIMED[_k]); _t[2] = _t[2].rstrip() + " " + _v; CLAIMED[_k] = tuple(_t)

ALL = ["C%02d" % i for i in range(1, 21)]


def main():
    checks = []
    for pid in ALL:
        if pid not in CLAIMED:
            continue
        cat, tech, text, note, ref = CLAIMED[pid]
        checks.append(dict(
            property_id=pid,
            quick_cmd="./vcheck %s --tier quick" % pid,
            thorough_cmd="./vcheck %s --tier thorough" % pid,
            evidence_file="/verif/evidence/%s.json" % pid,
            replay_cmd_template="./vcheck --replay {path}",
            engine="vcheck",
            level_claimed=dict(category=cat, text=text, design_ref=ref),
            level_note=note,
            technique=tech,
        ))
    na = []
    for pid in ALL:
        if pid not in CLAIMED:
            na.append(dict(property_id=pid, reason=NOT_APPLICABLE.get(pid, "check not yet built in this tree (work in progress; see DESIGN.md §3 for the planned exhaustive exploration)")))
    m = dict(
        version=1,
        setup_cmd="./vcheck --build-only",
        hooks=dict(guard="LIBPHYSICA_VERIF", enable="no source hooks: harnesses interpose from outside (own std::random_device::_M_getval, scripted std::mt19937 state, -fno-access-control in harness translation units only); the library is compiled unmodified from /repo's working tree",
                   baseline_off_cmd="cmake --build /repo/_build && ctest --test-dir /repo/_build -j8 --timeout 900", source_commits=[], add_only=True),
        engines=[dict(name="vcheck", path="/verif/vcheck", serves_properties=[c["property_id"] for c in checks],
                      kind_free_text="Python driver + C++ harnesses (/verif/harness, /verif/mc): explicit-state BFS over real objects, deviation-bounded stateless DFS over environment answers, complete product enumeration, one-request-per-child fault enumeration under ASan/UBSan")],
        checks=checks,
        not_applicable=na,
        notes="All checks rebuild the library from /repo's working tree (hash-keyed cache under /verif/build). KNOWN_FINDINGS.txt lists recorded findings and repaired defects.",
    )
    json.dump(m, open(os.path.join(VERIF, "MANIFEST.json"), "w"), indent=1)
    try:
        import jsonschema
        jsonschema.validate(m, json.load(open("/root/.vp/MANIFEST.schema.json")))
        print("MANIFEST.json valid, %d checks, %d not_applicable" % (len(checks), len(na)))
    except ImportError:
        print("MANIFEST.json written (jsonschema not available for validation)")


if __name__ == "__main__":
    main()
