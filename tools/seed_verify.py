#!/usr/bin/env python3
"""seed_verify.py <PROP> <agent-dir> <n> [--checks C01,C09] [--tier quick] [--name slug]

Confirms one seeded change produced by a sub-agent and files it under /verif/seeded/<PROP>-<slug>/:
  1. fresh scratch worktree of /repo HEAD; the patch applies (3-way allowed) and compiles;
  2. the repository's own tests still pass with it (tools/run_baseline.sh on the worktree);
  3. the demonstration fails with the patch and passes without it;
  4. the listed checks are run against the patched worktree (VERIF_REPO) and the outcome recorded.
The worktree is removed afterwards. Nothing is ever applied to /repo itself.
"""
import sys, os, subprocess, json, shutil, tempfile, argparse, re

VERIF = os.path.dirname(os.path.dirname(os.path.abspath(__file__)))


def sh(cmd, **kw):
    return subprocess.run(cmd, shell=True, stdout=subprocess.PIPE, stderr=subprocess.STDOUT, text=True, **kw)


def build_demo(wt, demo, out):
    os.makedirs(os.path.join(wt, "_demo"), exist_ok=True)
    sh("sed -e 's/@[A-Z_]*@/x/g' %s/include/version.hpp.in > %s/_demo/version.hpp" % (wt, wt))
    srcs = " ".join(os.path.join(wt, "src", f) for f in os.listdir(os.path.join(wt, "src")) if f.endswith(".cpp") and f != "main.cpp")
    r = sh("g++ -std=c++14 -O2 -w -I%s/include -I%s/_demo %s %s -lconfig++ -lpthread -o %s" % (wt, wt, demo, srcs, out))
    return r.returncode == 0, r.stdout[-2000:]


def main():
    ap = argparse.ArgumentParser()
    ap.add_argument("prop")
    ap.add_argument("agent_dir")
    ap.add_argument("n")
    ap.add_argument("--checks")
    ap.add_argument("--tier", default="quick")
    ap.add_argument("--name")
    ap.add_argument("--needs", default="")
    a = ap.parse_args()
    patch = os.path.join(a.agent_dir, "patch%s.diff" % a.n)
    demo = os.path.join(a.agent_dir, "demo%s.cpp" % a.n)
    checks = (a.checks or a.prop).split(",")
    slug = a.name or ("seed%s" % a.n)
    wt = tempfile.mkdtemp(prefix="seedwt-", dir="/tmp")
    os.rmdir(wt)
    meta = dict(property=a.prop, patch=os.path.basename(patch), checks={}, confirmed=False)
    try:
        assert sh("git -C /repo worktree add -q --detach %s HEAD" % wt).returncode == 0
        head = sh("git -C /repo rev-parse --short HEAD").stdout.strip()
        meta["repo_head"] = head
        # demo on the unpatched tree
        ok, log = build_demo(wt, demo, wt + "/_demo/demo_clean")
        assert ok, "demo does not build on clean tree: " + log
        if os.environ.get("SEED_DEMO_WT"):   # demo that rebuilds the library itself: wants its own source as <wt>/demo.cpp and the worktree as argument
            shutil.copy(demo, os.path.join(wt, "demo.cpp"))
        run = (lambda exe: sh("cd %s && timeout 600 ./_demo/%s %s" % (wt, exe, wt))) if os.environ.get("SEED_DEMO_WT") else (lambda exe: sh("cd %s/_demo && timeout 300 ./%s" % (wt, exe)))
        r0 = run("demo_clean")
        meta["demo_clean_exit"] = r0.returncode
        r = sh("git -C %s apply --3way %s" % (wt, patch))
        if r.returncode != 0:
            r = sh("git -C %s apply %s" % (wt, patch))
        assert r.returncode == 0, "patch does not apply: " + r.stdout
        sh("git -C %s reset -q" % wt)
        newpatch = sh("git -C %s diff" % wt).stdout
        ok, log = build_demo(wt, demo, wt + "/_demo/demo_patched")
        assert ok, "patched tree does not compile: " + log
        r1 = run("demo_patched")
        meta["demo_patched_exit"] = r1.returncode
        shutil.rmtree(wt + "/_demo")
        sh("rm -rf %s/demo.cpp %s/_demo2 %s/_demo_out %s/_d2" % (wt, wt, wt, wt))
        sh("git -C %s clean -fdq -e _tbuild" % wt)
        t = sh("%s/tools/run_baseline.sh %s" % (VERIF, wt))
        meta["repo_tests_pass_with_patch"] = t.returncode == 0
        meta["repo_tests_tail"] = t.stdout.strip().split("\n")[-3:]
        shutil.rmtree(wt + "/_tbuild", ignore_errors=True)
        sh("git -C %s checkout -q -- tests 2>/dev/null; rm -f %s/tests/log.txt" % (wt, wt))
        for c in checks:
            env = dict(os.environ, VERIF_REPO=wt)
            rr = subprocess.run([os.path.join(VERIF, "vcheck"), c, "--tier", a.tier], stdout=subprocess.PIPE, stderr=subprocess.STDOUT, text=True, env=env)
            viols = [l for l in rr.stdout.split("\n") if l.startswith("VIOLATION")]
            meta["checks"][c] = dict(tier=a.tier, exit=rr.returncode, violation_lines=len(viols), first=[re.sub(r"replay=\S+\s+", "", v)[:300] for v in viols[:3]],
                                     summary=[l for l in rr.stdout.split("\n") if l.startswith(c + " tier")][-1:])
        meta["confirmed"] = bool(meta["demo_clean_exit"] == 0 and meta["demo_patched_exit"] != 0 and meta["repo_tests_pass_with_patch"])
        meta["detected_by"] = [c for c, v in meta["checks"].items() if v["exit"] == 1 and v["violation_lines"] > 0]
        meta["needs_to_manifest"] = a.needs
        meta["ran"] = ["tools/run_baseline.sh <worktree> (repository tests with the patch)", "demo built and run with and without the patch",
                       "VERIF_REPO=<worktree> ./vcheck %s --tier %s" % (",".join(checks), a.tier)]
        dst = os.path.join(VERIF, "seeded", "%s-%s" % (a.prop, slug))
        if meta["confirmed"]:
            os.makedirs(dst, exist_ok=True)
            open(os.path.join(dst, "patch.diff"), "w").write(newpatch)
            shutil.copy(demo, os.path.join(dst, "demo.cpp"))
            notes = os.path.join(a.agent_dir, "notes.txt")
            if os.path.exists(notes):
                shutil.copy(notes, os.path.join(dst, "agent_notes.txt"))
            json.dump(meta, open(os.path.join(dst, "meta.json"), "w"), indent=1)
        print(json.dumps(meta, indent=1))
    finally:
        sh("git -C /repo worktree remove --force %s" % wt)
        shutil.rmtree(wt, ignore_errors=True)


if __name__ == "__main__":
    main()
