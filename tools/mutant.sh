#!/bin/bash
# tools/mutant.sh <patch.diff> <ID> [tier] [--tests]
# Applies a patch to a scratch worktree of /repo (HEAD + uncommitted state is NOT included), runs one check
# against it, optionally the repository's own tests, then removes the worktree.
set -u
P=$(readlink -f "$1"); ID=$2; TIER=${3:-quick}; TESTS=${4:-}
W=$(mktemp -d /tmp/mut-XXXXXX)
git -C /repo worktree add -q --detach "$W" HEAD || exit 2
trap 'git -C /repo worktree remove --force "$W" >/dev/null 2>&1; rm -rf "$W"' EXIT
git -C "$W" apply "$P" 2>/dev/null || { git -C "$W" apply --3way "$P" >/dev/null 2>&1 && git -C "$W" reset -q; } || { echo "PATCH DOES NOT APPLY"; exit 2; }
if [ "$TESTS" = "--tests" ]; then
  /verif/tools/run_baseline.sh "$W" | tail -5
fi
for id in ${ID//,/ }; do
  out=$(VERIF_REPO="$W" /verif/vcheck "$id" --tier "$TIER" 2>&1); rc=$?
  echo "$out" | grep -v "^VIOLATION" | tail -3
  echo "$out" | grep "^VIOLATION" | head -2 | cut -c1-400
  echo "== $id: exit $rc, $(echo "$out" | grep -c "^VIOLATION") VIOLATION lines"
done
