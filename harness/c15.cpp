// C15 — QR factors and eigenpairs satisfy their defining equations.
// M3: complete structured families n=1..7; each Eigensystem/Eigenvectors call in a child process with a time limit (M4).
#include "mc/mc.hpp"
#include "mc/exit_trap.hpp"
#include "mc/purity.hpp"
#include "harness/linalg_ref.hpp"
#include "libphysica/Linear_Algebra.hpp"
using namespace libphysica;
using ref::Rows;
typedef long double ld;

static std::string mstr(const Rows& a)
{
	std::string s;
	for(auto& r : a) s += "[" + mc::decv(r) + "]";
	return s;
}
static std::string mhex(const Rows& a)
{
	std::string s;
	for(auto& r : a) s += mc::hexv(r) + ";";
	return s;
}
static void fail(const std::string& part, const std::string& fam, const Rows& a, const std::string& cls, const std::string& text) { mc::violation(part, part + "|" + fam + "|" + mstr(a) + "|" + cls, text, "part=" + part + " family=" + fam + " M=" + mhex(a)); }
static double maxabs(const Rows& a)
{
	double m = 0;
	for(auto& r : a) for(double x : r) m = std::max(m, std::fabs(x));
	return m;
}

// ---- QR -------------------------------------------------------------------------------------------------------------
static void check_qr(const Rows& a, const std::string& fam)
{
	int n = a.size();
	ref::QRows inv;
	ref::q det;
	if(!ref::inverse(a, inv, det)) return;
	double kappa = (double)(ref::norm_inf(a) * ref::norm_inf(inv));
	if(kappa > 1e6) { mc::count("qr_skipped_condition_above_1e6", 1); return; }
	mc::count("qr_cases", 1);
	std::pair<Matrix, Matrix> qr;
	if(mc::library_exits([&]() { qr = QR_Decomposition(Matrix(a)); })) { fail("qr", fam, a, "terminated_process", "QR_Decomposition of a non-singular matrix ended the process"); return; }
	Matrix &Q = qr.first, &R = qr.second;
	double eo = 0, er = 0, el = 0, am = maxabs(a);
	for(int i = 0; i < n; i++)
		for(int j = 0; j < n; j++)
		{
			ld s = 0, t = 0;
			for(int k = 0; k < n; k++) { s += (ld)Q[k][i] * Q[k][j]; t += (ld)Q[i][k] * R[k][j]; }
			eo = std::max(eo, (double)fabsl(s - (i == j)));
			er = std::max(er, (double)fabsl(t - a[i][j]));
			if(i > j) el = std::max(el, std::fabs(R[i][j]));
		}
	double tol = 16 * n * mc::U_ * n;
	if(!(eo <= tol)) fail("qr", fam, a, "Q_not_orthogonal", "max |Q^T Q - I| = " + mc::dec(eo) + " tol " + mc::dec(tol));
	if(!(el == 0.0)) fail("qr", fam, a, "R_not_upper_triangular", "largest entry below the diagonal " + mc::dec(el));
	if(!(er <= tol * am)) fail("qr", fam, a, "QR_not_M", "max |QR - M| = " + mc::dec(er) + " tol " + mc::dec(tol * am));
	mc::maxi("qr_residual_over_tol", er / (tol * am));
}

// ---- eigen ----------------------------------------------------------------------------------------------------------
static void check_eigen(const Rows& a, const std::string& fam)
{
	int n = a.size();
	mc::count("eigen_cases", 1);
	std::vector<ld> refev = ref::jacobi(a);
	std::sort(refev.begin(), refev.end());
	double scale = 0;
	for(ld v : refev) scale = std::max(scale, (double)fabsl(v));
	// separation of magnitudes (the property's premise)
	std::vector<ld> mags;
	for(ld v : refev) mags.push_back(fabsl(v));
	std::sort(mags.begin(), mags.end());
	ld worst = 0;
	for(int i = 0; i + 1 < n; i++) worst = mags[i + 1] > 0 ? std::max(worst, mags[i] / mags[i + 1]) : 1.0L;	// two vanishing eigenvalues are not separated
	if(n > 1 && !(worst <= 0.8001L)) { mc::count("eigen_skipped_magnitudes_not_separated", 1); return; }
	mc::count("distinct_nontrivial", 1);
	std::vector<double> ev;
	if(mc::library_exits([&]() { ev = Eigenvalues(Matrix(a)); })) { fail("eigenvalues", fam, a, "terminated_process", "Eigenvalues of a symmetric matrix with separated spectrum ended the process"); return; }
	std::vector<double> sorted = ev;
	std::sort(sorted.begin(), sorted.end());
	double e = 0, tr = 0, sum = 0;
	for(int i = 0; i < n; i++) { e = std::max(e, (double)fabsl(sorted[i] - refev[i])); tr += a[i][i]; sum += ev[i]; }
	double tol = 1e-9 * scale;
	if((int)ev.size() != n || !(e <= tol)) fail("eigenvalues", fam, a, "spectrum_differs_from_jacobi", "max difference " + mc::dec(e) + " tol " + mc::dec(tol));
	if(!(std::fabs(sum - tr) <= tol * n)) fail("eigenvalues", fam, a, "sum_not_trace", "sum " + mc::dec(sum) + " trace " + mc::dec(tr));
	ld prod = 1, dref = 1;
	for(int i = 0; i < n; i++) { prod *= ev[i]; dref *= refev[i]; }
	// (a spectrum with a vanishing member - a singular matrix - has determinant zero to rounding: the bound is then the accepted eigenvalue error
	// times the product of the other magnitudes)
	ld ptol = 1e-8L * n * fabsl(dref);
	if(n > 1 && mags[0] < 1e-7L * scale)
	{
		ptol = 0;
		for(int i = 0; i < n; i++) { ld o = 1; for(int j = 0; j < n; j++) if(j != i) o *= fabsl(refev[j]) + tol; ptol += tol * o; }
	}
	if(!(fabsl(prod - dref) <= ptol)) fail("eigenvalues", fam, a, "product_not_determinant", "product " + mc::dec((double)prod) + " determinant " + mc::dec((double)dref));
	mc::maxi("eigenvalue_err_over_tol", e / tol);
	// Eigensystem / Eigenvectors: one child each, 2 s limit
	std::string payload_es;
	for(int which = 0; which < 2; which++)
	{
		const char* fn = which ? "Eigenvectors" : "Eigensystem";
		auto o = mc::isolate([&](std::function<void(const std::string&)> out) {
			Matrix M(a);
			std::string s;
			if(which == 0)
			{
				auto es = Eigensystem(M);
				for(size_t i = 0; i < es.first.size(); i++)
				{
					s += mc::hexd(es.first[i]) + ":";
					for(unsigned k = 0; k < es.second[i].Size(); k++) s += mc::hexd(es.second[i][k]) + ",";
					s += ";";
				}
			}
			else
			{
				auto vs = Eigenvectors(M);
				for(auto& v : vs)
				{
					s += "x:";
					for(unsigned k = 0; k < v.Size(); k++) s += mc::hexd(v[k]) + ",";
					s += ";";
				}
			}
			// the caller's matrix is an input: it must come back unchanged
			bool same = M.Rows() == (unsigned)n && M.Columns() == (unsigned)n;
			for(int i = 0; same && i < n; i++)
				for(int k = 0; k < n; k++) if(!mc::same_bits(((const Matrix&)M)[i][k], a[i][k])) same = false;
			out(s + (same ? "" : "MODIFIED;"));
		}, 2.0);
		mc::count("eigensystem_children", 1);
		if(o.kind == mc::Outcome::TIMEOUT) { fail(fn, fam, a, "does_not_terminate", std::string(fn) + " did not return within 2 s"); continue; }
		if(o.kind != mc::Outcome::RETURNED) { fail(fn, fam, a, "terminated_process", std::string(fn) + " ended the process: " + o.name() + " " + o.out.substr(0, 120)); continue; }
		if(o.payload.find("MODIFIED;") != std::string::npos)
		{
			fail(fn, fam, a, "argument_matrix_modified", std::string(fn) + " changed the matrix it was given");
			o.payload.erase(o.payload.find("MODIFIED;"), 9);
		}
		if(which == 0) payload_es = o.payload;
		else if(!payload_es.empty())
		{
			// the two spellings describe the same vectors (up to an overall sign each)
			std::vector<std::vector<double>> A1, A2;
			for(int w = 0; w < 2; w++)
			{
				std::stringstream s2(w ? o.payload : payload_es);
				std::string it;
				while(std::getline(s2, it, ';'))
					if(!it.empty()) (w ? A2 : A1).push_back(mc::parsev(it.substr(it.find(':') + 1)));
			}
			bool agree = A1.size() == A2.size();
			for(size_t i = 0; agree && i < A1.size(); i++)
			{
				double dp = 0, dm = 0;
				if(A1[i].size() != A2[i].size()) { agree = false; break; }
				for(size_t k = 0; k < A1[i].size(); k++) { dp = std::max(dp, std::fabs(A1[i][k] - A2[i][k])); dm = std::max(dm, std::fabs(A1[i][k] + A2[i][k])); }
				if(!(std::min(dp, dm) <= 1e-12)) agree = false;
			}
			if(!agree) fail(fn, fam, a, "eigenvectors_differ_from_eigensystem", "Eigenvectors(M) is not the second component of Eigensystem(M) (up to signs, 1e-12)");
		}
		// parse
		std::stringstream ss(o.payload);
		std::string item;
		int cnt = 0;
		std::vector<bool> used(n, false);
		double worst_res = 0;
		bool bad = false;
		while(std::getline(ss, item, ';'))
		{
			if(item.empty()) continue;
			auto c = item.find(':');
			std::vector<double> v = mc::parsev(item.substr(c + 1));
			if((int)v.size() != n) { bad = true; break; }
			ld nrm = 0;
			for(double x : v) nrm += (ld)x * x;
			if(!(fabsl(sqrtl(nrm) - 1) <= 1e-12L)) { fail(fn, fam, a, "eigenvector_not_unit", "norm " + mc::dec((double)sqrtl(nrm))); bad = true; break; }
			// Rayleigh quotient as the eigenvalue when only vectors are returned
			ld lam = 0;
			std::vector<ld> mv(n, 0);
			for(int i = 0; i < n; i++)
				for(int k = 0; k < n; k++) mv[i] += (ld)a[i][k] * v[k];
			if(which == 0) lam = mc::parsed(item.substr(0, c));
			else for(int i = 0; i < n; i++) lam += mv[i] * v[i];
			ld res = 0;
			for(int i = 0; i < n; i++) res = std::max(res, fabsl(mv[i] - lam * v[i]));
			worst_res = std::max(worst_res, (double)res);
			// which reference eigenvalue is it? each must be found once
			int best = -1;
			for(int i = 0; i < n; i++)
				if(!used[i] && (best < 0 || fabsl(refev[i] - lam) < fabsl(refev[best] - lam))) best = i;
			if(best >= 0 && fabsl(refev[best] - lam) <= 1e-7L * scale) used[best] = true;
			cnt++;
		}
		if(bad) continue;
		if(cnt != n) { fail(fn, fam, a, "wrong_number_of_eigenpairs", std::to_string(cnt) + " pairs for n=" + std::to_string(n)); continue; }
		if(!(worst_res <= 1e-8 * scale)) fail(fn, fam, a, "not_an_eigenpair", "max |M v - lambda v| = " + mc::dec(worst_res) + " tol " + mc::dec(1e-8 * scale));
		else mc::maxi("eigenpair_residual_over_tol", worst_res / (1e-8 * scale));
		for(int i = 0; i < n; i++)
			if(!used[i]) { fail(fn, fam, a, "eigenvalue_missing_or_duplicated", "reference eigenvalue " + mc::dec((double)refev[i]) + " has no returned eigenpair"); break; }
	}
}

// orthogonal families ---------------------------------------------------------------------------------------------------
static Rows mul(const Rows& a, const Rows& b)
{
	int n = a.size();
	Rows c(n, std::vector<double>(n, 0.0));
	for(int i = 0; i < n; i++)
		for(int j = 0; j < n; j++)
		{
			ld s = 0;
			for(int k = 0; k < n; k++) s += (ld)a[i][k] * b[k][j];
			c[i][j] = (double)s;
		}
	return c;
}
static Rows transpose(const Rows& a)
{
	int n = a.size();
	Rows t(n, std::vector<double>(n));
	for(int i = 0; i < n; i++)
		for(int j = 0; j < n; j++) t[j][i] = a[i][j];
	return t;
}
static Rows symmetric_from(const Rows& Q, const std::vector<double>& lam)
{
	int n = Q.size();
	Rows m(n, std::vector<double>(n));
	for(int i = 0; i < n; i++)
		for(int j = i; j < n; j++)
		{
			ld s = 0;
			for(int k = 0; k < n; k++) s += (ld)Q[i][k] * lam[k] * Q[j][k];
			m[i][j] = m[j][i] = (double)s;
		}
	return m;
}

static std::vector<Rows> orthogonal_family(int n)
{
	std::vector<Rows> fam;
	Rows I(n, std::vector<double>(n, 0.0));
	for(int i = 0; i < n; i++) I[i][i] = 1;
	fam.push_back(I);
	// signed permutations: cyclic shift, reversal with signs (diagonal / block-diagonal M, eigenvectors with zero components)
	{
		Rows P(n, std::vector<double>(n, 0.0)), Rv = P;
		for(int i = 0; i < n; i++) { P[i][(i + 1) % n] = (i % 2) ? -1 : 1; Rv[i][n - 1 - i] = (i % 3) ? 1 : -1; }
		fam.push_back(P);
		fam.push_back(Rv);
	}
	// products of Givens rotations
	const double ang[] = {M_PI / 6, M_PI / 4, M_PI / 3, 1.0, 0.1, 2.5, M_PI / 2 - 1e-3, 1e-3};
	for(int v = 0; v < (mc::thorough() ? 8 : 4) && n > 1; v++)
	{
		Rows Q = I;
		for(int i = 0; i + 1 < n; i++)
		{
			Rows G	   = I;
			double th  = ang[(i + v) % (mc::thorough() ? 8 : 4)];
			int p = i, r = (v % 2) ? n - 1 : i + 1;
			if(p == r) continue;
			G[p][p] = std::cos(th); G[r][r] = std::cos(th); G[p][r] = -std::sin(th); G[r][p] = std::sin(th);
			Q = mul(Q, G);
		}
		fam.push_back(Q);
		if(v == 0 && n > 2)
		{
			// a single plane rotation: block-diagonal M
			Rows G = I;
			G[0][0] = std::cos(ang[1]); G[1][1] = std::cos(ang[1]); G[0][1] = -std::sin(ang[1]); G[1][0] = std::sin(ang[1]);
			fam.push_back(G);
		}
	}
	// rotations in the planes (i,i+2): checkerboard M (entries with i+j odd vanish, the first sub-diagonal is exactly zero)
	if(n >= 3)
		for(int v = 0; v < (mc::thorough() ? 3 : 2); v++)
		{
			Rows Q = I;
			for(int i = 0; i + 2 < n; i += (v == 2 ? 2 : 1))
			{
				Rows G	  = I;
				double th = ang[(i + v) % 4];
				G[i][i] = std::cos(th); G[i + 2][i + 2] = std::cos(th); G[i][i + 2] = -std::sin(th); G[i + 2][i] = std::sin(th);
				Q = mul(Q, G);
				if(v == 1) break;	// a single (0,2) rotation
			}
			fam.push_back(Q);
		}
	// rotations by tiny angles: eigenvectors with genuine components of 1e-7 ... 1e-10 (weakly coupled blocks)
	if(n >= 2)
		for(double th : {1e-7, 1e-9, 3e-10})
		{
			Rows Q = I;
			for(int i = 0; i + 1 < n; i++)
			{
				Rows G = I;
				int p = i, r = (i % 2) ? n - 1 : i + 1;
				if(p == r) continue;
				double t = th * (1 + i);
				G[p][p] = std::cos(t); G[r][r] = std::cos(t); G[p][r] = -std::sin(t); G[r][p] = std::sin(t);
				Q = mul(Q, G);
			}
			fam.push_back(Q);
		}
	// Householder reflectors of integer vectors
	for(int v = 0; v < (mc::thorough() ? 5 : 2) && n > 1; v++)
	{
		std::vector<double> w(n);
		ld ww = 0;
		for(int i = 0; i < n; i++) { w[i] = v == 0 ? i + 1 : v == 1 ? ((i % 3) - 1) + (i == 0) * 2 : v == 2 ? (i % 2 ? -1 : 2) : v == 3 ? (i == n - 1 ? 5 : (i == 0 ? 1 : 0)) : 1; ww += (ld)w[i] * w[i]; }
		Rows Hh = I;
		for(int i = 0; i < n; i++)
			for(int j = 0; j < n; j++) Hh[i][j] = (double)((i == j) - 2 * (ld)w[i] * w[j] / ww);
		fam.push_back(Hh);
	}
	return fam;
}

// ---- call histories: factorisations and eigenpairs of one matrix do not depend on the matrices handled before ---------------------------
static void histories(unsigned long long& unit)
{
	auto ms = [](const Matrix& M) { std::string o; for(unsigned i = 0; i < M.Rows(); i++) for(unsigned j = 0; j < M.Columns(); j++) o += mc::hexd(M[i][j]) + ","; return o; };
	Rows A = {{4, 1, -2}, {1, 3, 0.5}, {-2, 0.5, 1}}, B = {{2, -1}, {-1, 3}}, C = {{5, 0, 1, 0}, {0, -2, 0, 0.5}, {1, 0, 1, 0}, {0, 0.5, 0, 0.25}}, D = {{0, 1, 0}, {0, 0, -1}, {1, 0, 0}};
	std::vector<mc::PureLetter> L;
	int k = 0;
	for(const Rows* r : {&A, &B, &C, &D})
	{
		Rows a = *r;
		std::string n = std::string(1, "ABCD"[k++]);
		L.push_back({"QR(" + n + ")", [=]() { auto qr = QR_Decomposition(Matrix(a)); return ms(qr.first) + "|" + ms(qr.second); }});
		L.push_back({"Inverse(" + n + ")", [=]() { return ms(Matrix(a).Inverse()); }});
		if(n != "D")
		{
			L.push_back({"Eigenvalues(" + n + ")", [=]() { return mc::hexv(Eigenvalues(Matrix(a))); }});
			L.push_back({"Eigensystem(" + n + ")", [=]() { Matrix M(a); auto es = Eigensystem(M); std::string o = mc::hexv(es.first) + "|"; for(auto& v : es.second) for(unsigned i = 0; i < v.Size(); i++) o += mc::hexd(v[i]) + ","; return o; }});
		}
	}
	// one Matrix object that lives through the whole history and is refilled in place (same address, other contents, very different
	// norms): the answer is that of the contents
	{
		static Matrix shared(3, 3, 0.0), shared2(2, 2, 0.0);
		for(double sc : {1.0, 1e6, 1e-6})
		{
			Rows a = A, b = B;
			for(auto& r : a) for(double& v : r) v *= sc;
			for(auto& r : b) for(double& v : r) v *= sc;
			auto es = [](Matrix& M) { auto e = Eigensystem(M); std::string o = mc::hexv(e.first) + "|"; for(auto& v : e.second) for(unsigned i = 0; i < v.Size(); i++) o += mc::hexd(v[i]) + ","; return o + "|" + mc::hexd(M.Determinant()) + "|" + mc::hexd(M.Norm()); };
			L.push_back({"shared object := " + mc::dec(sc) + "*A; Eigensystem, Determinant, Norm", [=]() { for(int i = 0; i < 3; i++) for(int j = 0; j < 3; j++) shared[i][j] = a[i][j]; return es(shared); }});
			L.push_back({"second shared object := " + mc::dec(sc) + "*B (assigned); Eigensystem", [=]() { shared2 = Matrix(b); return es(shared2); }});
		}
	}
	long long t = mc::purity("histories", L, mc::thorough() ? 3 : 2, unit);
	mc::count("eigen_cases", t);
}

int main(int argc, char** argv)
{
	mc::init(argc, argv);
	if(mc::ctx().replay)
	{
		auto m = mc::parse_case(mc::ctx().replay_case);
		Rows a;
		std::stringstream ss(m["M"]);
		std::string t;
		while(std::getline(ss, t, ';'))
			if(!t.empty()) a.push_back(mc::parsev(t));
		if(m["part"] == "qr") check_qr(a, m["family"]); else check_eigen(a, m["family"]);
		return mc::ctx().violation_total ? 1 : 0;
	}
	int nmax = mc::thorough() ? 7 : 5;
	mc::bound("rule", "sizes 1.." + std::to_string(nmax) + "; QR: integer and graded families with exact non-singularity test; eigen: M = Q diag(lambda) Q^T for every Q of a finite orthogonal family (signed permutations, Givens products, Householder reflectors) x every eigenvalue pattern with magnitude ratios in [0.1,0.8] and both signs; Eigensystem/Eigenvectors one child per call with a 2 s limit; non-trivial = symmetric matrices whose spectrum satisfies the separation premise");
	unsigned long long unit = 0;
	// QR families
	const double v[] = {1, -2, 3, 0.5, -1, 2, 4, -3, 1.5};
	for(int n = 1; n <= nmax; n++)
		for(int pat = 0; pat < 9; pat++)
		{
			if(!mc::mine(unit++)) continue;
			Rows dense(n, std::vector<double>(n)), up = dense, perm(n, std::vector<double>(n, 0.0));
			for(int i = 0; i < n; i++)
			{
				perm[i][(i + pat) % n] = (i + pat) % 2 ? -1 : 1;
				for(int j = 0; j < n; j++)
				{
					dense[i][j] = (i == j ? 5.0 : 0.0) + (double)(int)(2 * v[(i * 4 + j * 7 + pat) % 9]);
					up[i][j]	= j >= i ? v[(i * 4 + j * 7 + pat) % 9] : 0.0;
				}
			}
			check_qr(dense, "dense_integer");
			// the defining equations are scale free: the same matrix times an exact power of two far below / above 1 (round 10:
			// an absolute "column is zero" threshold in the reflector is invisible at ordinary magnitudes)
			for(int e2 : {-60, -200, 60})
			{
				Rows sc = dense;
				for(auto& r : sc) for(double& x : r) x = std::ldexp(x, e2);
				check_qr(sc, "dense_integer_scaled");
			}
			check_qr(up, "upper_triangular");
			check_qr(perm, "signed_permutation");
			check_qr(transpose(up), "lower_triangular");
			// nearly upper triangular: the part below the diagonal is a small multiple of a dense pattern (columns that are almost
			// multiples of e1: a reflector that "has nothing to do" up to 1e-6 ... 1e-15)
			for(double eps : {1e-6, 1e-9, 1e-12, 1e-15})
			{
				Rows g = up;
				for(int i = 0; i < n; i++)
					for(int j = 0; j < i; j++) g[i][j] = eps * v[(i * 5 + j * 3 + pat) % 9];
				check_qr(g, "nearly_upper_triangular");
				Rows h = dense;
				for(int i = 1; i < n; i++) h[i][0] = eps * v[(i + pat) % 9];
				check_qr(h, "first_column_nearly_e1");
			}
			for(int sc = 0; sc < 4; sc++)
			{
				Rows g = dense;
				for(int i = 0; i < n; i++)
					for(int j = 0; j < n; j++) g[i][j] *= std::pow(10.0, ((i * (sc + 1)) % 3 - 1)) * std::pow(10.0, ((j + sc) % 3 - 1) * (sc / 2));
				check_qr(g, "graded_scaling");
			}
		}
	// geometric singular values up to the stated condition number 1e6, sizes 4..7 (the product of the diagonal of R gets as small as 1e-18 |M|^n)
	for(int n = 4; n <= 7; n++)
		for(double cond : {1e3, 9e5})
		{
			auto fam = orthogonal_family(n);
			for(size_t qi = 3; qi < fam.size(); qi += 2)
			{
				if(!mc::mine(unit++)) continue;
				std::vector<double> sv(n);
				for(int i = 0; i < n; i++) sv[i] = std::pow(cond, -(double)i / (n - 1));
				Rows D(n, std::vector<double>(n, 0.0));
				for(int i = 0; i < n; i++) D[i][i] = sv[i];
				check_qr(mul(mul(fam[qi], D), transpose(fam[(qi + 1) % fam.size()])), "geometric_singular_values");
			}
		}
	// all 3x3 over {-1,0,1} that are non-singular (exactly)
	{
		mc::Product p(std::vector<int>(9, 3));
		unsigned long long idx = 0;
		do
		{
			if(!mc::mine(unit + (idx++ >> 5))) continue;
			Rows a(3, std::vector<double>(3));
			for(int i = 0; i < 9; i++) a[i / 3][i % 3] = p.idx[i] - 1;
			if(ref::bareiss(a) != 0) check_qr(a, "all_3x3");
		} while(p.next());
		unit += (idx >> 5) + 1;
	}
	// eigen families
	histories(unit);
	std::vector<std::vector<double>> ratios = {{0.5}, {0.8}, {0.1}, {0.3, 0.7}};
	if(mc::thorough())
		for(auto r : std::vector<std::vector<double>>{{0.2}, {0.3}, {0.4}, {0.6}, {0.7}, {0.75}, {0.8, 0.1}, {0.1, 0.8}, {0.5, 0.8, 0.2}, {0.65, 0.35}}) ratios.push_back(r);
	// overall magnitudes of the matrix: the property is scale free ("every symmetric matrix")
	std::vector<double> tops = {1.0, 40.0, 1e-7, 1e7};
	if(mc::thorough()) { tops.push_back(1e-30); tops.push_back(1e30); tops.push_back(3e-4); }	// n = 7: products of seven eigenvalues stay representable
	for(int n = 1; n <= nmax; n++)
	{
		auto fam = orthogonal_family(n);
		for(size_t qi = 0; qi < fam.size(); qi++)
			for(size_t ri = 0; ri < ratios.size(); ri++)
				for(int signs = 0; signs < 3; signs++)
					for(double top : tops)
					{
						if(!mc::mine(unit++)) continue;
						if(mc::out_of_time("C15 eigen")) goto done;
						std::vector<double> lam(n);
						double cur = top;
						for(int i = 0; i < n; i++)
						{
							lam[i] = cur * (signs == 0 ? 1 : signs == 1 ? ((i % 2) ? -1 : 1) : -1);
							cur *= ratios[ri][i % ratios[ri].size()];
						}
						Rows M = symmetric_from(fam[qi], lam);
						check_eigen(M, "Q" + std::to_string(qi) + "_r" + std::to_string(ri) + "_s" + std::to_string(signs));
						// the same spectrum in other positions along the diagonal of Q^T M Q: ascending, and with neighbours exchanged
						// (an unshifted QR iteration first has to re-order them; for nearly diagonal M the coupling grows before it decays)
						if(n >= 2 && top == 1.0 && signs < 2)
							for(int ord = 1; ord <= 2; ord++)
							{
								std::vector<double> l2 = lam;
								if(ord == 1) std::reverse(l2.begin(), l2.end());
								else for(int i = 0; i + 1 < n; i += 2) std::swap(l2[i], l2[i + 1]);
								check_eigen(symmetric_from(fam[qi], l2), "Q" + std::to_string(qi) + "_r" + std::to_string(ri) + "_s" + std::to_string(signs) + "_order" + std::to_string(ord));
							}
					}
	}
	// hollow symmetric matrices (every diagonal entry exactly zero: adjacency, distance and pure coupling matrices): all of size 3 over
	// six off-diagonal letters, all of size 4 over three (thorough: five) letters, band and complete patterns up to nmax
	{
		const double L6[] = {0, 1, 2, 3, -1, -2};
		unsigned long long idx = 0;
		for(int n = 3; n <= 4; n++)
		{
			int m = n * (n - 1) / 2, nl = n == 3 ? 6 : (mc::thorough() ? 5 : 3);
			mc::Product p(std::vector<int>(m, nl));
			do
			{
				if(!mc::mine(unit + (idx++ >> 3))) continue;
				Rows a(n, std::vector<double>(n, 0.0));
				int t = 0;
				for(int i = 0; i < n; i++)
					for(int j = i + 1; j < n; j++) { a[i][j] = a[j][i] = L6[p.idx[t++]]; }
				check_eigen(a, "hollow");
			} while(p.next());
		}
		unit += (idx >> 3) + 1;
		for(int n = 5; n <= nmax; n++)
			for(int pat = 0; pat < 4; pat++)
			{
				if(!mc::mine(unit++)) continue;
				Rows a(n, std::vector<double>(n, 0.0));
				for(int i = 0; i < n; i++)
					for(int j = i + 1; j < n; j++) a[i][j] = a[j][i] = pat == 0 ? 1.0 : pat == 1 ? (j == i + 1 ? 1.0 + i : 0.0) : pat == 2 ? (double)((i * 3 + j * 5) % 7 - 2) : 1.0 / (1 + j - i);
				check_eigen(a, "hollow");
			}
	}
	// eigenvectors orthogonal (to rounding) to the vector the pinned inverse iteration starts from, (1, e^-1/3, e^-2/3, ...), and to the
	// all-ones and alternating vectors: the start then holds nothing of the wanted direction but rounding noise
	for(int n = 2; n <= nmax; n++)
		for(int which = 0; which < 3; which++)
			for(int pos = 0; pos < 3; pos++)
				for(size_t ri = 0; ri < 2; ri++)
				{
					if(!mc::mine(unit++)) continue;
					std::vector<ld> d(n);
					for(int i = 0; i < n; i++) d[i] = which == 0 ? expl(-(ld)i / 3) : which == 1 ? 1.0L : (i % 2 ? -1.0L : 1.0L);
					// orthonormal basis whose first vector is orthogonal to d: Gram-Schmidt (twice) on w, d, e_2, e_3, ...
					std::vector<std::vector<ld>> B;
					auto push = [&](std::vector<ld> v, bool against_d) {
						for(int pass = 0; pass < 2; pass++)
						{
							if(against_d) { ld dd = 0, vd = 0; for(int i = 0; i < n; i++) { dd += d[i] * d[i]; vd += v[i] * d[i]; } for(int i = 0; i < n; i++) v[i] -= vd / dd * d[i]; }
							for(auto& b : B) { ld s = 0; for(int i = 0; i < n; i++) s += v[i] * b[i]; for(int i = 0; i < n; i++) v[i] -= s * b[i]; }
						}
						ld nn = 0;
						for(int i = 0; i < n; i++) nn += v[i] * v[i];
						if(nn < 1e-20L) return;
						for(int i = 0; i < n; i++) v[i] /= sqrtl(nn);
						B.push_back(v);
					};
					std::vector<ld> w(n);
					for(int i = 0; i < n; i++) w[i] = 1.0L + 0.37L * i * (i % 2 ? -1 : 1);
					push(w, true);
					for(int k = 0; k < n && (int)B.size() < n; k++) { std::vector<ld> e(n, 0.0L); e[k] = 1; e[(k + 1) % n] += 0.5L; push(e, false); }
					if((int)B.size() != n) continue;
					int p = pos == 0 ? n - 1 : pos == 1 ? 0 : n / 2;	// position of that eigenvector in the order of decreasing magnitude
					Rows Q(n, std::vector<double>(n));
					for(int k = 0; k < n; k++)
					{
						int src = k == p ? 0 : (k < p ? k + 1 : k);
						for(int i = 0; i < n; i++) Q[i][k] = (double)B[src][i];
					}
					std::vector<double> lam(n);
					double cur = 1.0;
					for(int i = 0; i < n; i++) { lam[i] = cur * ((i % 2) ? -1 : 1); cur *= ratios[ri][i % ratios[ri].size()]; }
					check_eigen(symmetric_from(Q, lam), "eigenvector_orthogonal_to_start_" + std::to_string(which) + "_pos" + std::to_string(pos));
				}
done:
	mc::count("evaluations", mc::ctx().counters["qr_cases"] + mc::ctx().counters["eigen_cases"]);
	mc::count("distinct_nontrivial", mc::ctx().counters["qr_cases"]);
	if(mc::shard0()) mc::sample("symmetric M = Q diag(1,0.5,0.25) Q^T with Q a product of Givens rotations by pi/6, pi/4: Eigenvalues vs cyclic Jacobi, each Eigensystem/Eigenvectors call in a child with a 2 s limit");
	return mc::finish();
}
