// Independent reference model of Steffen's monotone cubic interpolant (M. Steffen, A&A 239, 443 (1990)),
// written from the paper in long double. Used by the C01 and C08 harnesses.
#pragma once
#include <vector>
#include <cmath>
#include <algorithm>

namespace ref
{
typedef long double ld;
inline int sgn(ld v) { return (v > 0) - (v < 0); }

struct Steffen
{
	int N;
	std::vector<ld> x, y, h, s, dy, a, b, c;
	bool limiter_active = false, nonuniform = false;
	Steffen(const std::vector<double>& xs, const std::vector<double>& ys) : N(xs.size()), x(xs.begin(), xs.end()), y(ys.begin(), ys.end())
	{
		h.resize(N - 1);
		s.resize(N - 1);
		dy.resize(N);
		for(int i = 0; i < N - 1; i++)
		{
			h[i] = x[i + 1] - x[i];
			s[i] = (y[i + 1] - y[i]) / h[i];
			if(i > 0 && h[i] != h[i - 1]) nonuniform = true;
		}
		for(int i = 1; i < N - 1; i++)
		{
			// eq. (8) and (11)
			ld p	= (s[i - 1] * h[i] + s[i] * h[i - 1]) / (h[i - 1] + h[i]);
			ld lim	= std::min(std::min(fabsl(s[i - 1]), fabsl(s[i])), 0.5L * fabsl(p));
			dy[i]	= (sgn(s[i - 1]) + sgn(s[i])) * lim;
			if(sgn(s[i - 1]) * sgn(s[i]) <= 0 || 0.5L * fabsl(p) > std::min(fabsl(s[i - 1]), fabsl(s[i]))) limiter_active = true;
		}
		// boundaries, eq. (24)-(27): parabola through the first/last three points, limited
		auto edge = [&](ld s0, ld s1, ld h0, ld h1) {
			ld p = s0 * (1 + h0 / (h0 + h1)) - s1 * h0 / (h0 + h1);
			if(p * s0 <= 0) { limiter_active = true; return (ld)0; }
			if(fabsl(p) > 2 * fabsl(s0)) { limiter_active = true; return 2 * s0; }
			return p;
		};
		dy[0]	  = edge(s[0], s[1], h[0], h[1]);
		dy[N - 1] = edge(s[N - 2], s[N - 3], h[N - 2], h[N - 3]);
		a.resize(N - 1);
		b.resize(N - 1);
		c.resize(N - 1);
		for(int i = 0; i < N - 1; i++)
		{
			a[i] = (dy[i] + dy[i + 1] - 2 * s[i]) / (h[i] * h[i]);
			b[i] = (3 * s[i] - 2 * dy[i] - dy[i + 1]) / h[i];
			c[i] = dy[i];
		}
	}
	int segment(double q) const
	{
		int j = 0;
		for(int i = 0; i < N - 1; i++)
			if((ld)q >= x[i]) j = i;
		return j;
	}
	ld value(int j, ld q) const
	{
		ld t = q - x[j];
		return ((a[j] * t + b[j]) * t + c[j]) * t + y[j];
	}
	ld d1(int j, ld q) const
	{
		ld t = q - x[j];
		return (3 * a[j] * t + 2 * b[j]) * t + c[j];
	}
	ld d2(int j, ld q) const { return 6 * a[j] * (q - x[j]) + 2 * b[j]; }
	ld d3(int j) const { return 6 * a[j]; }
	// antiderivative of segment j between two points of it
	ld integral(int j, ld q1, ld q2) const
	{
		auto F = [&](ld q) {
			ld t = q - x[j];
			return (((a[j] / 4 * t + b[j] / 3) * t + c[j] / 2) * t + y[j]) * t;
		};
		return F(q2) - F(q1);
	}
	// magnitude scale of the rounding error of a value / first derivative in segment j (see DESIGN.md §2.4, T2)
	ld scale_value(int j) const { return fabsl(y[j]) + fabsl(y[j + 1]); }
	ld scale_d1(int j) const { return fabsl(s[j]); }
};
}	// namespace ref
