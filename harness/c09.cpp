// C09 — Interpolation answers do not depend on call history.
// Explicit-state search to a fixpoint over the real objects (DESIGN.md §3 C09, mode M1).
#include "mc/mc.hpp"
#include "libphysica/Numerics.hpp"
#include <deque>
#include <memory>
#include <tuple>
using namespace libphysica;
using mc::U_;

struct Table
{
	int N;
	std::string spacing;
	std::vector<double> x, y;
};

static Table make_table(int N, const std::string& sp)
{
	Table t;
	t.N		  = N;
	t.spacing = sp;
	double x  = (sp == "geometric") ? 1e-3 : -2.5;
	static const double wild[] = {1.0, 1e-3, 3.0, 1e3, 0.5, 1e-6, 7.0};
	for(int i = 0; i < N; i++)
	{
		t.x.push_back(x);
		double h = 0.375;
		if(sp == "geometric") h = x * (N > 60 ? 0.02 : 0.5);
		else if(sp == "wild") h = wild[(i * 5 + 1) % 7];
		x += h;
		t.y.push_back(((i * i * 7 + 3 * i) % 11) - 5 + 0.25 * (i % 4));
	}
	return t;
}

// full digest of a 1D object (all fields)
static void digest1(mc::Digest& D, const Interpolation& I)
{
	D.pod(I.N);
	D.vec(I.x_values);
	D.vec(I.function_values);
	D.pod(I.prefactor);
	D.vec(I.a);
	D.vec(I.b);
	D.vec(I.c);
	D.vec(I.d);
	D.pod(I.jLast);
	unsigned char cc = I.correlated_calls ? 1 : 0;
	D.pod(cc);
	D.vec(I.domain);
}
static void digest1_static(mc::Digest& D, const Interpolation& I)   // everything except the three mutable state fields
{
	D.pod(I.N);
	D.vec(I.x_values);
	D.vec(I.function_values);
	D.vec(I.a);
	D.vec(I.b);
	D.vec(I.c);
	D.vec(I.d);
	D.vec(I.domain);
}

struct Query
{
	double x;
	int knot;	// index of the tabulated abscissa it equals, or -1
};

static std::vector<Query> query_alphabet(const std::vector<double>& x)
{
	int N = x.size();
	std::vector<Query> Q;
	double hl = x[1] - x[0], hr = x[N - 1] - x[N - 2];
	Q.push_back({x[0] - 0.0099 * hl, -1});
	Q.push_back({x[0] - 0.005 * hl, -1});
	for(int i = 0; i < N; i++)
	{
		if(i > 0) Q.push_back({std::nextafter(x[i], -INFINITY), -1});
		else if(std::nextafter(x[0], -INFINITY) > x[0] - 0.0099 * hl) Q.push_back({std::nextafter(x[0], -INFINITY), -1});
		Q.push_back({x[i], i});
		if(i < N - 1 || std::nextafter(x[i], INFINITY) < x[i] + 0.0099 * hr) Q.push_back({std::nextafter(x[i], INFINITY), -1});
		if(i < N - 1)
			for(int k = 1; k <= 3; k++)
			{
				double q = x[i] + (x[i + 1] - x[i]) * 0.25 * k;
				if(q > Q.back().x && q < x[i + 1]) Q.push_back({q, -1});
			}
	}
	Q.push_back({x[N - 1] + 0.005 * hr, -1});
	Q.push_back({x[N - 1] + 0.0099 * hr, -1});
	// drop accidental duplicates / disorder (can happen for ulp-sized intervals) and extrapolation points that rounding pushed past the 1 % tolerance
	std::vector<Query> R;
	for(auto& q : Q)
	{
		if(q.x < x[0] && !(std::fabs(q.x - x[0]) < 1e-2 * hl)) continue;
		if(q.x > x[N - 1] && !(std::fabs(q.x - x[N - 1]) < 1e-2 * hr)) continue;
		if(R.empty() || q.x > R.back().x) R.push_back(q);
	}
	return R;
}

struct LState
{
	unsigned jLast;
	bool corr;
	bool operator<(const LState& o) const { return std::tie(jLast, corr) < std::tie(o.jLast, o.corr); }
};

static const double PREF[]	 = {1.0, 2.0, -1.0, -2.0};
static const char* POPS[]	 = {"Set_Prefactor(2)", "Set_Prefactor(1)", "Multiply(-1)"};
static double apply_pop(double p, int op) { return op == 0 ? 2.0 : op == 1 ? 1.0 : p * -1.0; }
static int pref_index(double p)
{
	for(int i = 0; i < 4; i++)
		if(p == PREF[i]) return i;
	return -1;
}

static std::string table_desc(const Table& t) { return "N=" + std::to_string(t.N) + " spacing=" + t.spacing; }

struct Fresh
{
	// per prefactor state, per letter
	std::vector<unsigned> loc;
	std::vector<double> val[4], d1[4], d2[4], d3[4];
};

static double tol_value(const Interpolation& I, int j, double x, double K = 8)
{
	double h = std::fabs(x - I.x_values[j]);
	double cond = std::fabs(I.a[j]) * h * h * h + std::fabs(I.b[j]) * h * h + std::fabs(I.c[j]) * h + std::fabs(I.d[j]);
	return std::fabs(I.prefactor) * K * U_ * cond + mc::ETA;
}
static double tol_d1(const Interpolation& I, int j, double x, double K = 8)
{
	double h = std::fabs(x - I.x_values[j]);
	double cond = 3 * std::fabs(I.a[j]) * h * h + 2 * std::fabs(I.b[j]) * h + std::fabs(I.c[j]);
	return std::fabs(I.prefactor) * K * U_ * cond + mc::ETA;
}

static std::string path_string(const std::vector<std::pair<int, int>>& parent, const std::vector<Query>& Q, int s)
{
	std::vector<int> letters;
	while(s > 0 && parent[s].first >= 0)
	{
		letters.push_back(parent[s].second);
		s = parent[s].first;
	}
	std::string r;
	for(int i = (int)letters.size() - 1; i >= 0; i--) r += (r.empty() ? "" : ",") + mc::hexd(Q[letters[i]].x);
	return r.empty() ? "-" : r;
}

struct Run1D
{
	Table t;
	Interpolation fresh0;
	std::vector<Query> Q;
	std::vector<int> S;	  // pair sub-alphabet (indices into Q)
	std::vector<LState> states;
	std::map<LState, int> index;
	std::vector<std::pair<int, int>> parent;
	Fresh F;
	std::pair<uint64_t, uint64_t> static_key;
	Interpolation* other = nullptr;	  // a second object with a different table, queried in between
	std::vector<double> other_q;
	Run1D(const Table& tt) : t(tt), fresh0(tt.x, tt.y)
	{
		// same domain, different knots: a query at the same abscissa lands in a different segment index
		std::vector<double> ox, oy;
		int M = tt.N + 3;
		for(int i = 0; i < M; i++) { ox.push_back(tt.x.front() + (tt.x.back() - tt.x.front()) * i / (M - 1.0)); oy.push_back((i * 5) % 7 - 3.0); }
		ox.back() = tt.x.back();
		bool inc = true;
		for(int i = 1; i < M; i++) if(!(ox[i] > ox[i - 1])) inc = false;
		if(inc) { other_store.reset(new Interpolation(ox, oy)); other = other_store.get(); }
	}
	std::unique_ptr<Interpolation> other_store;

	void violation(const std::string& cls, int s, int pi, const std::string& op, const std::string& detail)
	{
		std::string key = "hist1d|" + table_desc(t) + "|state=" + std::to_string(states[s].jLast) + (states[s].corr ? "c" : "u") + ",p=" + mc::dec(PREF[pi]) + "|" + op + "|" + cls;
		std::replace(key.begin(), key.end(), ' ', '_');
		mc::violation("hist1d", key, detail, "N=" + std::to_string(t.N) + " spacing=" + t.spacing + " pref=" + mc::dec(PREF[pi]) + " path=" + path_string(parent, Q, s) + " op=" + op);
	}

	void phase1()
	{
		// BFS over locator states with the Locate letters (prefactor is independent; closure is validated in phase 2)
		Interpolation w = fresh0;
		{
			mc::Digest D;
			digest1_static(D, w);
			static_key = D.key();
		}
		states.push_back({0u, false});
		index[states[0]] = 0;
		parent.push_back({-1, -1});
		for(size_t s = 0; s < states.size(); s++)
		{
			for(size_t l = 0; l < Q.size(); l++)
			{
				w.jLast			   = states[s].jLast;
				w.correlated_calls = states[s].corr;
				w.Locate(Q[l].x);
				LState n{w.jLast, w.correlated_calls};
				if(!index.count(n))
				{
					index[n] = states.size();
					states.push_back(n);
					parent.push_back({(int)s, (int)l});
				}
			}
		}
		// canon-on-replay: witness paths replayed through the public API on a fresh object
		size_t stride = states.size() > 200 ? states.size() / 97 : 1;
		for(size_t s = 0; s < states.size(); s += stride)
		{
			Interpolation r(t.x, t.y);
			std::vector<int> letters;
			int k = s;
			while(k > 0)
			{
				letters.push_back(parent[k].second);
				k = parent[k].first;
			}
			for(int i = (int)letters.size() - 1; i >= 0; i--) r.Locate(Q[letters[i]].x);
			if(r.jLast != states[s].jLast || r.correlated_calls != states[s].corr)
			{
				fprintf(stderr, "FATAL: witness path does not reproduce the state (nondeterminism not owned)\n");
				exit(3);
			}
			mc::count("witness_paths_replayed");
		}
	}

	void fresh_results()
	{
		F.loc.resize(Q.size());
		for(int p = 0; p < 4; p++)
		{
			F.val[p].resize(Q.size());
			F.d1[p].resize(Q.size());
			F.d2[p].resize(Q.size());
			F.d3[p].resize(Q.size());
		}
		for(size_t l = 0; l < Q.size(); l++)
		{
			{
				Interpolation f(t.x, t.y);
				F.loc[l] = f.Locate(Q[l].x);
			}
			for(int p = 0; p < 4; p++)
			{
				{ Interpolation f(t.x, t.y); f.Set_Prefactor(PREF[p]); F.val[p][l] = f.Interpolate(Q[l].x); }
				{ Interpolation f(t.x, t.y); f.Set_Prefactor(PREF[p]); F.d1[p][l] = f.Derivative(Q[l].x, 1); }
				{ Interpolation f(t.x, t.y); f.Set_Prefactor(PREF[p]); F.d2[p][l] = f.Derivative(Q[l].x, 2); }
				{ Interpolation f(t.x, t.y); f.Set_Prefactor(PREF[p]); F.d3[p][l] = f.Derivative(Q[l].x, 3); }
			}
		}
	}

	// "Set_Prefactor and Multiply change all outputs by exactly the stated factor": value and derivatives of a fresh object
	// carrying prefactor p are p times the unit ones, bit for bit (p is a power of two or its negative here)
	void scaling_law()
	{
		for(size_t l = 0; l < Q.size(); l++)
			for(int p = 1; p < 4; p++)
			{
				auto chk = [&](double got, double unitv, const char* what) {
					if(!mc::same_bits(got, PREF[p] * unitv) && !(got == 0 && unitv == 0))
						mc::violation("hist1d", "hist1d|" + table_desc(t) + "|fresh,p=" + mc::dec(PREF[p]) + "|" + what + "(" + mc::hexd(Q[l].x) + ")|output_not_scaled_by_prefactor", std::string(what) + " with prefactor " + mc::dec(PREF[p]) + " = " + mc::dec(got) + ", unit value " + mc::dec(unitv), "N=" + std::to_string(t.N) + " spacing=" + t.spacing + " pref=" + mc::dec(PREF[p]) + " path=- op=" + what + "(" + mc::hexd(Q[l].x) + ")");
				};
				chk(F.val[p][l], F.val[0][l], "Interpolate");
				chk(F.d1[p][l], F.d1[0][l], "Derivative1");
				chk(F.d2[p][l], F.d2[0][l], "Derivative2");
				chk(F.d3[p][l], F.d3[0][l], "Derivative3");
			}
	}

	bool closed(const Interpolation& w, int pi_expected)
	{
		if(!index.count(LState{w.jLast, w.correlated_calls})) return false;
		return pref_index(w.prefactor) == pi_expected;
	}

	// conditioning of the integral between two letters (for knot cases only)
	double tol_integral(const Interpolation& I, double x1, double x2)
	{
		if(x1 > x2) std::swap(x1, x2);
		double cond = 0;
		int N		= I.N;
		for(int j = 0; j < N - 1; j++)
		{
			if(I.x_values[j + 1] < x1 && j + 1 < N - 1) continue;
			if(I.x_values[j] > x2 && j > 0) continue;
			double h = std::max(std::fabs(std::min(x2, I.x_values[j + 1]) - I.x_values[j]), std::fabs(std::max(x1, I.x_values[j]) - I.x_values[j]));
			h		 = std::max(h, I.x_values[j + 1] - I.x_values[j]);
			double X = std::max(std::fabs(I.x_values[j]), std::fabs(I.x_values[j + 1])) + h;
			cond += std::fabs(I.a[j]) / 4 * h * h * h * h + std::fabs(I.b[j]) / 3 * h * h * h + std::fabs(I.c[j]) / 2 * h * h + 2 * std::fabs(I.d[j]) * X;
		}
		return std::fabs(I.prefactor) * 16 * U_ * cond + mc::ETA;
	}

	void phase2(unsigned long long& unit)
	{
		Interpolation w = fresh0;
		int N			= t.N;
		for(size_t s = 0; s < states.size(); s++)
			for(int pi = 0; pi < 4; pi++)
			{
				if(!mc::mine(unit++)) continue;
				if(mc::out_of_time("C09 phase2")) return;
				auto set = [&]() {
					w.jLast			   = states[s].jLast;
					w.correlated_calls = states[s].corr;
					w.prefactor		   = PREF[pi];
				};
				long long tr = 0;
				// single-argument letters
				for(size_t l = 0; l < Q.size(); l++)
				{
					double q = Q[l].x;
					int k	 = Q[l].knot;
					// Locate
					set();
					unsigned j = w.Locate(q);
					tr++;
					if(!closed(w, pi)) violation("state_escaped", s, pi, "Locate(" + mc::hexd(q) + ")", "successor state not in the reachable set");
					if(k < 0)
					{
						if(j != F.loc[l]) violation("locate_differs", s, pi, "Locate(" + mc::hexd(q) + ")", "used object returns " + std::to_string(j) + ", fresh object " + std::to_string(F.loc[l]));
					}
					else if(!((int)j <= N - 2 && w.x_values[j] <= q && q <= w.x_values[j + 1]))
						violation("locate_invalid_at_knot", s, pi, "Locate(" + mc::hexd(q) + ")", "index " + std::to_string(j) + " does not bracket the knot");
					// the same query after a query on a DIFFERENT object (hidden state shared between objects would show here)
					if(other)
					{
						set();
						other->Interpolate(std::min(std::max(q, t.x.front()), t.x.back()));
						double vo = w.Interpolate(q);
						tr++;
						if(k < 0 ? !mc::same_bits(vo, F.val[pi][l]) : !(std::fabs(vo - F.val[pi][l]) <= tol_value(w, w.jLast, q) + tol_value(w, F.loc[l], q)))
							violation("value_differs_after_query_on_another_object", s, pi, "Interpolate(" + mc::hexd(q) + ")", "used " + mc::dec(vo) + " fresh " + mc::dec(F.val[pi][l]));
					}
					// Interpolate
					set();
					double v = w.Interpolate(q);
					tr++;
					if(!closed(w, pi)) violation("state_escaped", s, pi, "Interpolate(" + mc::hexd(q) + ")", "successor state not in the reachable set");
					if(k < 0 ? !mc::same_bits(v, F.val[pi][l]) : !(std::fabs(v - F.val[pi][l]) <= tol_value(w, w.jLast, q) + tol_value(w, F.loc[l], q)))
						violation("value_differs", s, pi, "Interpolate(" + mc::hexd(q) + ")", "used " + mc::dec(v) + " fresh " + mc::dec(F.val[pi][l]));
					// Derivatives
					for(int o = 1; o <= 3; o++)
					{
						set();
						double dv = w.Derivative(q, o);
						tr++;
						const double fr = (o == 1 ? F.d1 : o == 2 ? F.d2 : F.d3)[pi][l];
						bool ok;
						if(k < 0) ok = mc::same_bits(dv, fr);
						else if(o == 1) ok = std::fabs(dv - fr) <= tol_d1(w, w.jLast, q) + tol_d1(w, F.loc[l], q);
						else
						{
							// either one-sided value of the (only C1) curve
							ok = false;
							for(int jj = std::max(0, k - 1); jj <= std::min(N - 2, k); jj++)
							{
								double h   = q - w.x_values[jj];
								double ref = (o == 2) ? PREF[pi] * (6.0 * w.a[jj] * h + 2.0 * w.b[jj]) : PREF[pi] * (6.0 * w.a[jj]);
								double tl  = 8 * U_ * std::fabs(PREF[pi]) * (6 * std::fabs(w.a[jj] * h) + 2 * std::fabs(w.b[jj])) + mc::ETA;
								if(std::fabs(dv - ref) <= tl) ok = true;
							}
						}
						if(!ok) violation("derivative" + std::to_string(o) + "_differs", s, pi, "Derivative(" + mc::hexd(q) + "," + std::to_string(o) + ")", "used " + mc::dec(dv) + " fresh " + mc::dec(fr));
						if(!closed(w, pi)) violation("state_escaped", s, pi, "Derivative(" + mc::hexd(q) + ")", "successor state not in the reachable set");
					}
					set();
					if(!mc::same_bits(w.Derivative(q, 0), v) && k < 0) violation("derivative0_differs", s, pi, "Derivative(" + mc::hexd(q) + ",0)", "order 0 is not Interpolate");
					set();
					if(w.Derivative(q, 4) != 0.0) violation("derivative4_nonzero", s, pi, "Derivative(" + mc::hexd(q) + ",4)", "order 4 is not 0");
					tr += 2;
				}
				// two-argument letters on the sub-alphabet
				for(int l1 : S)
					for(int l2 : S)
					{
						double q1 = Q[l1].x, q2 = Q[l2].x;
						bool knotty = Q[l1].knot >= 0 || Q[l2].knot >= 0;
						Interpolation f(fresh0);
						f.prefactor = PREF[pi];
						double fi	= f.Integrate(q1, q2);
						set();
						double ui = w.Integrate(q1, q2);
						tr++;
						if(knotty ? !(std::fabs(ui - fi) <= tol_integral(w, q1, q2)) : !mc::same_bits(ui, fi))
							violation("integral_differs", s, pi, "Integrate(" + mc::hexd(q1) + "," + mc::hexd(q2) + ")", "used " + mc::dec(ui) + " fresh " + mc::dec(fi));
						if(!closed(w, pi)) violation("state_escaped", s, pi, "Integrate", "successor state not in the reachable set");
						if(q1 <= q2)
						{
							for(int mm = 0; mm < 2; mm++)
							{
								Interpolation g(fresh0);
								g.prefactor = PREF[pi];
								double fm	= mm ? g.Local_Maximum(q1, q2) : g.Local_Minimum(q1, q2);
								set();
								double um = mm ? w.Local_Maximum(q1, q2) : w.Local_Minimum(q1, q2);
								tr++;
								double tl = 0;
								if(knotty)
								{
									tl = tol_value(w, F.loc[l1], q1) + tol_value(w, F.loc[l2], q2);
									if(Q[l1].knot > 0) tl += tol_value(w, Q[l1].knot - 1, q1);
									if(Q[l2].knot > 0) tl += tol_value(w, Q[l2].knot - 1, q2);
								}
								if(knotty ? !(std::fabs(um - fm) <= tl) : !mc::same_bits(um, fm))
									violation(mm ? "local_max_differs" : "local_min_differs", s, pi, std::string(mm ? "Local_Maximum(" : "Local_Minimum(") + mc::hexd(q1) + "," + mc::hexd(q2) + ")",
											  "used " + mc::dec(um) + " fresh " + mc::dec(fm));
								if(!closed(w, pi)) violation("state_escaped", s, pi, "Local_*", "successor state not in the reachable set");
							}
						}
					}
				// zero-argument letters, copies, prefactor letters
				{
					Interpolation f(fresh0);
					f.prefactor = PREF[pi];
					set();
					if(!mc::same_bits(w.Global_Minimum(), f.Global_Minimum()) || !mc::same_bits(w.Global_Maximum(), f.Global_Maximum())) violation("global_differs", s, pi, "Global_*", "global extrema differ from the fresh object's");
					if(!closed(w, pi) || w.jLast != states[s].jLast) violation("state_changed", s, pi, "Global_*", "Global_* changed the object state");
					tr += 2;
					set();
					mc::Digest Dw;
					digest1(Dw, w);
					Interpolation cp(w);
					Interpolation as;
					as = w;
					mc::Digest Dc, Da, Dw2;
					digest1(Dc, cp);
					digest1(Da, as);
					digest1(Dw2, w);
					tr += 2;
					if(Dc.key() != Dw.key() || Da.key() != Dw.key() || Dw2.key() != Dw.key()) violation("copy_differs", s, pi, "copy/assign", "copy or assignment does not reproduce the complete object state");
					// a copy answers like the original
					size_t lq = (s * 7 + pi) % Q.size();
					double a1 = cp.Interpolate(Q[lq].x);
					set();
					double a2 = w.Interpolate(Q[lq].x);
					if(!mc::same_bits(a1, a2)) violation("copy_answers_differently", s, pi, "copy.Interpolate(" + mc::hexd(Q[lq].x) + ")", "copy and original disagree");
					for(int op = 0; op < 3; op++)
					{
						set();
						if(op == 0) w.Set_Prefactor(2.0);
						else if(op == 1) w.Set_Prefactor(1.0);
						else w.Multiply(-1.0);
						tr++;
						int np = pref_index(apply_pop(PREF[pi], op));
						if(!closed(w, np) || w.jLast != states[s].jLast || w.correlated_calls != states[s].corr) violation("prefactor_op_state", s, pi, POPS[op], "prefactor operation left an unexpected state");
						// all outputs change by exactly the stated factor: bitwise equal to the fresh object carrying that prefactor
						double vv = w.Interpolate(Q[lq].x);
						double ff;
						{
							Interpolation f2(fresh0);
							f2.prefactor		= PREF[np];
							f2.jLast			= states[s].jLast;
							f2.correlated_calls = states[s].corr;
							ff					= f2.Interpolate(Q[lq].x);
						}
						if(!mc::same_bits(vv, ff)) violation("prefactor_op_value", s, pi, POPS[op], "value after prefactor operation differs");
					}
					// static part of the object untouched by everything above
					mc::Digest Ds;
					digest1_static(Ds, w);
					if(Ds.key() != static_key) violation("static_fields_modified", s, pi, "any", "tabulated data or coefficients were modified by queries");
				}
				mc::count("transitions", tr);
				mc::count("evaluations", tr);
			}
	}
};

// ---------------------------------------------------------------------------------------------------------------
// 2D
struct Run2D
{
	int Nx, Ny;
	std::vector<double> x, y;
	std::vector<std::vector<double>> f;
	std::vector<Query> Qx, Qy;
	Run2D(int nx, int ny) : Nx(nx), Ny(ny)
	{
		Table tx = make_table(nx, "uniform"), ty = make_table(ny, "geometric");
		x = tx.x;
		y = ty.x;
		f.assign(nx, std::vector<double>(ny));
		for(int i = 0; i < nx; i++)
			for(int j = 0; j < ny; j++) f[i][j] = ((i * 5 + j * 3 + i * j) % 13) - 6 + 0.5 * ((i + j) % 3);
		Qx = query_alphabet(x);
		Qy = query_alphabet(y);
	}
	static void digest2(mc::Digest& D, const Interpolation_2D& I)
	{
		D.pod(I.N_x);
		D.pod(I.N_y);
		D.vec(I.x_values);
		D.vec(I.y_values);
		for(auto& r : I.function_values) D.vec(r);
		D.pod(I.prefactor);
		digest1(D, I.x_int);
		digest1(D, I.y_int);
		for(auto& r : I.domain) D.vec(r);
	}
	void run(unsigned long long& unit)
	{
		Interpolation_2D fresh(x, y, f);
		// locator state spaces of the two embedded objects (phase 1)
		auto lstates = [&](Interpolation base, const std::vector<Query>& Q) {
			std::vector<LState> st{{0u, false}};
			std::set<LState> seen{st[0]};
			for(size_t s = 0; s < st.size(); s++)
				for(auto& q : Q)
				{
					base.jLast			  = st[s].jLast;
					base.correlated_calls = st[s].corr;
					base.Locate(q.x);
					LState n{base.jLast, base.correlated_calls};
					if(seen.insert(n).second) st.push_back(n);
				}
			return st;
		};
		auto SX = lstates(fresh.x_int, Qx), SY = lstates(fresh.y_int, Qy);
		std::set<LState> setX(SX.begin(), SX.end()), setY(SY.begin(), SY.end());
		if(mc::shard0() && !mc::asan_mode()) mc::count("states", (long long)SX.size() * SY.size() * 4);
		// fresh answers
		std::vector<std::vector<double>> FV[4];
		for(int p = 0; p < 4; p++)
		{
			FV[p].assign(Qx.size(), std::vector<double>(Qy.size()));
			for(size_t i = 0; i < Qx.size(); i++)
				for(size_t j = 0; j < Qy.size(); j++)
				{
					Interpolation_2D g(x, y, f);
					g.Set_Prefactor(PREF[p]);
					FV[p][i][j] = g.Interpolate(Qx[i].x, Qy[j].x);
				}
		}
		mc::Digest D0;
		{
			Interpolation_2D g(fresh);
			g.x_int.jLast = 0;
			digest2(D0, g);
		}
		Interpolation_2D w(fresh);
		// a second object with a much finer grid over a different domain
		// same domain, coarser grid (3 x 3): a query at the same point lands in a different cell index
		std::vector<double> ox{x.front(), 0.5 * (x.front() + x.back()), x.back()}, oy{y.front(), 0.5 * (y.front() + y.back()), y.back()};
		Interpolation_2D other2d(ox, oy, std::vector<std::vector<double>>(3, std::vector<double>(3, 1.0)));
		double fmaxabs = 0;
		for(auto& r : f)
			for(double v : r) fmaxabs = std::max(fmaxabs, std::fabs(v));
		for(auto& sx : SX)
			for(auto& sy : SY)
				for(int pi = 0; pi < 4; pi++)
				{
					if(!mc::mine(unit++)) continue;
					if(mc::out_of_time("C09 2D")) return;
					long long tr = 0;
					auto set	 = [&]() {
						w.x_int.jLast = sx.jLast; w.x_int.correlated_calls = sx.corr;
						w.y_int.jLast = sy.jLast; w.y_int.correlated_calls = sy.corr;
						w.prefactor = PREF[pi];
					};
					auto viol = [&](const std::string& cls, const std::string& op, const std::string& detail) {
						std::string key = "hist2d|" + std::to_string(Nx) + "x" + std::to_string(Ny) + "|state=" + std::to_string(sx.jLast) + (sx.corr ? "c" : "u") + "," + std::to_string(sy.jLast) + (sy.corr ? "c" : "u") + ",p=" + mc::dec(PREF[pi]) + "|" + op + "|" + cls;
						mc::violation("hist2d", key, detail, "grid=" + std::to_string(Nx) + "x" + std::to_string(Ny) + " xstate=" + std::to_string(sx.jLast) + "," + std::to_string(sx.corr) + " ystate=" + std::to_string(sy.jLast) + "," + std::to_string(sy.corr) + " pref=" + mc::dec(PREF[pi]) + " op=" + op);
					};
					for(size_t i = 0; i < Qx.size(); i++)
						for(size_t j = 0; j < Qy.size(); j++)
						{
							{
								// same query after a query on a different 2D object (finer grid): state shared between objects would show
								set();
								other2d.Interpolate(std::min(std::max(Qx[i].x, x.front()), x.back()), std::min(std::max(Qy[j].x, y.front()), y.back()));
								double vo = w.Interpolate(Qx[i].x, Qy[j].x);
								tr++;
								bool kn = Qx[i].knot >= 0 || Qy[j].knot >= 0;
								if(kn ? !(std::fabs(vo - FV[pi][i][j]) <= 16 * U_ * 4 * fmaxabs * std::fabs(PREF[pi])) : !mc::same_bits(vo, FV[pi][i][j]))
									viol("value_differs_after_query_on_another_object", "Interpolate(" + mc::hexd(Qx[i].x) + "," + mc::hexd(Qy[j].x) + ")", "used " + mc::dec(vo) + " fresh " + mc::dec(FV[pi][i][j]));
							}
							set();
							double v = w.Interpolate(Qx[i].x, Qy[j].x);
							tr++;
							bool knotty = Qx[i].knot >= 0 || Qy[j].knot >= 0;
							double tl	= 16 * U_ * 4 * fmaxabs * std::fabs(PREF[pi]);
							if(knotty ? !(std::fabs(v - FV[pi][i][j]) <= tl) : !mc::same_bits(v, FV[pi][i][j]))
								viol("value_differs", "Interpolate(" + mc::hexd(Qx[i].x) + "," + mc::hexd(Qy[j].x) + ")", "used " + mc::dec(v) + " fresh " + mc::dec(FV[pi][i][j]));
							if(!setX.count({w.x_int.jLast, w.x_int.correlated_calls}) || !setY.count({w.y_int.jLast, w.y_int.correlated_calls}) || w.prefactor != PREF[pi])
								viol("state_escaped", "Interpolate", "successor state not in the reachable set");
						}
					set();
					{
						Interpolation_2D g(fresh);
						g.prefactor = PREF[pi];
						if(!mc::same_bits(w.Global_Minimum(), g.Global_Minimum()) || !mc::same_bits(w.Global_Maximum(), g.Global_Maximum())) viol("global_differs", "Global_*", "differs from fresh");
						tr += 2;
						mc::Digest Dw, Dc, Da;
						digest2(Dw, w);
						Interpolation_2D cp(w), as;
						as = w;
						digest2(Dc, cp);
						digest2(Da, as);
						tr += 2;
						if(Dw.key() != Dc.key() || Dw.key() != Da.key()) viol("copy_differs", "copy/assign", "copy does not reproduce the complete state");
						for(int op = 0; op < 3; op++)
						{
							set();
							if(op == 0) w.Set_Prefactor(2.0);
							else if(op == 1) w.Set_Prefactor(1.0);
							else w.Multiply(-1.0);
							tr++;
							if(w.prefactor != apply_pop(PREF[pi], op) || w.x_int.jLast != sx.jLast || w.y_int.jLast != sy.jLast) viol("prefactor_op_state", POPS[op], "unexpected state");
						}
						// everything except locator/prefactor state unchanged
						set();
						w.x_int.jLast = 0; w.x_int.correlated_calls = false; w.y_int.jLast = 0; w.y_int.correlated_calls = false; w.prefactor = 1.0;
						mc::Digest Dz;
						digest2(Dz, w);
						if(Dz.key() != D0.key()) viol("static_fields_modified", "any", "tabulated data modified by queries");
					}
					mc::count("transitions", tr);
					mc::count("evaluations", tr);
				}
	}
};

static int replay()
{
	auto m	= mc::parse_case(mc::ctx().replay_case);
	if(!m.count("N")) { printf("replay of 2D cases: state is set directly; see case text\n"); return 0; }
	Table t = make_table(atoi(m["N"].c_str()), m["spacing"]);
	Interpolation used(t.x, t.y), fresh(t.x, t.y);
	double p = mc::parsed(m["pref"]);
	if(m["path"] != "-")
		for(double q : mc::parsev(m["path"])) used.Locate(q);
	used.Set_Prefactor(p);
	fresh.Set_Prefactor(p);
	std::string op = m["op"];
	auto args	   = [&]() { auto a = op.find('('), b = op.find(')'); return mc::parsev(op.substr(a + 1, b - a - 1)); };
	double ru = 0, rf = 0;
	if(op.rfind("Locate", 0) == 0) { ru = used.Locate(args()[0]); rf = fresh.Locate(args()[0]); }
	else if(op.rfind("Interpolate", 0) == 0) { ru = used.Interpolate(args()[0]); rf = fresh.Interpolate(args()[0]); }
	else if(op.rfind("Derivative", 0) == 0) { ru = used.Derivative(args()[0], (unsigned)args()[1]); rf = fresh.Derivative(args()[0], (unsigned)args()[1]); }
	else if(op.rfind("Integrate", 0) == 0) { ru = used.Integrate(args()[0], args()[1]); rf = fresh.Integrate(args()[0], args()[1]); }
	else if(op.rfind("Local_Minimum", 0) == 0) { ru = used.Local_Minimum(args()[0], args()[1]); rf = fresh.Local_Minimum(args()[0], args()[1]); }
	else if(op.rfind("Local_Maximum", 0) == 0) { ru = used.Local_Maximum(args()[0], args()[1]); rf = fresh.Local_Maximum(args()[0], args()[1]); }
	printf("history-laden object: %.17g   fresh object: %.17g\n", ru, rf);
	return mc::same_bits(ru, rf) ? 0 : 1;
}

int main(int argc, char** argv)
{
	mc::init(argc, argv);
	if(mc::ctx().replay) return replay();
	std::vector<int> Ns = {3, 4, 5, 8, 12, 13, 24, 40};
	std::vector<std::pair<int, int>> grids = {{3, 3}, {3, 5}, {5, 4}, {8, 13}};
	if(mc::thorough())
	{
		for(int n : {100, 500, 2000}) Ns.push_back(n);
		grids.push_back({13, 13});
		grids.push_back({24, 12});
	}
	else Ns.push_back(1100);	// one table beyond 2^10 intervals in the quick tier too (stride doubling, size-dependent loop bounds)
	if(mc::asan_mode())
	{
		Ns	  = {3, 4, 5, 8, 12, 13, 24};
		grids = {{3, 3}, {5, 4}};
	}
	mc::bound("rule", "every reachable (locator index, correlation flag, prefactor) state of the real object x every letter of the query alphabet; a case is one (state, operation) transition executed on the compiled code and compared with a fresh object; non-trivial = the state differs from the freshly constructed one");
	mc::bound("tables_1d", "N in {3,4,5,8,12,13,24,40" + std::string(mc::thorough() ? ",100,500,2000" : ",1100 (uniform)") + "} x spacing {uniform, geometric, wild}");
	mc::bound("prefactor_states", "{1,2,-1,-2} reached by Set_Prefactor(2), Set_Prefactor(1), Multiply(-1)");
	mc::bound("search", "breadth-first to fixpoint (no depth bound): histories of unbounded length over the alphabet");
	unsigned long long unit = 0;
	int ti					= 0;
	for(int N : Ns)
		for(const char* sp : {"uniform", "geometric", "wild"})
		{
			if(N >= 500 && std::string(sp) == "wild") continue;
			if(N == 1100 && std::string(sp) != "uniform") continue;
			Run1D R(make_table(N, sp));
			R.Q = query_alphabet(R.t.x);
			// pair sub-alphabet: up to 24 letters spread over Q, always containing both ends, a knot and its neighbours
			{
				std::set<int> S;
				int want = mc::asan_mode() ? 10 : 24;
				for(int k = 0; k < want; k++) S.insert((long long)k * (R.Q.size() - 1) / (want - 1));
				for(size_t l = 0; l < R.Q.size() && S.size() < (size_t)want + 6; l++)
					if(R.Q[l].knot == N / 2 || R.Q[l].knot == 1 || R.Q[l].knot == N - 1) { S.insert(l); if(l > 0) S.insert(l - 1); }
				R.S.assign(S.begin(), S.end());
			}
			R.phase1();
			R.fresh_results();
			if(mc::shard0()) R.scaling_law();
			if(mc::shard0() && !mc::asan_mode())
			{
				mc::count("states", (long long)R.states.size() * 4);
				mc::count("distinct_nontrivial", (long long)R.states.size() * 4 - 1);
				mc::alphabet("queries_N" + std::to_string(N) + "_" + sp, R.Q.size());
				mc::alphabet("locator_states_N" + std::to_string(N) + "_" + sp, R.states.size());
				if(ti % 5 == 0)
					mc::sample("table " + table_desc(R.t) + ": " + std::to_string(R.states.size()) + " locator states x 4 prefactors; e.g. state jLast=" + std::to_string(R.states.back().jLast) + " reached by Locate path [" + path_string(R.parent, R.Q, R.states.size() - 1) + "], then every letter e.g. Interpolate(" + mc::hexd(R.Q[R.Q.size() / 2].x) + ") compared bitwise with a fresh object", 6);
			}
			R.phase2(unit);
			ti++;
		}
	for(auto g : grids)
	{
		Run2D R(g.first, g.second);
		if(mc::shard0()) mc::alphabet("queries2d_" + std::to_string(g.first) + "x" + std::to_string(g.second), R.Qx.size() * R.Qy.size());
		R.run(unit);
	}
	return mc::finish();
}
