// C04 — Vector and matrix algebra obeys the algebraic laws for every conformable shape.
// M3 with exact arithmetic (entries are small dyadic rationals, so every oracle is an equality), all shape triples;
// M4 (sanitizer build): every ordered pair of shapes for the element-wise operations, one request per child.
#include "mc/mc.hpp"
#include "mc/exit_trap.hpp"
#include "libphysica/Linear_Algebra.hpp"
using namespace libphysica;
typedef std::vector<std::vector<double>> Rows;

static const int NPAT = 10;
static double entry(int pat, int i, int j, int salt)
{
	static const double half[] = {0, 0.5, -0.5, 1, -1, 1.5, -1.5, 2, -2, 2.5, -2.5, 3, -3};
	switch(pat)
	{
		case 0: return half[(i * 3 + j * 5 + salt) % 13];
		case 1: return half[(i * i + 2 * j + salt * 7 + 1) % 13];
		case 2: return (i == j) ? half[(i + salt) % 12 + 1] : 0.0;	  // diagonal
		case 3: return half[(i * j + i + salt) % 13];				  // many zeros in row/column 0
		case 4: return ((i + j + salt) % 2) ? -1.0 : 1.0;
		case 5: return half[(7 * i + 11 * j + 3 * salt + (i > j ? 5 : 0)) % 13];
		// the whole operand at a tiny / huge scale (a power of two: every sum and product stays exact)
		case 7: return std::ldexp(half[(7 * i + 11 * j + 3 * salt + (i > j ? 5 : 0)) % 13], -80);
		case 8: return std::ldexp(half[(i * i + 2 * j + salt * 7 + 1) % 13], 80);
		// entries that are not representable in single precision (half-integer + 2^-30); sums stay exact, and so do products with the other patterns
		case 9: return half[(5 * i + 3 * j + 2 * salt) % 13] + std::ldexp(1.0, -30);
		default:
		{
			static const double mixed[] = {1024.0, 1.0 / 1024, -1.0, 0.0, 3.0, -1024.0, -1.0 / 1024};
			return mixed[(i * 2 + j * 3 + salt) % 7];
		}
	}
}
static Rows make(int m, int n, int pat, int salt)
{
	Rows r(m, std::vector<double>(n));
	for(int i = 0; i < m; i++)
		for(int j = 0; j < n; j++) r[i][j] = entry(pat, i, j, salt);
	return r;
}
static std::string shape(int m, int n) { return std::to_string(m) + "x" + std::to_string(n); }
static bool eq(const Matrix& M, const Rows& R)
{
	if(M.Rows() != R.size() || (R.size() && M.Columns() != R[0].size())) return false;
	for(size_t i = 0; i < R.size(); i++)
		for(size_t j = 0; j < R[i].size(); j++)
			if(!(M[i][j] == R[i][j])) return false;
	return true;
}
static bool eqv(const Vector& v, const std::vector<double>& r)
{
	if(v.Size() != r.size()) return false;
	for(size_t i = 0; i < r.size(); i++)
		if(!(v[i] == r[i])) return false;
	return true;
}

// entries through operator[] and through the row / column accessors (a result object is a matrix like any other)
static bool eq_all_accessors(const Matrix& M, const Rows& R)
{
	if(!eq(M, R)) return false;
	for(size_t i = 0; i < R.size(); i++)
		if(!eqv(M.Return_Row(i), R[i])) return false;
	for(size_t j = 0; R.size() && j < R[0].size(); j++)
	{
		std::vector<double> c(R.size());
		for(size_t i = 0; i < R.size(); i++) c[i] = R[i][j];
		if(!eqv(M.Return_Column(j), c)) return false;
	}
	return true;
}

static long long g_checks = 0;
static void fail(const std::string& what, const std::string& cfg, const std::string& cls) { mc::violation("algebra", "algebra|" + cfg + "|" + what + "|" + cls, what + " violates " + cls + " for " + cfg, cfg + " op=" + what); }
#define CHECK(cond, what, cls) do { g_checks++; if(!(cond)) fail(what, cfg, cls); } while(0)

static void triple_body(int m, int n, int k, int pa, int pb);
static void triple(int m, int n, int k, int pa, int pb)
{
	// every request in here is conformable; the library ending the process is itself a violation
	if(mc::library_exits([&]() { triple_body(m, n, k, pa, pb); }))
		mc::violation("algebra", "algebra|m=" + std::to_string(m) + ",n=" + std::to_string(n) + ",k=" + std::to_string(k) + ",patA=" + std::to_string(pa) + ",patB=" + std::to_string(pb) + "|valid_request_terminated_process", "the library called exit() during operations on conformable operands", "m=" + std::to_string(m) + " n=" + std::to_string(n) + " k=" + std::to_string(k));
}
static void triple_body(int m, int n, int k, int pa, int pb)
{
	std::string cfg = "m=" + std::to_string(m) + ",n=" + std::to_string(n) + ",k=" + std::to_string(k) + ",patA=" + std::to_string(pa) + ",patB=" + std::to_string(pb);
	// A and C are added and subtracted: they share a scale (patterns 7 and 8 live at 2^-80 and 2^80); products are exact at any pair of scales
	auto scale_class = [](int p) { return p == 7 ? -1 : p == 8 ? 1 : 0; };
	// (pattern 9 times pattern 9 would need 60 bits per product: its partner in a product is pattern 0 instead)
	if(pa == 9 && pb == 9) pb = 0;
	if(pa == 9 && (pb == 7 || pb == 8)) pb = 1;
	if(pb == 9 && (pa == 7 || pa == 8)) pa = 1;
	Rows a = make(m, n, pa, 0), b = make(n, k, pb, 1), c = make(m, n, scale_class(pb) == scale_class(pa) ? pb : pa, 2);
	Matrix A(a), B(b), C(c);
	// element-wise sums and differences, all spellings
	Rows s(m, std::vector<double>(n)), d(m, std::vector<double>(n));
	for(int i = 0; i < m; i++)
		for(int j = 0; j < n; j++) { s[i][j] = a[i][j] + c[i][j]; d[i][j] = a[i][j] - c[i][j]; }
	CHECK(eq(A.Plus(C), s), "Plus", "elementwise_sum");
	CHECK(eq(A + C, s), "operator+", "elementwise_sum");
	CHECK(eq(A.Minus(C), d), "Minus", "elementwise_difference");
	CHECK(eq(A - C, d), "operator-", "elementwise_difference");
	{ Matrix T(A); T += C; CHECK(eq(T, s), "operator+=", "elementwise_sum"); auto&& r = (T -= C); CHECK(eq(T, a) && &r == &T, "operator-=", "undoes_+="); }
	// chained compound assignments act on the left operand; assigning an object to itself, directly or through the result of a compound assignment, keeps it
	{
		Rows q2 = s, q4 = s;
		for(int i = 0; i < m; i++)
			for(int j = 0; j < n; j++) { q2[i][j] = s[i][j] - c[i][j]; q4[i][j] = ((q2[i][j] - c[i][j]) - c[i][j]); q4[i][j] = (q4[i][j] + c[i][j]) + c[i][j]; }
		Matrix T(A);
		(T += C) -= C;
		CHECK(eq(T, q2), "(T += C) -= C", "chained_compound_assignment");
		(T -= C) -= C;
		(T += C) += C;
		CHECK(eq(T, q4), "(T -= C) -= C; (T += C) += C", "chained_compound_assignment");
		Matrix S(A);
		Matrix& alias = S;
		S = alias;
		CHECK(eq(S, a), "S = S", "self_assignment");
		S = (S += C);
		CHECK(eq(S, s), "S = (S += C)", "self_assignment");
		S = (S -= C);
		CHECK(eq(S, q2), "S = (S -= C)", "self_assignment");
	}
	{ Matrix T(A); T -= C; CHECK(eq(T, d), "operator-=", "elementwise_difference"); }
	CHECK(eq(A, a) && eq(C, c), "operands", "unchanged_by_binary_operations");
	// product
	Rows p(m, std::vector<double>(k, 0.0));
	for(int i = 0; i < m; i++)
		for(int j = 0; j < k; j++)
		{
			long double acc = 0;
			for(int l = 0; l < n; l++) acc += (long double)a[i][l] * b[l][j];
			p[i][j] = (double)acc;
		}
	Matrix P = A * B;
	CHECK(eq_all_accessors(P, p), "operator*(Matrix)", "product_entries");
	CHECK(eq(A.Product(B), p), "Product(Matrix)", "product_entries");
	CHECK((P.Transpose() == B.Transpose() * A.Transpose()), "Transpose", "transpose_of_product");
	CHECK((A * Identity_Matrix(n) == A) && (Identity_Matrix(m) * A == A), "Identity_Matrix", "identity_is_neutral");
	Matrix At = A.Transpose();
	{
		bool ok = At.Rows() == (unsigned)n && At.Columns() == (unsigned)m;
		for(int i = 0; ok && i < m; i++)
			for(int j = 0; j < n; j++) if(!(At[j][i] == a[i][j])) ok = false;
		CHECK(ok, "Transpose", "transpose_entries");
		CHECK(At.Transpose() == A, "Transpose", "involution");
	}
	CHECK(A.Rows() == (unsigned)m && A.Columns() == (unsigned)n && A.Square() == (m == n), "Rows/Columns/Square", "shape_accessors");
	// scalars
	for(double sc : {2.0, -0.5, 4.0, 3.0, -7.0, 0.1, 1.5})
	{
		Rows ms(m, std::vector<double>(n)), md(m, std::vector<double>(n));
		for(int i = 0; i < m; i++)
			for(int j = 0; j < n; j++) { ms[i][j] = sc * a[i][j]; md[i][j] = a[i][j] / sc; }
		CHECK(eq(A * sc, ms) && eq(sc * A, ms) && eq(A.Product(sc), ms), "scalar product", "scales_entries");
		CHECK(eq(A / sc, md) && eq(A.Division(sc), md), "scalar division", "divides_entries");
	}
	for(double sc : {0.0, -0.0})	// the zero scalar keeps the shape
	{
		Rows ms(m, std::vector<double>(n));
		for(int i = 0; i < m; i++)
			for(int j = 0; j < n; j++) ms[i][j] = sc * a[i][j];
		CHECK(eq(A * sc, ms) && eq(sc * A, ms) && eq(A.Product(sc), ms), "scalar product by zero", "scales_entries");
	}
	// operands whose entries are neighbours (1 to 3 units in the last place apart): their differences are exact
	{
		Rows e(m, std::vector<double>(n)), de(m, std::vector<double>(n)), se(m, std::vector<double>(n));
		for(int i = 0; i < m; i++)
			for(int j = 0; j < n; j++)
			{
				double v = a[i][j];
				for(int st = 0; st < 1 + (i + 2 * j) % 3; st++) v = std::nextafter(v, ((i + j) & 1) ? INFINITY : -INFINITY);
				e[i][j] = v; de[i][j] = a[i][j] - v; se[i][j] = a[i][j] + v;
			}
		Matrix E(e);
		CHECK(eq(A.Minus(E), de) && eq(A - E, de), "Minus", "elementwise_difference_of_neighbouring_entries");
		CHECK(eq(A.Plus(E), se) && eq(A + E, se), "Plus", "elementwise_sum_of_neighbouring_entries");
		{ Matrix T(A); T -= E; CHECK(eq(T, de), "operator-=", "elementwise_difference_of_neighbouring_entries"); }
		{ Matrix T(A); T += E; CHECK(eq(T, se), "operator+=", "elementwise_sum_of_neighbouring_entries"); }
	}
	// matrix-vector, vector-matrix, outer, dot against row/column matrices
	std::vector<double> vn(n), vm(m);
	for(int j = 0; j < n; j++) vn[j] = entry(pb, j, 1, 3);
	for(int i = 0; i < m; i++) vm[i] = entry(pa, 2, i, 4);
	Vector Vn(vn), Vm(vm);
	{
		Rows col(n, std::vector<double>(1)), row(1, std::vector<double>(m));
		for(int j = 0; j < n; j++) col[j][0] = vn[j];
		for(int i = 0; i < m; i++) row[0][i] = vm[i];
		Matrix Av = A * Matrix(col), vA = Matrix(row) * A;
		std::vector<double> r1(m), r2(n);
		for(int i = 0; i < m; i++) r1[i] = Av[i][0];
		for(int j = 0; j < n; j++) r2[j] = vA[0][j];
		CHECK(eqv(A * Vn, r1) && eqv(A.Product(Vn), r1), "Matrix*Vector", "equals_product_with_column_matrix");
		CHECK(eqv(Vm * A, r2), "Vector*Matrix", "equals_product_with_row_matrix");
		Matrix O = Outer_Vector_Product(Vm, Vn);
		Rows colm(m, std::vector<double>(1)), rown(1, std::vector<double>(n));
		for(int i = 0; i < m; i++) colm[i][0] = vm[i];
		for(int j = 0; j < n; j++) rown[0][j] = vn[j];
		CHECK(O == Matrix(colm) * Matrix(rown), "Outer_Vector_Product", "equals_column_times_row");
	}
	{
		std::vector<double> w(n);
		for(int j = 0; j < n; j++) w[j] = entry(pa, j, 3, 5);
		Vector W(w);
		Rows row(1, vn), col(n, std::vector<double>(1));
		for(int j = 0; j < n; j++) col[j][0] = w[j];
		double dt = (Matrix(row) * Matrix(col))[0][0];
		CHECK(Vn.Dot(W) == dt && Vn * W == dt && W.Dot(Vn) == dt, "Dot", "equals_row_times_column");
		long double q = 0;
		for(int j = 0; j < n; j++) q += (long double)vn[j] * vn[j];
		CHECK(Vn.Norm() == std::sqrt((double)q), "Vector::Norm", "sqrt_of_sum_of_squares");
		std::vector<double> sv(n), dv(n);
		for(int j = 0; j < n; j++) { sv[j] = vn[j] + w[j]; dv[j] = vn[j] - w[j]; }
		CHECK(eqv(Vn + W, sv) && eqv(Vn - W, dv), "Vector +/-", "elementwise");
		Vector T(Vn);
		T += W;
		CHECK(eqv(T, sv), "Vector +=", "elementwise");
		T -= W;
		T -= W;
		CHECK(eqv(T, dv), "Vector -=", "elementwise");
		{
			// expected values computed step by step (sums at mixed scales are not undone exactly by the difference)
			std::vector<double> q1(n), q2(n), q3(n), q4(n);
			for(int j = 0; j < n; j++) { q1[j] = vn[j] + w[j]; q2[j] = q1[j] - w[j]; q3[j] = q2[j] + w[j]; q4[j] = (q3[j] - w[j]) - w[j]; }
			Vector Q(Vn);
			(Q += W) -= W;
			bool o1 = eqv(Q, q2);
			auto&& r = (Q += W);
			bool o2 = &r == &Q && eqv(Q, q3);
			(Q -= W) -= W;
			CHECK(o1 && o2 && eqv(Q, q4), "Vector (Q += W) -= W", "chained_compound_assignment");
			Vector P(Vn);
			Vector& alias = P;
			P = alias;
			bool o3 = eqv(P, vn);
			P = (P += W);
			bool o4 = eqv(P, q1);
			P = (P -= W);
			CHECK(o3 && o4 && eqv(P, q2), "Vector P = P, P = (P += W)", "self_assignment");
		}
		for(double sc : {2.0, -0.5, 4.0, 3.0, -7.0, 0.1, 1.5})
		{
			std::vector<double> ms(n), md(n);
			for(int j = 0; j < n; j++) { ms[j] = vn[j] * sc; md[j] = vn[j] / sc; }
			CHECK(eqv(Vn * sc, ms) && eqv(sc * Vn, ms) && eqv(Vn / sc, md), "Vector scalar", "scales_entries");
		}
		for(double sc : {0.0, -0.0})
		{
			std::vector<double> ms(n);
			for(int j = 0; j < n; j++) ms[j] = vn[j] * sc;
			CHECK(eqv(Vn * sc, ms) && eqv(sc * Vn, ms), "Vector scalar zero", "scales_entries");
		}
		{
			std::vector<double> e(n), de(n), se(n);
			for(int j = 0; j < n; j++)
			{
				double v = vn[j];
				for(int st = 0; st < 1 + j % 3; st++) v = std::nextafter(v, (j & 1) ? INFINITY : -INFINITY);
				e[j] = v; de[j] = vn[j] - v; se[j] = vn[j] + v;
			}
			Vector E(e), T1(Vn), T2(Vn);
			T1 -= E; T2 += E;
			CHECK(eqv(Vn - E, de) && eqv(T1, de) && eqv(Vn + E, se) && eqv(T2, se), "Vector +/-", "elementwise_on_neighbouring_entries");
		}
		CHECK(Vn.Size() == (unsigned)n && (Vn == Vector(vn)) && !(Vn == Vector(std::vector<double>(n + 1, 0.0))), "Vector::Size/==", "definition");
	}
	// Norm (Frobenius), Trace
	{
		long double q = 0;
		for(auto& r : a) for(double x : r) q += (long double)x * x;
		CHECK(A.Norm() == std::sqrt((double)q), "Matrix::Norm", "sqrt_of_sum_of_squares");
		if(m == n)
		{
			long double t = 0;
			for(int i = 0; i < m; i++) t += a[i][i];
			CHECK(A.Trace() == (double)t, "Trace", "sum_of_diagonal");
		}
	}
	// Sub_Matrix / Delete / Return for every index
	for(int i = 0; i < m; i++)
	{
		CHECK(eqv(A.Return_Row(i), a[i]), "Return_Row", "definition");
		if(m > 1)
		{
			Matrix T(A);
			T.Delete_Row(i);
			Rows r = a;
			r.erase(r.begin() + i);
			CHECK(eq_all_accessors(T, r), "Delete_Row", "definition");
		}
	}
	for(int j = 0; j < n; j++)
	{
		std::vector<double> colv(m);
		for(int i = 0; i < m; i++) colv[i] = a[i][j];
		CHECK(eqv(A.Return_Column(j), colv), "Return_Column", "definition");
		if(n > 1)
		{
			Matrix T(A);
			T.Delete_Column(j);
			Rows r = a;
			for(auto& row : r) row.erase(row.begin() + j);
			CHECK(eq_all_accessors(T, r), "Delete_Column", "definition");
		}
	}
	if(m > 1 && n > 1)
		for(int i = 0; i < m; i++)
			for(int j = 0; j < n; j++)
			{
				Rows r = a;
				r.erase(r.begin() + i);
				for(auto& row : r) row.erase(row.begin() + j);
				CHECK(eq_all_accessors(A.Sub_Matrix(i, j), r), "Sub_Matrix", "definition");
			}
}

// remaining public members: Resize/Assign, Normalize/Normalized, operator==, Identity_Matrix, Orthogonal, copy and assignment
static void members(int m, int n, int pat)
{
	std::string cfg = "members m=" + std::to_string(m) + ",n=" + std::to_string(n) + ",pat=" + std::to_string(pat);
	Rows a = make(m, n, pat, 7);
	Matrix A(a);
	{
		Matrix B(A), C;
		C = A;
		CHECK(B == A && C == A && A == A, "copy/assignment/operator==", "copies_equal_original");
		for(int i = 0; i < m; i++)
			for(int j = 0; j < n; j++)
			{
				Matrix D(A);
				D[i][j] = (D[i][j] == 0) ? 0.25 : D[i][j] * 1.5;	// a change at the entry's own scale
				CHECK(!(D == A) && !(A == D), "operator==", "detects_single_entry_difference");
			}
		CHECK(!(A == Matrix(m, n + 1, 0.0)) && !(A == Matrix(m + 1, n, 0.0)), "operator==", "different_shapes_unequal");
		Matrix R(A);
		R.Resize(m + 1, n + 2);
		bool ok = R.Rows() == (unsigned)m + 1 && R.Columns() == (unsigned)n + 2;
		for(int i = 0; ok && i < m; i++)
			for(int j = 0; j < n; j++) if(!(R[i][j] == a[i][j])) ok = false;
		for(int j = 0; ok && j < n + 2; j++) if(!(R[m][j] == 0.0)) ok = false;
		CHECK(ok, "Matrix::Resize", "keeps_entries_and_zero_fills");
		R.Assign(n, m, 1.5);
		ok = R.Rows() == (unsigned)n && R.Columns() == (unsigned)m;
		for(int i = 0; ok && i < n; i++)
			for(int j = 0; j < m; j++) if(!(R[i][j] == 1.5)) ok = false;
		CHECK(ok, "Matrix::Assign", "shape_and_fill");
	}
	{
		std::vector<double> v(n);
		long double q = 0;
		for(int j = 0; j < n; j++) { v[j] = entry(pat, 1, j, 5) + (j == 0 ? 4.0 : 0.0); q += (long double)v[j] * v[j]; }
		Vector V(v), W(V), X;
		X = V;
		CHECK(W == V && X == V, "Vector copy/assignment", "copies_equal_original");
		Vector U = V.Normalized();
		W.Normalize();
		bool ok = U == W && V == Vector(v);
		long double nn = 0;
		for(int j = 0; j < n; j++) { nn += (long double)U[j] * U[j]; if(!(std::fabs(U[j] - (double)(v[j] / sqrtl(q))) <= 4e-16 * std::fabs(U[j]) + 1e-300)) ok = false; }
		CHECK(ok && std::fabs((double)nn - 1) <= 8e-16 * n, "Normalize/Normalized", "unit_vector_along_original");
		Vector R2(V);
		R2.Resize(n + 2);
		ok = R2.Size() == (unsigned)n + 2 && R2[n] == 0.0 && R2[n + 1] == 0.0;
		for(int j = 0; ok && j < n; j++) if(!(R2[j] == v[j])) ok = false;
		CHECK(ok, "Vector::Resize", "keeps_entries_and_zero_fills");
		R2.Assign(m, -2.5);
		ok = R2.Size() == (unsigned)m;
		for(int j = 0; ok && j < m; j++) if(!(R2[j] == -2.5)) ok = false;
		CHECK(ok, "Vector::Assign", "size_and_fill");
	}
	if(m == n)
	{
		Matrix I = Identity_Matrix(n);
		bool ok = I.Rows() == (unsigned)n && I.Columns() == (unsigned)n;
		for(int i = 0; ok && i < n; i++)
			for(int j = 0; j < n; j++) if(!(I[i][j] == (i == j ? 1.0 : 0.0))) ok = false;
		CHECK(ok, "Identity_Matrix", "definition");
		// signed permutation matrices are orthogonal; scaling one row by 2 destroys it
		Rows p(n, std::vector<double>(n, 0.0));
		for(int i = 0; i < n; i++) p[i][(i + pat) % n] = (i + pat) % 2 ? -1.0 : 1.0;
		CHECK(Matrix(p).Orthogonal(), "Orthogonal", "true_on_signed_permutation");
		p[0][(pat) % n] *= 2;
		CHECK(!Matrix(p).Orthogonal(), "Orthogonal", "false_after_scaling_a_row");
		Rows sing(n, std::vector<double>(n, 1.0));
		if(n > 1) CHECK(!Matrix(sing).Orthogonal() && !Matrix(sing).Invertible(), "Orthogonal/Invertible", "false_on_singular");
	}
}

static void predicates(int n, int pat)
{
	std::string cfg = "n=" + std::to_string(n) + ",pat=" + std::to_string(pat);
	Rows g = make(n, n, pat, 6), sy(n, std::vector<double>(n)), an(n, std::vector<double>(n)), di(n, std::vector<double>(n, 0.0));
	for(int i = 0; i < n; i++)
		for(int j = 0; j < n; j++)
		{
			sy[i][j] = g[std::min(i, j)][std::max(i, j)];
			an[i][j] = i == j ? 0.0 : (i < j ? g[i][j] : -g[j][i]);
			if(i == j) di[i][j] = g[i][i];
		}
	CHECK(Matrix(sy).Symmetric(), "Symmetric", "true_on_symmetric");
	CHECK(Matrix(an).Antisymmetric(), "Antisymmetric", "true_on_antisymmetric");
	CHECK(Matrix(di).Diagonal() && Matrix(di).Symmetric(), "Diagonal", "true_on_diagonal");
	for(int i = 0; i < n; i++)
		for(int j = 0; j < n; j++)
		{
			// a change at the scale of the matrix (pattern 8 lives at 2^80, where adding 0.25 changes nothing)
			double bump = pat == 8 ? std::ldexp(0.25, 80) : pat == 7 ? std::ldexp(0.25, -80) : 0.25;
			Rows t = sy;
			t[i][j] += bump;
			CHECK(Matrix(t).Symmetric() == (i == j), "Symmetric", "single_entry_perturbation");
			t = an;
			t[i][j] += bump;
			CHECK(!Matrix(t).Antisymmetric(), "Antisymmetric", "single_entry_perturbation");
			t = di;
			t[i][j] += bump;
			CHECK(Matrix(t).Diagonal() == (i == j), "Diagonal", "single_entry_perturbation");
		}
	// the same at very small magnitudes (squares of the differences underflow) and with the smallest subnormal number as the only entry
	if(pat != 7 && pat != 8)
		for(int e : {-600, -1000})
			for(int i = 0; i < n; i++)
				for(int j = 0; j < n; j++)
				{
					auto scaled = [&](const Rows& r) { Rows o = r; for(auto& row : o) for(double& v : row) v = std::ldexp(v, e); return o; };
					Rows t = scaled(sy);
					CHECK(Matrix(t).Symmetric(), "Symmetric", "true_on_tiny_symmetric");
					t[i][j] += std::ldexp(0.25, e);
					CHECK(Matrix(t).Symmetric() == (i == j), "Symmetric", "single_entry_perturbation_at_tiny_magnitude");
					t = scaled(an);
					CHECK(Matrix(t).Antisymmetric(), "Antisymmetric", "true_on_tiny_antisymmetric");
					t[i][j] += std::ldexp(0.25, e);
					CHECK(!Matrix(t).Antisymmetric(), "Antisymmetric", "single_entry_perturbation_at_tiny_magnitude");
					t = scaled(di);
					t[i][j] += std::ldexp(0.25, e);
					CHECK(Matrix(t).Diagonal() == (i == j), "Diagonal", "single_entry_perturbation_at_tiny_magnitude");
					Rows z(n, std::vector<double>(n, 0.0));
					z[i][j] = 4.9406564584124654e-324;
					CHECK(Matrix(z).Symmetric() == (i == j) && Matrix(z).Diagonal() == (i == j) && !Matrix(z).Antisymmetric(), "predicates", "single_subnormal_entry");
				}
	// Norm with an infinite entry is +infinity (matrix and vector alike)
	{
		Rows t = g;
		t[n - 1][0] = (pat % 2) ? INFINITY : -INFINITY;
		std::vector<double> tv(t[n - 1]);
		CHECK(Matrix(t).Norm() == INFINITY && Vector(tv).Norm() == INFINITY, "Norm", "infinite_entry_gives_infinite_norm");
	}
	for(int k = 1; k <= 3; k++)
		if(k != n)
		{
			Matrix R(make(n, k, pat, 1));
			CHECK(!R.Symmetric() && !R.Antisymmetric() && !R.Diagonal() && !R.Square(), "predicates", "false_on_non_square");
		}
}

static void blocks()
{
	// every block grid with 1..3 block rows and 1..3 block columns, every block height / width in {0,1,2,3}
	for(int R = 1; R <= 3; R++)
		for(int C = 1; C <= 3; C++)
		{
			mc::Product ph(std::vector<int>(R, 4));
			do
			{
				mc::Product pw(std::vector<int>(C, 4));
				do
				{
					int tr = 0, tc = 0;
					for(int x : ph.idx) tr += x;
					for(int x : pw.idx) tc += x;
					if(tr == 0 || tc == 0) continue;
					std::string cfg = "blocks heights=";
					for(int x : ph.idx) cfg += std::to_string(x) + ",";
					cfg += " widths=";
					for(int x : pw.idx) cfg += std::to_string(x) + ",";
					std::vector<std::vector<Matrix>> B(R);
					Rows want(tr, std::vector<double>(tc, 0.0));
					int io = 0;
					for(int r = 0; r < R; r++)
					{
						int jo = 0;
						for(int c = 0; c < C; c++)
						{
							Matrix M(ph.idx[r], pw.idx[c], 0.0);
							for(int i = 0; i < ph.idx[r]; i++)
								for(int j = 0; j < pw.idx[c]; j++) { M[i][j] = entry(0, i, j, 1 + r * 3 + c); want[io + i][jo + j] = M[i][j]; }
							B[r].push_back(M);
							jo += pw.idx[c];
						}
						io += ph.idx[r];
					}
					bool ok = false;
					if(mc::library_exits([&]() { Matrix M(B); ok = eq(M, want); })) { fail("block constructor", cfg, "valid_request_terminated_process"); continue; }
					CHECK(ok, "block constructor", "entries_at_block_offsets");
					mc::count("block_arrangements", 1);
				} while(pw.next());
			} while(ph.next());
		}
}

// ---- M4: conformability of the element-wise operations -------------------------------------------------------------
static void conformability(int bound, unsigned long long& unit)
{
	const char* ops[] = {"Plus", "Minus", "operator+=", "operator-="};
	for(int m1 = 1; m1 <= bound; m1++)
		for(int n1 = 1; n1 <= bound; n1++)
			for(int m2 = 1; m2 <= bound; m2++)
				for(int n2 = 1; n2 <= bound; n2++)
				{
					if(!mc::mine(unit++)) continue;
					if(mc::out_of_time("C04 conformability")) return;
					bool same = m1 == m2 && n1 == n2;
					for(int op = 0; op < 4; op++)
					{
						auto o = mc::isolate([&](std::function<void(const std::string&)> out) {
							Matrix A(make(m1, n1, 0, 0)), B(make(m2, n2, 1, 1));
							Matrix R = op == 0 ? A.Plus(B) : op == 1 ? A.Minus(B) : op == 2 ? (A += B) : (A -= B);
							out(std::to_string(R.Rows()) + "x" + std::to_string(R.Columns()));
						});
						mc::count("conformability_requests", 1);
						std::string cfg = shape(m1, n1) + " " + ops[op] + " " + shape(m2, n2);
						if(same ? o.kind != mc::Outcome::RETURNED : !o.diagnostic())
							mc::violation("conformability", "conformability|" + shape(m1, n1) + "|" + ops[op] + "|" + shape(m2, n2) + "|" + (same ? "valid_request_did_not_return" : "non_conformable_not_rejected"), std::string("outcome: ") + o.name() + " " + o.out.substr(0, 200), "asan: " + cfg);
					}
				}
	// products are defined exactly when the inner dimensions agree - whatever the right operand contains (an identity included)
	const char* pops[] = {"Product(Matrix)", "operator*(Matrix)", "Product(identity)", "Product(Vector)", "operator*(Vector,Matrix)"};
	for(int m1 = 1; m1 <= bound; m1++)
		for(int n1 = 1; n1 <= bound; n1++)
			for(int m2 = 1; m2 <= bound; m2++)
				for(int n2 = 1; n2 <= std::min(bound, 3); n2++)
				{
					if(!mc::mine(unit++)) continue;
					if(mc::out_of_time("C04 conformability")) return;
					for(int op = 0; op < 5; op++)
					{
						if(op == 2 && m2 != n2) continue;			   // identity of size m2
						if(op >= 3 && n2 != 1) continue;				   // vector of size m2 (op 3: A*v, op 4: v*A with v of size m2 and A m1 x n1)
						bool valid = op == 4 ? (m2 == m1) : (n1 == m2);
						auto o = mc::isolate([&](std::function<void(const std::string&)> out) {
							Matrix A(make(m1, n1, 0, 0)), B(make(m2, n2, 1, 1));
							std::string r;
							if(op == 0) { Matrix R = A.Product(B); r = std::to_string(R.Rows()) + "x" + std::to_string(R.Columns()); }
							else if(op == 1) { Matrix R = A * B; r = std::to_string(R.Rows()) + "x" + std::to_string(R.Columns()); }
							else if(op == 2) { Matrix R = A.Product(Identity_Matrix(m2)); r = std::to_string(R.Rows()) + "x" + std::to_string(R.Columns()); }
							else if(op == 3) { Vector v(m2, 0.5); Vector R = A.Product(v); r = std::to_string(R.Size()); }
							else { Vector v(m2, 0.5); Vector R = v * A; r = std::to_string(R.Size()); }
							out(r);
						});
						mc::count("conformability_requests", 1);
						std::string cfg = shape(m1, n1) + " " + pops[op] + " " + shape(m2, n2);
						if(valid ? o.kind != mc::Outcome::RETURNED : !o.diagnostic())
							mc::violation("conformability", "conformability|" + shape(m1, n1) + "|" + pops[op] + "|" + shape(m2, n2) + "|" + (valid ? "valid_request_did_not_return" : "non_conformable_not_rejected"), std::string("outcome: ") + o.name() + " " + o.out.substr(0, 200), "asan: " + cfg);
						else if(valid && op <= 2 && o.payload != std::to_string(m1) + "x" + std::to_string(op == 2 ? m2 : n2))
							mc::violation("conformability", "conformability|" + shape(m1, n1) + "|" + pops[op] + "|" + shape(m2, n2) + "|product_shape_wrong", "shape of the product: " + o.payload, "asan: " + cfg);
					}
				}
	const char* vops[] = {"operator+", "operator-", "operator+=", "operator-=", "Dot", "Cross"};
	for(int d1 = 1; d1 <= bound + 1; d1++)
		for(int d2 = 1; d2 <= bound + 1; d2++)
		{
			if(!mc::mine(unit++)) continue;
			for(int op = 0; op < 6; op++)
			{
				bool valid = op == 5 ? (d1 == 3 && d2 == 3) : d1 == d2;
				auto o	   = mc::isolate([&](std::function<void(const std::string&)> out) {
					Vector a(d1, 1.5), b(d2, -0.5);
					double r = 0;
					if(op == 0) r = (a + b)[0];
					else if(op == 1) r = (a - b)[0];
					else if(op == 2) { a += b; r = a[0]; }
					else if(op == 3) { a -= b; r = a[0]; }
					else if(op == 4) r = a.Dot(b);
					else r = a.Cross(b)[0];
					out(mc::dec(r));
				});
				mc::count("conformability_requests", 1);
				if(valid ? o.kind != mc::Outcome::RETURNED : !o.diagnostic())
					mc::violation("conformability", "conformability|vector" + std::to_string(d1) + "|" + vops[op] + "|vector" + std::to_string(d2) + "|" + (valid ? "valid_request_did_not_return" : "non_conformable_not_rejected"), std::string("outcome: ") + o.name() + " " + o.out.substr(0, 200), "asan: vector ops");
			}
		}
}

// ---- object histories: every answer of a used object is that of a fresh object with the same visible contents ---------------------
static std::string observe(const Vector& v)
{
	std::string o = "size=" + std::to_string(v.Size()) + ";norm=" + mc::hexd(v.Norm()) + ";dot=" + mc::hexd(v.Dot(v)) + ";star=" + mc::hexd(v * v) + ";normalized=";
	if(v.Size() && v.Norm() > 0) { Vector u = v.Normalized(); for(unsigned i = 0; i < u.Size(); i++) o += mc::hexd(u[i]) + ","; }
	Vector d = v + v, h = v / 2.0;
	o += ";sum=";
	for(unsigned i = 0; i < d.Size(); i++) o += mc::hexd(d[i]) + "," + mc::hexd(h[i]) + ",";
	return o;
}
static std::string observe(const Matrix& M)
{
	std::string o = std::to_string(M.Rows()) + "x" + std::to_string(M.Columns()) + ";norm=" + mc::hexd(M.Norm()) + ";sym=" + std::to_string(M.Symmetric()) + std::to_string(M.Antisymmetric()) + std::to_string(M.Diagonal()) + std::to_string(M.Square());
	if(M.Square() && M.Rows() > 0) o += ";trace=" + mc::hexd(M.Trace()) + ";det=" + mc::hexd(M.Determinant()) + ";invertible=" + std::to_string(M.Invertible());
	for(unsigned i = 0; i < M.Rows(); i++) { Vector r = M.Return_Row(i); o += ";row" + std::to_string(i) + "[" + std::to_string(r.Size()) + "]="; for(unsigned k = 0; k < r.Size(); k++) o += mc::hexd(r[k]) + ","; }
	for(unsigned j = 0; j < M.Columns(); j++) { Vector c = M.Return_Column(j); o += ";col" + std::to_string(j) + "[" + std::to_string(c.Size()) + "]="; for(unsigned k = 0; k < c.Size(); k++) o += mc::hexd(c[k]) + ","; }
	Matrix T = M.Transpose();
	o += ";T=";
	for(unsigned i = 0; i < T.Rows(); i++)
		for(unsigned j = 0; j < T.Columns(); j++) o += mc::hexd(T[i][j]) + ",";
	return o;
}
static void object_histories(unsigned long long& unit)
{
	// Vector: letters = queries and in-place mutations
	const char* VL[] = {"Norm()", "Normalized()", "Dot(self)", "+= w", "-= w", "v[0] = 3", "v[last] = -0.5", "Normalize()", "Resize(n+1)", "Resize(n-1)", "Assign(n,2)", "= w", "v[0] *= 2 (through operator[])"};
	const int NV = 13;
	int depth = mc::thorough() ? 4 : 3;
	long long total = 1;
	for(int i = 0; i < depth; i++) total *= NV;
	for(int n = 1; n <= 3; n++)
		for(int pat = 0; pat < 3; pat++)
			for(long long code = 0; code < total; code++)
			{
				if(!mc::mine(unit + (code >> 5))) continue;
				std::vector<double> base(n), wv(n);
				for(int i = 0; i < n; i++) { base[i] = entry(pat + 1, i, 1, 3); wv[i] = entry(pat + 2, 2, i, 4) + (i == 0 ? 1 : 0); }
				if(base[0] == 0 && n == 1) base[0] = 1.5;
				Vector v(base), w(wv);
				std::string hist;
				long long c = code;
				bool dead = false;
				for(int step = 0; step < depth && !dead; step++)
				{
					int l = c % NV;
					c /= NV;
					hist += std::string(VL[l]) + ";";
					if(mc::library_exits([&]() {
						   switch(l)
						   {
							   case 0: { volatile double x = v.Norm(); (void)x; break; }
							   case 1: if(v.Size() && v.Norm() > 0) { Vector u = v.Normalized(); } break;
							   case 2: { volatile double x = v.Dot(v); (void)x; break; }
							   case 3: if(v.Size() == w.Size()) v += w; break;
							   case 4: if(v.Size() == w.Size()) v -= w; break;
							   case 5: if(v.Size()) v[0] = 3; break;
							   case 6: if(v.Size()) v[v.Size() - 1] = -0.5; break;
							   case 7: if(v.Size() && v.Norm() > 0) v.Normalize(); break;
							   case 8: v.Resize(v.Size() + 1); break;
							   case 9: if(v.Size() > 1) v.Resize(v.Size() - 1); break;
							   case 10: v.Assign(v.Size(), 2.0); break;
							   case 11: v = w; break;
							   default: if(v.Size()) v[0] *= 2; break;
						   }
					   }))
					{
						fail("object_histories", "Vector,n=" + std::to_string(n) + ",pat=" + std::to_string(pat) + ",history=" + hist, "valid_request_terminated_process");
						dead = true;
						break;
					}
					std::vector<double> contents(v.Size());
					for(unsigned i = 0; i < v.Size(); i++) contents[i] = ((const Vector&)v)[i];
					Vector fresh(contents);
					g_checks++;
					mc::count("object_history_transitions", 1);
					if(observe(v) != observe(fresh)) { fail("object_histories", "Vector,n=" + std::to_string(n) + ",pat=" + std::to_string(pat) + ",history=" + hist, "used_object_differs_from_fresh_object_with_same_contents"); break; }
				}
			}
	unit += 9 * ((total >> 5) + 1);
	// Matrix
	const char* ML[] = {"Norm()", "Determinant()", "Trace()", "Transpose()", "+= B", "-= B", "M[0][0] = 3", "M[last][0] = -0.5", "Resize(r+1,c)", "Delete_Row(0)", "Delete_Column(last)", "Assign(r,c,2)", "= B", "row 0 := row of B"};
	const int NM = 14;
	int mdepth = 3;
	long long mtotal = 1;
	for(int i = 0; i < mdepth; i++) mtotal *= NM;
	for(int n = 2; n <= 3; n++)
		for(int pat = 0; pat < 2; pat++)
			for(long long code = 0; code < mtotal; code++)
			{
				if(!mc::mine(unit + (code >> 5))) continue;
				Matrix M(make(n, n, pat + 1, 0)), B(make(n, n, pat + 3, 1));
				std::string hist;
				long long c = code;
				for(int step = 0; step < mdepth; step++)
				{
					int l = c % NM;
					c /= NM;
					hist += std::string(ML[l]) + ";";
					bool sq = M.Rows() == M.Columns() && M.Rows() > 0, same = M.Rows() == B.Rows() && M.Columns() == B.Columns();
					if(mc::library_exits([&]() {
						   switch(l)
						   {
							   case 0: { volatile double x = M.Norm(); (void)x; break; }
							   case 1: if(sq) { volatile double x = M.Determinant(); (void)x; } break;
							   case 2: if(sq) { volatile double x = M.Trace(); (void)x; } break;
							   case 3: { Matrix T = M.Transpose(); break; }
							   case 4: if(same) M += B; break;
							   case 5: if(same) M -= B; break;
							   case 6: if(M.Rows() && M.Columns()) M[0][0] = 3; break;
							   case 7: if(M.Rows() && M.Columns()) M[M.Rows() - 1][0] = -0.5; break;
							   case 8: M.Resize(M.Rows() + 1, M.Columns()); break;
							   case 9: if(M.Rows() > 1) M.Delete_Row(0); break;
							   case 10: if(M.Columns() > 1) M.Delete_Column(M.Columns() - 1); break;
							   case 11: M.Assign(M.Rows(), M.Columns(), 2.0); break;
							   case 12: M = B; break;
							   default: if(M.Rows() && M.Columns() == B.Columns()) for(unsigned j = 0; j < M.Columns(); j++) M[0][j] = B[0][j]; break;
						   }
					   }))
					{
						fail("object_histories", "Matrix,n=" + std::to_string(n) + ",pat=" + std::to_string(pat) + ",history=" + hist, "valid_request_terminated_process");
						break;
					}
					Rows contents(M.Rows(), std::vector<double>(M.Columns()));
					for(unsigned i = 0; i < M.Rows(); i++)
						for(unsigned j = 0; j < M.Columns(); j++) contents[i][j] = ((const Matrix&)M)[i][j];
					if(contents.empty()) break;
					Matrix fresh(contents);
					g_checks++;
					mc::count("object_history_transitions", 1);
					if(observe(M) != observe(fresh)) { fail("object_histories", "Matrix,n=" + std::to_string(n) + ",pat=" + std::to_string(pat) + ",history=" + hist, "used_object_differs_from_fresh_object_with_same_contents"); break; }
				}
			}
	unit += 4 * ((mtotal >> 5) + 1);
}

int main(int argc, char** argv)
{
	mc::init(argc, argv);
	if(mc::ctx().replay) { printf("%s\n(no single-case replay for this part; use ./vcheck --replay <file>, which re-runs the enumeration for this key)\n", mc::ctx().replay_case.c_str()); return 0; }
	int bound = mc::thorough() ? 8 : 5;
	mc::bound("rule", "every shape triple (m,n,k) up to the bound x every ordered pair of 9 deterministic fill patterns over half-integers / powers of two (two of them at the scales 2^-80 and 2^80) (all arithmetic exact, all oracles equalities); every ordered pair of shapes for +,-,+=,-= in child processes under ASan/UBSan; a case is one (shape triple, pattern pair); non-trivial = at least one dimension differs from the others (non-square operands)");
	mc::bound("shape_bound", std::to_string(bound));
	mc::alphabet("fill_patterns", NPAT);
	unsigned long long unit = 0;
	if(mc::asan_mode())
	{
		conformability(bound, unit);
		// reduced pass of the algebra under the sanitizers
		for(int m = 1; m <= 3; m++)
			for(int n = 1; n <= 3; n++)
				for(int k = 1; k <= 3; k++)
					if(mc::mine(unit++)) triple(m, n, k, (m + n) % NPAT, (n + k + 1) % NPAT);
		mc::count("evaluations", mc::ctx().counters["conformability_requests"]);
		mc::count("distinct_nontrivial", mc::ctx().counters["conformability_requests"]);
	}
	else
	{
		long long cases = 0, nontrivial = 0;
		for(int m = 1; m <= bound; m++)
			for(int n = 1; n <= bound; n++)
				for(int k = 1; k <= bound; k++)
				{
					if(!mc::mine(unit++)) continue;
					for(int pa = 0; pa < NPAT; pa++)
						for(int pb = 0; pb < NPAT; pb++)
						{
							triple(m, n, k, pa, pb);
							cases++;
							if(!(m == n && n == k)) nontrivial++;
						}
					if(m == 2 && n == 3 && k == 4) mc::sample("shape triple (2,3,4), patterns (0,1): A=" + mc::decv(make(2, 3, 0, 0)[0]) + ";" + mc::decv(make(2, 3, 0, 0)[1]) + " -> all operator spellings compared with exact references");
				}
		for(int n = 1; n <= bound; n++)
			for(int pat = 0; pat < NPAT; pat++)
				if(mc::mine(unit++)) { predicates(n, pat); cases++; }
		for(int m = 1; m <= bound; m++)
			for(int n = 1; n <= bound; n++)
				for(int pat = 0; pat < NPAT; pat++)
					if(mc::mine(unit++))
					{
						if(mc::library_exits([&]() { members(m, n, pat); })) fail("members", "m=" + std::to_string(m) + ",n=" + std::to_string(n) + ",pat=" + std::to_string(pat), "valid_request_terminated_process");
						cases++;
					}
		if(mc::shard0()) { blocks(); cases += mc::ctx().counters["block_arrangements"]; }
		object_histories(unit);
		cases += mc::ctx().counters["object_history_transitions"];
		// Cross against the definition on every pair of 3-vectors over a small alphabet
		if(mc::shard0())
		{
			const double al[] = {0, 1, -2, 0.5};
			std::string cfg = "cross";
			for(int x = 0; x < 4096; x++)
			{
				double a[3] = {al[x & 3], al[(x >> 2) & 3], al[(x >> 4) & 3]}, b[3] = {al[(x >> 6) & 3], al[(x >> 8) & 3], al[(x >> 10) & 3]};
				Vector A(std::vector<double>(a, a + 3)), B(std::vector<double>(b, b + 3));
				Vector c = A.Cross(B);
				CHECK(c[0] == a[1] * b[2] - a[2] * b[1] && c[1] == a[2] * b[0] - a[0] * b[2] && c[2] == a[0] * b[1] - a[1] * b[0], "Cross", "definition");
				CHECK(c.Dot(A) == 0 && c.Dot(B) == 0, "Cross", "orthogonal_to_operands");
				cases++;
			}
			// nearly parallel and nearly antiparallel pairs that are not proportional: b = s*a + delta*e_k (all products and
			// differences below are exact in double), against the definition and against the product [a]_x * b of matrices
			std::string cfg2 = "cross_nearly_parallel";
			for(int x = 1; x < 64; x++)
				for(double sc : {1.0, -2.0, 0.5, -1.0})
					for(int k = 0; k < 3; k++)
						for(double delta : {std::ldexp(1.0, -30), -std::ldexp(1.0, -40), std::ldexp(1.0, -26), std::ldexp(3.0, -45)})
						{
							std::string cfg = cfg2;
							double a[3] = {al[x & 3], al[(x >> 2) & 3], al[(x >> 4) & 3]}, b[3] = {sc * a[0], sc * a[1], sc * a[2]};
							b[k] += delta;
							Vector A(std::vector<double>(a, a + 3)), B(std::vector<double>(b, b + 3));
							Vector c = A.Cross(B);
							double w[3] = {a[1] * b[2] - a[2] * b[1], a[2] * b[0] - a[0] * b[2], a[0] * b[1] - a[1] * b[0]};
							CHECK(c.Size() == 3 && c[0] == w[0] && c[1] == w[1] && c[2] == w[2], "Cross", "definition_for_nearly_parallel_operands");
							Matrix S(Rows{{0, -a[2], a[1]}, {a[2], 0, -a[0]}, {-a[1], a[0], 0}});
							Vector sb = S * B;
							CHECK(sb[0] == c[0] && sb[1] == c[1] && sb[2] == c[2], "Cross", "equals_skew_matrix_times_column");
							Vector cr = B.Cross(A);
							CHECK(cr[0] == -c[0] && cr[1] == -c[1] && cr[2] == -c[2], "Cross", "antisymmetric");
							cases++;
						}
		}
		mc::count("evaluations", cases);
		mc::count("distinct_nontrivial", nontrivial);
		mc::count("equalities_checked", g_checks);
	}
	return mc::finish();
}
