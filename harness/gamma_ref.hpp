// Reference models for the gamma family (long double), used by the C06 and C07 harnesses.
// Regularised incomplete gamma: P by the everywhere-convergent positive series, Q by the modified Lentz continued
// fraction; the two must agree where both are applicable (otherwise the point is counted as 'reference unresolved').
#pragma once
#include <cmath>
#include <vector>

namespace ref
{
typedef long double ld;

// P(a,x) = x^a e^-x sum_{n>=0} x^n / Gamma(a+n+1): all terms positive, no cancellation
inline ld gammaP_series(ld a, ld x, bool* converged = nullptr)
{
	if(converged) *converged = true;
	if(x <= 0) return 0;
	ld lead = a * logl(x) - x - lgammal(a + 1);
	ld term = 1, sum = 1;
	for(int n = 1; n < 2000000; n++)
	{
		term *= x / (a + n);
		sum += term;
		if(term < sum * 1e-23L && (a + n) > x) return std::min((ld)1, expl(lead + logl(sum)));
	}
	if(converged) *converged = false;
	return std::min((ld)1, expl(lead + logl(sum)));
}
// Q(a,x) by modified Lentz (Numerical Recipes form), good for x > a+1
inline ld gammaQ_cf(ld a, ld x, bool* converged = nullptr)
{
	const ld tiny = 1e-4000L;
	ld b = x + 1 - a, c = 1 / tiny, d = 1 / b, h = d;
	if(converged) *converged = false;
	for(int i = 1; i < 1000000; i++)
	{
		ld an = -i * (i - a);
		b += 2;
		d = an * d + b;
		if(fabsl(d) < tiny) d = tiny;
		c = b + an / c;
		if(fabsl(c) < tiny) c = tiny;
		d	   = 1 / d;
		ld del = d * c;
		h *= del;
		if(fabsl(del - 1) < 1e-20L)
		{
			if(converged) *converged = true;
			break;
		}
	}
	return expl(-x + a * logl(x) - lgammal(a)) * h;
}
struct PQ
{
	ld P, Q;
	bool resolved;
};
inline PQ gammaPQ(ld a, ld x)
{
	PQ r;
	if(x <= 0) return {0, 1, true};
	bool c1, c2 = true;
	r.P = gammaP_series(a, x, &c1);
	r.Q = 1 - r.P;
	r.resolved = c1;
	if(x >= a + 1)
	{
		ld q2 = gammaQ_cf(a, x, &c2);
		if(c2)
		{
			// the two methods must agree well inside the accuracy asked of the library (1e-12 for a<=100, 1e-3 above);
			// their own error grows like a*2^-64 through the exponent a*ln(x)-x-lgamma(a)
			if(fabsl(q2 - r.Q) > (a <= 101 ? 1e-14L : 1e-10L)) r.resolved = false;
			r.Q = q2;	// relative accuracy in the tail
		}
	}
	return r;
}
}	// namespace ref
