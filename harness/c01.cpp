// C01 — Interpolants reproduce the data and never overshoot it.
// Bounded-exhaustive enumeration of tables (mode M3 + small-scope argument), DESIGN.md §3 C01.
#include "mc/mc.hpp"
#include "harness/steffen_ref.hpp"
#include "libphysica/Numerics.hpp"
using namespace libphysica;
using mc::U_;
typedef long double ld;

static const double K = 32;
static const std::vector<double> H_FULL = {1, 3, 1e-3, 1e3, 1e-9, 1e9};
static const std::vector<double> Y_FULL = {0, 1, -1, 2, -2, 5, 1 + 1e-9, 1e-20, -1e-20, 1e20, -1e20};
static const std::vector<double> H_RED	= {1, 1e-3, 1e3};
static const std::vector<double> Y_RED	= {0, 1, -1, 2, 1e20};
static const std::vector<double> Y_RED4 = {0, 1, -1, 1e20};

static std::string tdesc(const std::vector<double>& x, const std::vector<double>& y) { return "x=" + mc::hexv(x) + " y=" + mc::hexv(y); }
static std::string tkey(const std::vector<double>& x, const std::vector<double>& y) { return "x=" + mc::decv(x) + ";y=" + mc::decv(y); }

static void full_digest(mc::Digest& D, const Interpolation& I)
{
	D.pod(I.N); D.vec(I.x_values); D.vec(I.function_values); D.pod(I.prefactor);
	D.vec(I.a); D.vec(I.b); D.vec(I.c); D.vec(I.d); D.pod(I.jLast);
	unsigned char cc = I.correlated_calls; D.pod(cc); D.vec(I.domain);
}

struct Checker
{
	const char* part;
	long long queries = 0;
	void fail(const std::vector<double>& x, const std::vector<double>& y, const std::string& cls, double q, const std::string& detail)
	{
		mc::violation(part, std::string(part) + "|" + tkey(x, y) + "|q=" + mc::dec(q) + "|" + cls, detail, tdesc(x, y) + " q=" + mc::hexd(q) + " class=" + cls);
	}

	// all oracles for one table; returns whether the table is non-trivial (limiter active or non-uniform)
	bool check_table(const std::vector<double>& x, const std::vector<double>& y, bool light = false)
	{
		const int N = x.size();
		Interpolation I(x, y);
		ref::Steffen R(x, y);
		auto pristine = [&]() { I.jLast = 0; I.correlated_calls = false; };
		auto val = [&](double q) { pristine(); queries++; return I.Interpolate(q); };
		auto der = [&](double q, unsigned o) { pristine(); queries++; return I.Derivative(q, o); };
		auto tolv = [&](int j) { return (double)(K * U_ * R.scale_value(j)) + K * mc::ETA; };
		auto told1 = [&](int j) { return (double)(K * U_ * 8 * R.scale_d1(j)) + K * mc::ETA; };
		// O1 knot reproduction
		for(int i = 0; i < N; i++)
		{
			double v = val(x[i]);
			if(i < N - 1 ? !mc::same_bits(v, y[i]) && !(v == 0 && y[i] == 0) : !(std::fabs(v - y[i]) <= tolv(N - 2)))
				fail(x, y, "knot_not_reproduced", x[i], "I(x_" + std::to_string(i) + ")=" + mc::dec(v) + " tabulated " + mc::dec(y[i]));
		}
		for(int j = 0; j < N - 1; j++)
		{
			double h  = x[j + 1] - x[j];
			double lo = std::min(y[j], y[j + 1]), hi = std::max(y[j], y[j + 1]);
			double tv = tolv(j), td = told1(j);
			// sample points of the closed segment
			double pts[24];
			int np	  = 0;
			pts[np++] = x[j];
			double q  = std::nextafter(x[j], INFINITY);
			if(q < x[j + 1]) pts[np++] = q;
			int div = light ? 4 : 16;
			for(int k = 1; k < div; k++)
			{
				q = x[j] + h * ((double)k / div);
				if(q > pts[np - 1] && q < x[j + 1]) pts[np++] = q;
			}
			q = std::nextafter(x[j + 1], -INFINITY);
			if(q > pts[np - 1]) pts[np++] = q;
			pts[np++] = x[j + 1];
			double prev = 0, pv[24];
			int dir		= (y[j + 1] > y[j]) - (y[j + 1] < y[j]);
			for(int k = 0; k < np; k++)
			{
				double v = val(pts[k]);
				pv[k]	 = v;
				int seg	 = (k == np - 1 && j < N - 2) ? j + 1 : j;	 // the right knot belongs to the next segment
				// O2 no overshoot
				if(!(v >= lo - tv && v <= hi + tv)) fail(x, y, "overshoot", pts[k], "I=" + mc::dec(v) + " outside [" + mc::dec(lo) + "," + mc::dec(hi) + "] tol " + mc::dec(tv));
				// O6 agreement with the reference model
				double rv = (double)R.value(seg, pts[k]);
				double tt = std::max(tv, seg != j ? tolv(seg) : 0.0);
				if(!(std::fabs(v - rv) <= tt)) fail(x, y, "value_vs_reference", pts[k], "I=" + mc::dec(v) + " reference " + mc::dec(rv) + " tol " + mc::dec(tt));
				mc::maxi("value_err_over_tol", std::fabs(v - rv) / tt);
				// O3 discrete monotonicity
				if(k > 0 && !((v - prev) * dir >= -2 * tv)) fail(x, y, "not_monotone_samples", pts[k], "I goes " + mc::dec(prev) + " -> " + mc::dec(v) + " against the data direction");
				prev = v;
				// O5/O6 derivatives
				double d1 = der(pts[k], 1), d2 = der(pts[k], 2), d3 = der(pts[k], 3);
				double tdd = std::max(td, seg != j ? told1(seg) : 0.0);
				double r1  = (double)R.d1(seg, pts[k]);
				if(!(std::fabs(d1 - r1) <= tdd)) fail(x, y, "d1_vs_reference", pts[k], "D1=" + mc::dec(d1) + " reference " + mc::dec(r1) + " tol " + mc::dec(tdd));
				double hs = (double)R.h[seg];
				double r2 = (double)R.d2(seg, pts[k]), r3 = (double)R.d3(seg);
				// the curve is only C1: at an interior knot the second and third derivative have two one-sided values, and either is
				// "the derivative of the returned curve" there
				int other = -1;
				if(k == 0 && j > 0) other = j - 1;
				if(k == np - 1 && j < N - 2) other = j;	  // (seg is j+1 here)
				bool d2ok = std::fabs(d2 - r2) <= 4 * tdd / hs, d3ok = std::fabs(d3 - r3) <= 8 * tdd / hs / hs;
				bool right_sided = true;
				if(other >= 0)
				{
					double ho = (double)R.h[other], to = std::max(told1(other), tdd);
					bool d2o = std::fabs(d2 - (double)R.d2(other, pts[k])) <= 4 * to / ho, d3o = std::fabs(d3 - (double)R.d3(other)) <= 8 * to / ho / ho;
					if(!(d2ok && d3ok) && d2o && d3o) { d2ok = d3ok = true; right_sided = (other == j); }
				}
				if(!d2ok) fail(x, y, "d2_vs_reference", pts[k], "D2=" + mc::dec(d2) + " reference " + mc::dec(r2));
				if(!d3ok) fail(x, y, "d3_vs_reference", pts[k], "D3=" + mc::dec(d3) + " reference " + mc::dec(r3));
				if(!light)
				{
					double d0 = der(pts[k], 0);
					if(!mc::same_bits(d0, v)) fail(x, y, "d0_not_value", pts[k], "Derivative(x,0) differs from Interpolate(x)");
					if(der(pts[k], 4) != 0.0 || der(pts[k], 7) != 0.0) fail(x, y, "d4_nonzero", pts[k], "Derivative of order >=4 is not 0");
					// O5: Taylor identity to the next sample point of the same segment (exact for a cubic)
					// (from a knot only if the reported higher derivatives are those of this segment)
					if((k + 1 < np - 1 || (k + 1 == np - 1 && j == N - 2)) && (k > 0 || j == 0 || right_sided))
					{
						double dl = pts[k + 1] - pts[k];
						double tay = v + d1 * dl + d2 * dl * dl / 2 + d3 * dl * dl * dl / 6;
						double nx  = val(pts[k + 1]);
						if(!(std::fabs(tay - nx) <= 4 * tv)) fail(x, y, "taylor_identity", pts[k], "value+derivatives predict " + mc::dec(tay) + " at the next sample, Interpolate gives " + mc::dec(nx));
					}
				}
			}
			// O3 analytic: recover the cubic through the public derivatives at the midpoint, its derivative must not change sign on (0,h)
			{
				double m = x[j] + h / 2;
				double A = der(m, 3) / 6, t = m - x[j];
				double B = (der(m, 2) - 6 * A * t) / 2;
				double C = der(m, 1) - 3 * A * t * t - 2 * B * t;
				auto qd	 = [&](double u) { return (3 * A * u + 2 * B) * u + C; };
				double worst = std::min(qd(0) * dir, qd(h) * dir);
				if(A != 0)
				{
					double ts = -B / (3 * A);
					if(ts > 0 && ts < h) worst = std::min(worst, qd(ts) * dir);
				}
				if(dir == 0) worst = -std::max({std::fabs(qd(0)), std::fabs(qd(h)), std::fabs(qd(h / 2))});
				if(!(worst >= -4 * td)) fail(x, y, "derivative_changes_sign", m, "slope of the segment cubic reaches " + mc::dec(worst) + " against the data direction (tol " + mc::dec(4 * td) + ")");
			}
			// O4 continuity of value and first derivative across the interior knot j+1
			if(j < N - 2)
			{
				double xl = std::nextafter(x[j + 1], -INFINITY), xr = std::nextafter(x[j + 1], INFINITY);
				double vl = val(xl), vk = val(x[j + 1]), vr = val(xr);
				double slope = std::max(std::fabs((double)R.s[j]), std::fabs((double)R.s[j + 1])) * 2;
				double tc	 = tolv(j) + tolv(j + 1) + slope * (xr - xl);
				if(!(std::fabs(vl - vk) <= tc && std::fabs(vr - vk) <= tc)) fail(x, y, "value_discontinuous", x[j + 1], "left " + mc::dec(vl) + " knot " + mc::dec(vk) + " right " + mc::dec(vr));
				double dl = der(xl, 1), dk = der(x[j + 1], 1), dr = der(xr, 1);
				double curv = (std::fabs((double)R.s[j]) / (double)R.h[j] + std::fabs((double)R.s[j + 1]) / (double)R.h[j + 1]) * 8;
				double tdc	= told1(j) + told1(j + 1) + curv * (xr - xl);
				if(!(std::fabs(dl - dk) <= tdc && std::fabs(dr - dk) <= tdc)) fail(x, y, "d1_discontinuous", x[j + 1], "left " + mc::dec(dl) + " knot " + mc::dec(dk) + " right " + mc::dec(dr) + " tol " + mc::dec(tdc));
			}
		}
		// extrapolation zone (1 % of the edge interval): agreement with the continued edge cubic
		for(int side = 0; side < 2; side++)
			for(double f : {0.1, 0.5, 0.99})
			{
				double q = side == 0 ? x[0] - f * 0.01 * (x[1] - x[0]) : x[N - 1] + f * 0.01 * (x[N - 1] - x[N - 2]);
				if(side == 0 ? !(q < x[0]) : !(q > x[N - 1])) continue;
				// only requests the documented 1 % tolerance admits (after rounding of q itself)
				if(side == 0 ? !(std::fabs(q - x[0]) < 1e-2 * (x[1] - x[0])) : !(std::fabs(q - x[N - 1]) < 1e-2 * (x[N - 1] - x[N - 2]))) continue;
				int seg	 = side == 0 ? 0 : N - 2;
				double v = val(q), rv = (double)R.value(seg, q);
				if(!(std::fabs(v - rv) <= 2 * tolv(seg))) fail(x, y, "extrapolation_vs_reference", q, "I=" + mc::dec(v) + " reference " + mc::dec(rv));
				double d1 = der(q, 1), r1 = (double)R.d1(seg, q);
				if(!(std::fabs(d1 - r1) <= 2 * told1(seg))) fail(x, y, "extrapolation_d1_vs_reference", q, "D1=" + mc::dec(d1) + " reference " + mc::dec(r1));
			}
		// the reported derivatives are those of the *returned* curve also when the curve carries a prefactor:
		// a power of two scales every binary64 operation exactly, so the tolerance only has to cover re-association
		{
			std::vector<double> base;
			for(int j = 0; j < N - 1; j++)
			{
				double m = x[j] + (x[j + 1] - x[j]) * 0.375;
				base.push_back(val(m));
				for(unsigned o = 1; o <= 3; o++) base.push_back(der(m, o));
			}
			I.Set_Prefactor(-4.0);
			size_t b = 0;
			for(int j = 0; j < N - 1; j++)
			{
				double m  = x[j] + (x[j + 1] - x[j]) * 0.375;
				double hs = (double)R.h[j];
				double tl[4] = {tolv(j), told1(j), 4 * told1(j) / hs, 8 * told1(j) / hs / hs};
				for(unsigned o = 0; o <= 3; o++)
				{
					double got = o == 0 ? val(m) : der(m, o), want = -4.0 * base[b++];
					if(!(std::fabs(got - want) <= 8 * tl[o])) fail(x, y, "prefactor_not_applied_to_derivative" + std::to_string(o), m, "with prefactor -4: " + mc::dec(got) + ", -4 x (prefactor 1) = " + mc::dec(want));
				}
			}
			I.Set_Prefactor(1.0);
		}
		return R.limiter_active || R.nonuniform;
	}
};

static bool build_x(double origin, const std::vector<double>& hs, std::vector<double>& x)
{
	x.assign(1, origin);
	for(double h : hs)
	{
		double nx = x.back() + h;
		if(!(nx > x.back())) return false;
		x.push_back(nx);
	}
	return true;
}

// complete product of tables with N knots over H x Y
static void enumerate_tables(Checker& C, int N, const std::vector<double>& H, const std::vector<double>& Y, const std::vector<double>& origins, unsigned long long& unit, const char* label)
{
	std::vector<int> radix;
	for(int i = 0; i < N - 1; i++) radix.push_back(H.size());
	mc::Product PH(radix);
	std::vector<int> ry(N, (int)Y.size());
	long long tables = 0, nontrivial = 0, skipped = 0;
	for(double org : origins)
	{
		mc::Product ph(radix);
		do
		{
			std::vector<double> hs, x;
			for(int i : ph.idx) hs.push_back(H[i]);
			if(!build_x(org, hs, x))
			{
				if(mc::mine(unit++)) skipped += 1;
				continue;
			}
			if(!mc::mine(unit++)) continue;
			if(mc::out_of_time(label)) return;
			mc::Product py(ry);
			std::vector<double> y(N);
			do
			{
				for(int i = 0; i < N; i++) y[i] = Y[py.idx[i]];
				tables++;
				if(C.check_table(x, y)) nontrivial++;
				if(tables == 777) mc::sample(std::string("1D table ") + tdesc(x, y) + " -> 16 interior + knot + nextafter + extrapolation queries per segment, oracles O1-O6");
			} while(py.next());
		} while(ph.next());
	}
	mc::count(std::string("tables_") + label, tables);
	mc::count(std::string("spacing_patterns_not_strictly_increasing_in_binary64_") + label, skipped);
	mc::count("evaluations", tables);
	mc::count("distinct_nontrivial", nontrivial);
}

// long tables: position independence. Letters laid out by a fixed quadratic-residue pattern so that every
// (h,h,h) x (dy,dy,dy) window of the reduced alphabet occurs at many positions.
static void long_tables(Checker& C, unsigned long long& unit)
{
	for(int N : {17, 64, 257})
		for(int variant = 0; variant < 24; variant++)
		{
			if(!mc::mine(unit++)) continue;
			std::vector<double> x{variant % 2 ? -2.5 : 0.0}, y;
			const std::vector<double>& H = (variant % 3 == 0) ? H_RED : H_FULL;
			for(int i = 0; i < N - 1; i++)
			{
				double h = H[(i * i * (variant + 1) + 3 * i + variant) % H.size()];
				if(H.size() == 6 && (h == 1e-9 || h == 1e9)) h = (x.back() == 0.0 || std::fabs(x.back()) < 1e3) ? (h == 1e9 ? 1e3 : 1e-3) : 3;
				double nx = x.back() + h;
				if(!(nx > x.back())) nx = std::nextafter(x.back(), INFINITY) + h;
				x.push_back(nx);
			}
			for(int i = 0; i < N; i++) y.push_back(Y_FULL[(i * i * 5 + i * (variant + 2) + variant / 3) % Y_FULL.size()]);
			bool nt = C.check_table(x, y);
			mc::count("tables_long", 1);
			mc::count("evaluations", 1);
			if(nt) mc::count("distinct_nontrivial", 1);
		}
}

// O7: straight lines on every spacing pattern, parabolas where the reference says the limiter is inactive
static void lines_and_parabolas(Checker& C, unsigned long long& unit)
{
	const std::vector<double> slopes = {0, 1, -3, 1e-6, 1e6, -0.75}, icpts = {0, 2, -1e3, 1e-9};
	const std::vector<double> alphas = {1, -2, 0.5, 1e-3};
	for(int N : {3, 4, 5, 6})
	{
		std::vector<int> radix(N - 1, (int)H_RED.size());
		if(N <= 4) radix.assign(N - 1, (int)H_FULL.size());
		const std::vector<double>& H = N <= 4 ? H_FULL : H_RED;
		for(double org : {0.0, -2.5, 100.0})
		{
			mc::Product ph(radix);
			do
			{
				std::vector<double> hs, x;
				for(int i : ph.idx) hs.push_back(H[i]);
				if(!build_x(org, hs, x)) continue;
				if(!mc::mine(unit++)) continue;
				for(double m : slopes)
					for(double c0 : icpts)
					{
						std::vector<double> y;
						bool exact = true;
						for(double xx : x)
						{
							__float128 yy = (__float128)m * xx + c0;   // product of two doubles is exact in binary128
							y.push_back((double)yy);
							if((__float128)y.back() != yy) exact = false;
						}
						// rounding of the tabulated ordinates (u*|y|) is a perturbation of the data; the slope construction amplifies it by the ratio of neighbouring intervals
						ld ratio = 1;
						for(int i = 0; i + 1 < N - 1; i++) ratio = std::max(ratio, std::max((ld)hs[i] / hs[i + 1], (ld)hs[i + 1] / hs[i]));
						double amp = exact ? 1.0 : 1.0 + (double)ratio;
						if(amp > 1e6) { mc::count("line_tables_skipped_illconditioned", 1); continue; }
						mc::count(exact ? "line_tables_exact_data" : "line_tables_rounded_data", 1);
						Interpolation I(x, y);
						for(int j = 0; j < N - 1; j++)
							for(int k = 0; k <= 8; k++)
							{
								double q = x[j] + (x[j + 1] - x[j]) * k / 8.0;
								I.jLast = 0; I.correlated_calls = false;
								double v = I.Interpolate(q), want = (double)((__float128)m * q + c0);
								double cond = std::fabs(m) * std::max(std::fabs(x[j]), std::fabs(x[j + 1])) + std::fabs(c0);
								C.queries++;
								if(!(std::fabs(v - want) <= K * U_ * 4 * cond * amp + mc::ETA)) C.fail(x, y, "line_not_reproduced", q, "I=" + mc::dec(v) + " line " + mc::dec(want));
								I.jLast = 0; I.correlated_calls = false;
								double d1 = I.Derivative(q, 1);
								// slopes of the rounded data agree with m up to the rounding of y relative to h
								double hmin = *std::min_element(hs.begin(), hs.end());
								double ts = exact ? K * U_ * 8 * std::fabs(m) + mc::ETA : K * U_ * 16 * cond / hmin + K * U_ * std::fabs(m);
								if(!(std::fabs(d1 - m) <= ts)) C.fail(x, y, "line_slope_not_reproduced", q, "D1=" + mc::dec(d1) + " slope " + mc::dec(m));
							}
						mc::count("line_tables", 1);
						mc::count("evaluations", 1);
					}
				for(double al : alphas)
					for(double be : {0.0, 3.0, -1.0})
					{
						std::vector<double> y;
						for(double xx : x) y.push_back((double)((ld)al * xx * xx + (ld)be * xx + 1));
						ref::Steffen R(x, y);
						mc::count("parabola_tables", 1);
						mc::count("evaluations", 1);
						if(R.limiter_active) continue;
						mc::count("parabola_tables_limiter_inactive", 1);
						mc::count("distinct_nontrivial", 1);
						Interpolation I(x, y);
						ld xm = std::max(fabsl(x.front()), fabsl(x.back()));
						double cond = (double)(fabsl(al) * xm * xm + fabsl(be) * xm + 1);
						for(int j = 0; j < N - 1; j++)
							for(int k = 0; k <= 8; k++)
							{
								double q = x[j] + (x[j + 1] - x[j]) * k / 8.0;
								I.jLast = 0; I.correlated_calls = false;
								double v = I.Interpolate(q), want = (double)((ld)al * q * q + (ld)be * q + 1);
								C.queries++;
								// rounding of the tabulated y (u*cond) is amplified by the slope construction by at most the spacing ratio of neighbouring intervals
								ld ratio = 1;
								for(int i = 0; i + 1 < N - 1; i++) ratio = std::max(ratio, std::max(R.h[i] / R.h[i + 1], R.h[i + 1] / R.h[i]));
								double tl = K * U_ * 8 * cond * (double)std::min(ratio, (ld)1e6) + mc::ETA;
								if(ratio > 1e6) continue;
								if(!(std::fabs(v - want) <= tl)) C.fail(x, y, "parabola_not_reproduced", q, "I=" + mc::dec(v) + " parabola " + mc::dec(want) + " tol " + mc::dec(tl));
							}
					}
			} while(ph.next());
		}
	}
}

// O8: unit factors and the table constructor
static void constructors(Checker& C, unsigned long long& unit)
{
	const std::vector<double> dims = {-1.0, 1e-3, 7, 1e6};
	for(int N : {3, 4, 5})
	{
		std::vector<int> radix(N - 1, (int)H_RED.size());
		mc::Product ph(radix);
		do
		{
			std::vector<double> hs, x;
			for(int i : ph.idx) hs.push_back(H_RED[i]);
			if(!build_x(-2.5, hs, x)) continue;
			if(!mc::mine(unit++)) continue;
			std::vector<int> ry(N, (int)Y_RED.size());
			mc::Product py(ry);
			do
			{
				std::vector<double> y(N);
				for(int i = 0; i < N; i++) y[i] = Y_RED[py.idx[i]];
				for(double xd : dims)
					for(double fd : dims)
					{
						std::vector<double> xs = x, ys = y;
						if(xd > 0) for(auto& v : xs) v *= xd;
						if(fd > 0) for(auto& v : ys) v *= fd;
						bool inc = true;
						for(int i = 1; i < N; i++) if(!(xs[i] > xs[i - 1])) inc = false;
						if(!inc) continue;
						Interpolation A(x, y, xd, fd), B(xs, ys);
						std::vector<std::vector<double>> tab;
						for(int i = 0; i < N; i++) tab.push_back({x[i], y[i]});
						Interpolation T(tab, xd, fd);
						mc::Digest DA, DB, DT;
						full_digest(DA, A); full_digest(DB, B); full_digest(DT, T);
						mc::count("constructor_cases", 1);
						mc::count("evaluations", 1);
						if(DA.key() != DB.key()) C.fail(x, y, "unit_factor_object_differs|xd=" + mc::dec(xd) + ",fd=" + mc::dec(fd), 0, "object built with unit factors differs from the object built from pre-multiplied lists");
						if(DA.key() != DT.key()) C.fail(x, y, "table_constructor_differs|xd=" + mc::dec(xd) + ",fd=" + mc::dec(fd), 0, "two-column-table constructor differs from the list constructor");
					}
			} while(py.next());
		} while(ph.next());
	}
}

// ------------------------------------------------------------------------------------------------------------
// 2D bilinear interpolant
static void check_2d(unsigned long long& unit)
{
	const char* part = "interp2d";
	struct Shape { int nx, ny; };
	std::vector<Shape> shapes = {{3, 3}, {3, 4}, {4, 3}};
	if(mc::thorough()) shapes.push_back({4, 4});
	const std::vector<std::vector<double>> SP = {{1, 1, 1}, {1, 1e-3, 1e3}, {1e3, 3, 1e-3}};
	const std::vector<double>& Y = mc::thorough() ? Y_FULL : std::vector<double>{0, 1, -1, 2, 5, 1e-20, 1e20, -1e20};
	if(mc::shard0()) mc::alphabet("corner_values_2d", Y.size());
	long long cases = 0, q2 = 0;
	for(auto sh : shapes)
		for(size_t sx = 0; sx < SP.size(); sx++)
			for(size_t sy = 0; sy < SP.size(); sy++)
				for(int ci = 0; ci < sh.nx - 1; ci++)
					for(int cj = 0; cj < sh.ny - 1; cj++)
					{
						if(!mc::mine(unit++)) continue;
						if(mc::out_of_time("C01 2D")) return;
						std::vector<double> x{-2.5}, y{10.0};
						for(int i = 0; i < sh.nx - 1; i++) x.push_back(x.back() + SP[sx][i]);
						for(int j = 0; j < sh.ny - 1; j++) y.push_back(y.back() + SP[sy][j]);
						mc::Product pc({(int)Y.size(), (int)Y.size(), (int)Y.size(), (int)Y.size()});
						do
						{
							std::vector<std::vector<double>> f(sh.nx, std::vector<double>(sh.ny));
							for(int i = 0; i < sh.nx; i++)
								for(int j = 0; j < sh.ny; j++) f[i][j] = ((i * 3 + j * 5) % 7) - 3;
							f[ci][cj] = Y[pc.idx[0]]; f[ci + 1][cj] = Y[pc.idx[1]]; f[ci + 1][cj + 1] = Y[pc.idx[2]]; f[ci][cj + 1] = Y[pc.idx[3]];
							Interpolation_2D I(x, y, f);
							cases++;
							auto fail = [&](const std::string& cls, double qx, double qy, const std::string& detail) {
								std::string fs;
								for(auto& r : f) fs += mc::decv(r) + "/";
								mc::violation(part, std::string(part) + "|x=" + mc::decv(x) + ";y=" + mc::decv(y) + ";f=" + fs + "|q=" + mc::dec(qx) + "," + mc::dec(qy) + "|" + cls, detail, "x=" + mc::hexv(x) + " y=" + mc::hexv(y) + " f=" + fs + " q=" + mc::hexd(qx) + "," + mc::hexd(qy));
							};
							auto at = [&](double qx, double qy) {
								I.x_int.jLast = 0; I.x_int.correlated_calls = false; I.y_int.jLast = 0; I.y_int.correlated_calls = false;
								q2++;
								return I.Interpolate(qx, qy);
							};
							// node values exact on the whole grid
							for(int i = 0; i < sh.nx; i++)
								for(int j = 0; j < sh.ny; j++)
								{
									double v = at(x[i], y[j]);
									if(!(v == f[i][j])) fail("node_not_reproduced", x[i], y[j], "I=" + mc::dec(v) + " grid value " + mc::dec(f[i][j]));
								}
							double c4[4] = {f[ci][cj], f[ci + 1][cj], f[ci + 1][cj + 1], f[ci][cj + 1]};
							double lo = *std::min_element(c4, c4 + 4), hi = *std::max_element(c4, c4 + 4);
							double sum = std::fabs(c4[0]) + std::fabs(c4[1]) + std::fabs(c4[2]) + std::fabs(c4[3]);
							double tl  = K * U_ * sum + mc::ETA;
							double hx = x[ci + 1] - x[ci], hy = y[cj + 1] - y[cj];
							for(int a = 0; a <= 4; a++)
								for(int b = 0; b <= 4; b++)
								{
									double qx = x[ci] + hx * a / 4, qy = y[cj] + hy * b / 4;
									if(a == 4) qx = x[ci + 1];
									if(b == 4) qy = y[cj + 1];
									double v = at(qx, qy);
									if(!(v >= lo - tl && v <= hi + tl)) fail("outside_cell_range", qx, qy, "I=" + mc::dec(v) + " outside [" + mc::dec(lo) + "," + mc::dec(hi) + "]");
									ld t = ((ld)qx - x[ci]) / ((ld)x[ci + 1] - x[ci]), u = ((ld)qy - y[cj]) / ((ld)y[cj + 1] - y[cj]);
									double rv = (double)((1 - t) * (1 - u) * c4[0] + t * (1 - u) * c4[1] + t * u * c4[2] + (1 - t) * u * c4[3]);
									if(!(std::fabs(v - rv) <= tl)) fail("value_vs_reference", qx, qy, "I=" + mc::dec(v) + " reference " + mc::dec(rv));
								}
							// continuity across the four edges of the cell (nextafter pairs), where a neighbouring cell exists
							for(int b = 0; b <= 4; b++)
							{
								double qy = y[cj] + hy * b / 4;
								for(int side = 0; side < 2; side++)
								{
									double xe = side ? x[ci + 1] : x[ci];
									if((side == 0 && ci == 0) || (side == 1 && ci == sh.nx - 2)) continue;
									double vl = at(std::nextafter(xe, -INFINITY), qy), vr = at(std::nextafter(xe, INFINITY), qy), ve = at(xe, qy);
									double nb = 0;
									for(int i = std::max(0, ci - 1); i <= std::min(sh.nx - 1, ci + 2); i++)
										for(int j = cj; j <= cj + 1; j++) nb += std::fabs(f[i][j]);
									double tc = K * U_ * nb * 2 + 4 * nb * (std::nextafter(xe, INFINITY) - std::nextafter(xe, -INFINITY)) / std::min({hx, ci > 0 ? x[ci] - x[ci - 1] : hx, ci < sh.nx - 2 ? x[ci + 2] - x[ci + 1] : hx});
									if(!(std::fabs(vl - ve) <= tc && std::fabs(vr - ve) <= tc)) fail("discontinuous_across_x_edge", xe, qy, "left " + mc::dec(vl) + " edge " + mc::dec(ve) + " right " + mc::dec(vr) + " tol " + mc::dec(tc));
								}
								double qx = x[ci] + hx * b / 4;
								for(int side = 0; side < 2; side++)
								{
									double ye = side ? y[cj + 1] : y[cj];
									if((side == 0 && cj == 0) || (side == 1 && cj == sh.ny - 2)) continue;
									double vl = at(qx, std::nextafter(ye, -INFINITY)), vr = at(qx, std::nextafter(ye, INFINITY)), ve = at(qx, ye);
									double nb = 0;
									for(int i = ci; i <= ci + 1; i++)
										for(int j = std::max(0, cj - 1); j <= std::min(sh.ny - 1, cj + 2); j++) nb += std::fabs(f[i][j]);
									double tc = K * U_ * nb * 2 + 4 * nb * (std::nextafter(ye, INFINITY) - std::nextafter(ye, -INFINITY)) / std::min({hy, cj > 0 ? y[cj] - y[cj - 1] : hy, cj < sh.ny - 2 ? y[cj + 2] - y[cj + 1] : hy});
									if(!(std::fabs(vl - ve) <= tc && std::fabs(vr - ve) <= tc)) fail("discontinuous_across_y_edge", qx, ye, "below " + mc::dec(vl) + " edge " + mc::dec(ve) + " above " + mc::dec(vr) + " tol " + mc::dec(tc));
								}
							}
							if(cases == 555) mc::sample("2D grid x=" + mc::hexv(x) + " y=" + mc::hexv(y) + " cell (" + std::to_string(ci) + "," + std::to_string(cj) + ") corners " + mc::decv({c4[0], c4[1], c4[2], c4[3]}) + " -> node, 5x5 lattice and edge nextafter queries", 6);
						} while(pc.next());
					}
	mc::count("cells_x_corner_tuples_2d", cases);
	mc::count("evaluations", cases);
	mc::count("distinct_nontrivial", cases);
	mc::count("queries_2d", q2);
}

static void bilinear_and_constructors_2d(unsigned long long& unit)
{
	const char* part = "interp2d";
	const std::vector<std::vector<double>> SP = {{1, 1, 1}, {1, 1e-3, 1e3}, {1e3, 3, 1e-3}, {1e-3, 1e-3, 7}};
	const std::vector<double> co = {0, 1, -2, 0.5, 1e-3};
	const std::vector<double> dims = {-1.0, 1e-3, 7, 1e6};
	for(int nx : {3, 4})
		for(int ny : {3, 4})
			for(auto& sx : SP)
				for(auto& sy : SP)
				{
					if(!mc::mine(unit++)) continue;
					std::vector<double> x{-2.5}, y{10.0};
					for(int i = 0; i < nx - 1; i++) x.push_back(x.back() + sx[i]);
					for(int j = 0; j < ny - 1; j++) y.push_back(y.back() + sy[j]);
					mc::Product pc({(int)co.size(), (int)co.size(), (int)co.size(), (int)co.size()});
					do
					{
						double al = co[pc.idx[0]], be = co[pc.idx[1]], ga = co[pc.idx[2]], de = co[pc.idx[3]];
						std::vector<std::vector<double>> f(nx, std::vector<double>(ny));
						auto F = [&](ld a, ld b) { return (ld)al + be * a + ga * b + de * a * b; };
						for(int i = 0; i < nx; i++)
							for(int j = 0; j < ny; j++) f[i][j] = (double)F(x[i], y[j]);
						Interpolation_2D I(x, y, f);
						ld xm = std::max(fabsl(x.front()), fabsl(x.back())), ym = std::max(fabsl(y.front()), fabsl(y.back()));
						double cond = (double)(fabsl(al) + fabsl(be) * xm + fabsl(ga) * ym + fabsl(de) * xm * ym);
						mc::count("bilinear_tables", 1);
						mc::count("evaluations", 1);
						for(int i = 0; i < nx - 1; i++)
							for(int j = 0; j < ny - 1; j++)
								for(int a = 0; a <= 3; a++)
									for(int b = 0; b <= 3; b++)
									{
										double qx = x[i] + (x[i + 1] - x[i]) * a / 3.0, qy = y[j] + (y[j + 1] - y[j]) * b / 3.0;
										if(qx > x[i + 1]) qx = x[i + 1];
										if(qy > y[j + 1]) qy = y[j + 1];
										double v = I.Interpolate(qx, qy), want = (double)F(qx, qy);
										if(!(std::fabs(v - want) <= K * U_ * 8 * cond + mc::ETA))
											mc::violation(part, std::string(part) + "|bilinear|x=" + mc::decv(x) + ";y=" + mc::decv(y) + ";coef=" + mc::decv({al, be, ga, de}) + "|q=" + mc::dec(qx) + "," + mc::dec(qy) + "|bilinear_not_reproduced", "I=" + mc::dec(v) + " bilinear function " + mc::dec(want), "x=" + mc::hexv(x) + " y=" + mc::hexv(y) + " coef=" + mc::decv({al, be, ga, de}));
									}
						// constructors: table form and unit factors (once per coefficient pattern with de==co[1])
						if(pc.idx[3] == 1)
							for(double xd : dims)
								for(double fd : dims)
								{
									double yd = (xd == 7 ? 1e-3 : xd);
									std::vector<double> xs = x, ys = y;
									auto fs = f;
									if(xd > 0) for(auto& v : xs) v *= xd;
									if(yd > 0) for(auto& v : ys) v *= yd;
									if(fd > 0) for(auto& r : fs) for(auto& v : r) v *= fd;
									bool inc = true;
									for(size_t k = 1; k < xs.size(); k++) if(!(xs[k] > xs[k - 1])) inc = false;
									for(size_t k = 1; k < ys.size(); k++) if(!(ys[k] > ys[k - 1])) inc = false;
									if(!inc) continue;
									Interpolation_2D A(x, y, f, xd, yd, fd), B(xs, ys, fs);
									std::vector<std::vector<double>> tab;
									for(int i = 0; i < nx; i++)
										for(int j = 0; j < ny; j++) tab.push_back({x[i], y[j], f[i][j]});
									Interpolation_2D T(tab, xd, yd, fd);
									mc::count("constructor_cases_2d", 1);
									mc::count("evaluations", 1);
									for(int a = 0; a <= 6; a++)
										for(int b = 0; b <= 6; b++)
										{
											double qx = xs.front() + (xs.back() - xs.front()) * a / 6.0, qy = ys.front() + (ys.back() - ys.front()) * b / 6.0;
											if(qx > xs.back()) qx = xs.back();
											if(qy > ys.back()) qy = ys.back();
											double va = A.Interpolate(qx, qy), vb = B.Interpolate(qx, qy), vt = T.Interpolate(qx, qy);
											if(!mc::same_bits(va, vb) || !mc::same_bits(va, vt))
												mc::violation(part, std::string(part) + "|ctor|x=" + mc::decv(x) + ";y=" + mc::decv(y) + ";dims=" + mc::decv({xd, yd, fd}) + "|constructor_forms_differ", "unit-factor / table constructor answers differ: " + mc::dec(va) + " " + mc::dec(vb) + " " + mc::dec(vt), "x=" + mc::hexv(x) + " y=" + mc::hexv(y));
										}
								}
					} while(pc.next());
				}
}

// Query orders (added after seeded round 10): the oracles above reset the search state before every query, so a slip in the
// hunting search (Hunt/Locate) that needs a particular call order could not reach them. Here nothing is reset: for each table,
// every sequence of `depth` queries over the alphabet {knots, segment midpoints} is replayed on a fresh object, and every answer
// is held to O1 (knot reproduced) / the cell range of the segment that really contains the query.
static void query_orders(unsigned long long& unit)
{
	const char* part = "interp1d_orders";
	const int depth = mc::quick() ? 4 : 5;
	mc::bound("query_orders", "tables N=9,12 (uniform and geometric spacing, zig-zag ordinates); every sequence of " + std::to_string(depth) + " queries over knots and midpoints (|A|=2N-1) on a fresh object without resetting the search state; every answer checked");
	long long seqs = 0, q = 0;
	for(int N : {9, 12})
		for(int geo = 0; geo < 2; geo++)
		{
			std::vector<double> x{0.25}, y;
			for(int i = 1; i < N; i++) x.push_back(x.back() + (geo ? 0.125 * std::pow(1.7, i) : 1.0));
			for(int i = 0; i < N; i++) y.push_back((i % 2 ? 5.0 + i : -1.0 - 0.5 * i));
			ref::Steffen R(x, y);
			const int A = 2 * N - 1;
			std::vector<double> qs(A);
			for(int l = 0; l < A; l++) qs[l] = (l % 2 == 0) ? x[l / 2] : x[l / 2] + 0.5 * (x[l / 2 + 1] - x[l / 2]);
			for(int first = 0; first < A; first++)
			{
				if(!mc::mine(unit++)) continue;
				std::vector<int> dims(depth - 1, A);
				mc::Product pc(dims);
				do
				{
					Interpolation I(x, y);
					seqs++;
					for(int s = 0; s < depth; s++)
					{
						int l	 = s == 0 ? first : pc.idx[s - 1];
						double v = I.Interpolate(qs[l]);
						q++;
						bool ok;
						std::string want;
						if(l % 2 == 0)
						{
							int i = l / 2;
							// after a history the hunting search may legitimately answer a knot from the segment to its left, so the
							// tabulated value is returned to rounding (T2 of the adjacent segments), not necessarily bit for bit
							ld sc = std::max(R.scale_value(std::max(0, i - 1)), R.scale_value(std::min(N - 2, i)));
							ok	  = std::fabs(v - y[i]) <= (double)(K * U_ * sc) + K * mc::ETA;
							want  = "tabulated " + mc::dec(y[i]);
						}
						else
						{
							int j	  = l / 2;
							double lo = std::min(y[j], y[j + 1]), hi = std::max(y[j], y[j + 1]), tv = (double)(K * U_ * R.scale_value(j)) + K * mc::ETA;
							ok		  = v >= lo - tv && v <= hi + tv;
							want	  = "cell range [" + mc::dec(lo) + "," + mc::dec(hi) + "]";
						}
						if(!ok)
						{
							std::string h;
							for(int t = 0; t <= s; t++) h += (t ? ">" : "") + std::to_string(t == 0 ? first : pc.idx[t - 1]);
							mc::violation(part, std::string(part) + "|N=" + std::to_string(N) + (geo ? "_geometric" : "_uniform") + "|order=" + h + "|" + (l % 2 == 0 ? "knot_not_reproduced_after_history" : "outside_cell_range_after_history"), "I(" + mc::dec(qs[l]) + ")=" + mc::dec(v) + " " + want + " after the queries " + h + " (letters: 2i = knot i, 2j+1 = midpoint of segment j)", tdesc(x, y));
						}
					}
				} while(pc.next());
			}
			if(mc::mine(0)) mc::sample("query orders on " + tdesc(x, y) + ": all " + std::to_string(depth) + "-sequences over " + std::to_string(A) + " letters", 4);
		}
	mc::count("query_order_sequences", seqs);
	mc::count("query_order_queries", q);
	mc::count("evaluations", seqs);
	mc::count("distinct_nontrivial", seqs);
	mc::count("transitions", q);
}

static int replay()
{
	auto m = mc::parse_case(mc::ctx().replay_case);
	if(!m.count("x") || m.count("f") || m.count("coef")) { printf("2D replay: see case text; re-run the check to reproduce\n"); return 0; }
	std::vector<double> x = mc::parsev(m["x"]), y = mc::parsev(m["y"]);
	Checker C{"interp1d"};
	C.check_table(x, y);
	Interpolation I(x, y);
	double q = mc::parsed(m["q"]);
	printf("table %s\nInterpolate(%.17g) = %.17g, Derivative = %.17g\n", tdesc(x, y).c_str(), q, I.Interpolate(q), I.Derivative(q, 1));
	return mc::ctx().violation_total ? 1 : 0;
}

int main(int argc, char** argv)
{
	mc::init(argc, argv);
	if(mc::ctx().replay) return replay();
	mc::bound("rule", "complete products of tables over the spacing alphabet H and ordinate alphabet Y for each N (mixed-radix enumeration, nothing sampled); a table is non-trivial when the reference model says the slope limiter is active somewhere or the spacing is non-uniform; 2D: every cell of every grid shape x every 4-tuple of corner values");
	mc::alphabet("H", H_FULL.size());
	mc::alphabet("Y", Y_FULL.size());
	mc::alphabet("H_reduced", H_RED.size());
	mc::alphabet("Y_reduced", Y_RED.size());
	mc::bound("tolerance", "T2 = 32*u*(|y_j|+|y_j+1|) + 32*eta for values (DESIGN.md §2.4); knots bitwise");
	unsigned long long unit = 0;
	Checker C{"interp1d"};
	if(mc::quick())
	{
		mc::bound("tables", "N=3,4 complete over HxY at origins {0,-2.5}; N=5 over H'xY', N=6 over H'xY''; lines/parabolas; constructors; 2D 3x3,3x4,4x3");
		enumerate_tables(C, 3, H_FULL, Y_FULL, {0.0, -2.5}, unit, "N3");
		enumerate_tables(C, 4, H_FULL, Y_FULL, {0.0, -2.5}, unit, "N4");
		enumerate_tables(C, 5, H_RED, Y_RED, {0.0}, unit, "N5_reduced");
		enumerate_tables(C, 6, H_RED, Y_RED4, {0.0}, unit, "N6_reduced");
	}
	else
	{
		mc::bound("tables", "N=3,4 complete over HxY at origins {0,-2.5}; N=5 complete over HxY at origin 0; N=6 over H'xY'; long tables N=17,64,257; lines/parabolas; constructors; 2D up to 4x4");
		enumerate_tables(C, 3, H_FULL, Y_FULL, {0.0, -2.5}, unit, "N3");
		enumerate_tables(C, 4, H_FULL, Y_FULL, {0.0, -2.5}, unit, "N4");
		enumerate_tables(C, 5, H_FULL, Y_FULL, {0.0}, unit, "N5");
		enumerate_tables(C, 6, H_RED, Y_RED, {0.0}, unit, "N6_reduced");
	}
	long_tables(C, unit);
	lines_and_parabolas(C, unit);
	constructors(C, unit);
	query_orders(unit);
	mc::count("queries_1d", C.queries);
	check_2d(unit);
	bilinear_and_constructors_2d(unit);
	return mc::finish();
}
