// C14 — Monte Carlo integrators sample only inside the region and forget earlier calls.
// The entropy source is owned: std::random_device::_M_getval() is defined here (pre-empting libstdc++'s), so the seed of
// every integration is a letter of the alphabet. Histories are explored exhaustively to a depth bound (M1/M2): every
// history runs in a child forked from a parent that never called the integrators, every observed call in a grandchild.
#include "mc/mc.hpp"
#include <cfenv>
#include "libphysica/Integration.hpp"
#include <random>
#include <sys/mman.h>
using namespace libphysica;
typedef long double ld;
typedef std::vector<double> V;

// ---- owned entropy -----------------------------------------------------------------------------------------------------
static unsigned g_seed = 1, g_entropy_requests = 0;
unsigned int std::random_device::_M_getval()
{
	g_entropy_requests++;
	return g_seed + 7919u * (g_entropy_requests - 1);
}

static void fail(const std::string& part, const std::string& key, const std::string& cls, const std::string& text) { mc::violation(part, part + "|" + key + "|" + cls, text, part + " " + key); }

// ---- call letters --------------------------------------------------------------------------------------------------------
struct Call
{
	std::string method;
	int dim, budget, integrand;	  // integrand: 0 smooth (reads own coordinates), 1 step, 2 constant, 3 needle, 4 recorder (hashes the whole vector, returns smooth value of it)
	std::string str() const { return method + ",dim=" + std::to_string(dim) + ",n=" + std::to_string(budget) + ",f=" + std::to_string(integrand); }
};
static V region_for(int dim)
{
	V r(2 * dim);
	for(int j = 0; j < dim; j++) { r[j] = -0.5 + 0.25 * j; r[dim + j] = r[j] + 1.0 + 0.5 * j; }
	return r;
}
struct Obs
{
	double value = 0;
	uint64_t stream = 1469598103934665603ULL;	// FNV over every argument vector (sizes included), in order
	long long evals = 0, outside = 0, wrong_size = 0;
	unsigned entropy = 0;
};
static Obs run_call(const Call& c, unsigned seed)
{
	Obs o;
	V region = region_for(c.dim);
	int dim	 = c.dim;
	auto integrand = [&](V& x, const double) {
		o.evals++;
		size_t n = x.size();
		o.stream = (o.stream ^ n) * 1099511628211ULL;
		for(size_t i = 0; i < n; i++) o.stream = (o.stream ^ mc::bits(x[i])) * 1099511628211ULL;
		if((int)n != dim) o.wrong_size++;
		for(int j = 0; j < dim && j < (int)n; j++)
			if(!(x[j] >= region[j] && x[j] <= region[dim + j])) { o.outside++; break; }
		double s = 0;
		switch(c.integrand)
		{
			case 0: s = 1; for(int j = 0; j < dim; j++) s *= std::exp(-0.5 * x[j]) * (1 + 0.1 * j); return s;
			case 1: return x[0] > 0.1 ? 1.0 : 0.25;
			case 2: return 3.5;
			case 3: s = 0; for(int j = 0; j < dim; j++) s += (x[j] - 0.123) * (x[j] - 0.123); return std::exp(-s / (2 * 1e-3 * 1e-3));
			case 5: return 1e-310 * (1.0 + 0.25 * x[0]);	// every value and every partial sum is a subnormal number
			default: s = 0; for(size_t i = 0; i < n; i++) s += x[i]; return std::exp(-0.1 * s * s);	// reads the WHOLE vector it is given
		}
	};
	g_seed			   = seed;
	g_entropy_requests = 0;
	o.value	  = Integrate_MC(integrand, region, c.budget, c.method);
	o.entropy = g_entropy_requests;
	return o;
}

static const std::vector<Call>& prior_alphabet()
{
	static std::vector<Call> P = {
		{"Monte-Carlo", 2, 1000, 0}, {"Monte-Carlo", 6, 1000, 3}, {"Vegas", 1, 1000, 0}, {"Vegas", 3, 5000, 1}, {"Vegas", 6, 20000, 0}, {"Vegas", 2, 20000, 4},
		{"Miser", 2, 1000, 3}, {"Miser", 3, 5000, 0}, {"Miser", 6, 1000, 2}, {"Miser", 1, 5000, 3}};
	return P;
}
static const std::vector<Call>& observed_alphabet()
{
	static std::vector<Call> C = {
		{"Monte-Carlo", 1, 1000, 0}, {"Monte-Carlo", 3, 1000, 4}, {"Vegas", 1, 1000, 4}, {"Vegas", 2, 5000, 0}, {"Vegas", 3, 1000, 4}, {"Vegas", 2, 20000, 1},
		{"Miser", 1, 1000, 4}, {"Miser", 2, 1000, 3}, {"Miser", 3, 5000, 3}, {"Miser", 3, 1000, 0}, {"Miser", 2, 5000, 4}, {"Monte-Carlo", 2, 5000, 3},
		{"Monte-Carlo", 2, 1000, 5}, {"Miser", 2, 1000, 5}, {"Vegas", 2, 1000, 5}};
	return C;
}

struct Digest { uint64_t value_bits, stream; long long evals, outside, wrong_size; unsigned entropy; int died; unsigned env; };
// control part of the floating-point environment (rounding mode, flush-to-zero / denormals-are-zero, exception masks; x87 control word)
static unsigned fp_environment()
{
	unsigned csr = __builtin_ia32_stmxcsr() & ~0x3Fu;
	unsigned short cw = 0;
	__asm__ __volatile__("fnstcw %0" : "=m"(cw));
	return (csr << 16) ^ cw ^ ((unsigned)fegetround() << 28);
}

// run `body` in a forked process that returns a vector of digests through shared memory
static bool in_child(const std::function<void(Digest*)>& body, Digest* shared, double timeout_s)
{
	fflush(nullptr);
	pid_t pid = fork();
	if(pid == 0)
	{
		int fd = open("/dev/null", O_WRONLY);
		dup2(fd, 1);
		dup2(fd, 2);
		body(shared);
		_exit(0);
	}
	int st = 0;
	auto t0 = std::chrono::steady_clock::now();
	for(;;)
	{
		pid_t r = waitpid(pid, &st, WNOHANG);
		if(r == pid) break;
		if(std::chrono::duration<double>(std::chrono::steady_clock::now() - t0).count() > timeout_s) { kill(pid, SIGKILL); waitpid(pid, &st, 0); return false; }
		usleep(200);
	}
	return WIFEXITED(st) && WEXITSTATUS(st) == 0;
}

static void histories(unsigned long long& unit)
{
	const auto &P = prior_alphabet(), &C = observed_alphabet();
	int depth = mc::thorough() ? 4 : 2;
	std::vector<unsigned> seeds = mc::thorough() ? std::vector<unsigned>{1, 2, 3} : std::vector<unsigned>{1, 2};
	mc::alphabet("prior_calls", P.size());
	mc::alphabet("observed_calls", C.size());
	mc::alphabet("seeds", seeds.size());
	mc::bound("history_depth", std::to_string(depth));
	size_t nobs = C.size() * seeds.size();
	Digest* shared = (Digest*)mmap(nullptr, sizeof(Digest) * (nobs + 1), PROT_READ | PROT_WRITE, MAP_SHARED | MAP_ANONYMOUS, -1, 0);
	// observed calls after a history: child runs the history, then forks one grandchild per observed call
	auto observe = [&](const std::vector<int>& hist, std::vector<Digest>& out) -> bool {
		for(size_t i = 0; i <= nobs; i++) shared[i].died = 1;
		bool ok = in_child([&](Digest* sh) {
			unsigned hs = 11;
			for(int h : hist) { run_call(P[h], hs); hs += 17; }
			sh[nobs].died = 0;
			for(size_t ci = 0; ci < C.size(); ci++)
				for(size_t si = 0; si < seeds.size(); si++)
				{
					size_t k = ci * seeds.size() + si;
					fflush(nullptr);
					pid_t g = fork();
					if(g == 0)
					{
						unsigned env = fp_environment();	// what the history left behind
						Obs o = run_call(C[ci], seeds[si]);
						sh[k] = Digest{mc::bits(o.value), o.stream, o.evals, o.outside, o.wrong_size, o.entropy, 0, env};
						_exit(0);
					}
					int st;
					waitpid(g, &st, 0);
				}
		}, shared, 600);
		out.assign(shared, shared + nobs + 1);
		return ok;
	};
	std::vector<Digest> fresh;
	if(!observe({}, fresh)) { fail("history", "fresh", "fresh_process_failed", "observed calls in a fresh process did not complete"); return; }
	for(size_t k = 0; k < nobs; k++)
		if(fresh[k].died) fail("history", "fresh," + C[k / seeds.size()].str() + ",seed=" + std::to_string(seeds[k % seeds.size()]), "terminated_process", "a valid integration ended the process in a fresh process");
	// all histories of length 1..depth
	long long hcount = 0, trans = 0, differing = 0;
	std::vector<int> radix;
	for(int len = 1; len <= depth; len++)
	{
		mc::Product H(std::vector<int>(len, (int)P.size()));
		do
		{
			if(!mc::mine(unit++)) continue;
			if(mc::out_of_time("C14 histories")) goto done;
			std::vector<Digest> got;
			bool ok = observe(H.idx, got);
			hcount++;
			std::string hs;
			for(int h : H.idx) hs += "[" + P[h].str() + "]";
			if(!ok || got[nobs].died) { fail("history", "history=" + hs, "history_terminated_process", "a history of valid integrations ended the process or timed out"); continue; }
			for(size_t k = 0; k < nobs; k++)
			{
				trans++;
				const Call& c = C[k / seeds.size()];
				std::string key = "history=" + hs + ",call=[" + c.str() + "],seed=" + std::to_string(seeds[k % seeds.size()]);
				if(got[k].died && !fresh[k].died) { fail("history", key, "terminated_process_after_history", "the call returns in a fresh process but ends the process after this history"); continue; }
				if(fresh[k].died) continue;
				if(got[k].value_bits != fresh[k].value_bits) { differing++; fail("history", key, "value_depends_on_history", "returned value differs from the same call (same seed) in a fresh process"); }
				if(got[k].stream != fresh[k].stream || got[k].evals != fresh[k].evals) fail("history", key, "sample_points_depend_on_history", "the sequence of argument vectors handed to the integrand differs from the fresh process (" + std::to_string(got[k].evals) + " vs " + std::to_string(fresh[k].evals) + " evaluations)");
				if(got[k].env != fresh[k].env) fail("history", key, "floating_point_environment_changed_by_history", "rounding mode / flush-to-zero / exception masks differ from those of a fresh process after this history");
				if(got[k].entropy != fresh[k].entropy) fail("history", key, "entropy_requests_depend_on_history", std::to_string(got[k].entropy) + " vs " + std::to_string(fresh[k].entropy) + " requests to the entropy source");
			}
			if(hcount == 3) mc::sample("history " + hs + " then each of 12 observed calls x seeds in its own grandchild: value bits and the hash of the complete argument stream equal those of a fresh process", 3);
		} while(H.next());
	}
done:
	mc::count("histories", hcount);
	mc::count("states", hcount + (mc::shard0() ? 1 : 0));
	mc::count("transitions", trans);
	mc::count("evaluations", trans);
	mc::count("distinct_nontrivial", trans);
	munmap(shared, sizeof(Digest) * (nobs + 1));
}

// ---- containment, constants, accuracy (each configuration in its own child: statics start fresh) --------------------------
static void containment_and_accuracy(unsigned long long& unit)
{
	struct Res { double value; long long evals, outside, wrong_size; int died; };
	Res* sh = (Res*)mmap(nullptr, sizeof(Res), PROT_READ | PROT_WRITE, MAP_SHARED | MAP_ANONYMOUS, -1, 0);
	std::vector<int> budgets = mc::thorough() ? std::vector<int>{1000, 10000, 100000} : std::vector<int>{1000, 10000};
	// budgets that are multiples of a power of two (block-wise accumulation), for the constant and the exponential family only
	for(int b : {64, 1024, 4096}) budgets.push_back(b);
	if(mc::thorough()) budgets.push_back(64000);
	std::vector<unsigned> seeds = mc::thorough() ? std::vector<unsigned>{1, 2, 3} : std::vector<unsigned>{1, 2};
	for(const char* m : {"Monte-Carlo", "Vegas", "Miser"})
		for(int dim = 1; dim <= 6; dim++)
			for(int reg = 0; reg < 5; reg++)	// region 4: narrow box far from the origin (dimensions 1 and 2; constant and exponential family)
				for(int budget : budgets)
					for(int fam = 0; fam < 6; fam++)
						for(unsigned seed : seeds)
						{
							if((budget == 64 || budget == 1024 || budget == 4096 || budget == 64000 || reg == 4) && fam > 1) continue;
							if(reg == 4 && dim > 2) continue;
							if(!mc::mine(unit++)) continue;
							if(mc::out_of_time("C14 containment")) return;
							// families 4 and 5: sharply peaked off-centre Gaussians (width 0.07 and 0.1 of the side, centred at 0.7)
							// the constant family takes three values over the seeds: positive, zero and negative
							const double konst = fam != 0 ? 0.0 : (seed % 3 == 1 ? 2.75 : seed % 3 == 2 ? 0.0 : -1.5);
							const ld gs = fam == 4 ? 0.07L : fam == 5 ? 0.1L : 0.25L, gc = fam >= 4 ? 0.7L : 0.3L;
							// regions: offset, anisotropic, tiny and huge widths
							V region(2 * dim);
							for(int j = 0; j < dim; j++)
							{
								double lo = reg == 0 ? 0 : reg == 1 ? -3 + j : reg == 2 ? 100 + j : reg == 4 ? 1e8 + 3 * j : -1e3;
								double w  = reg == 0 ? 1 : reg == 1 ? 0.5 + j : reg == 2 ? 1e-3 * (1 + j) : reg == 4 ? 1e-3 : 1e3 * (1 + (j % 2));
								region[j] = lo; region[dim + j] = lo + w;
							}
							ld vol = 1;
							for(int j = 0; j < dim; j++) vol *= (ld)region[dim + j] - region[j];
							// families in unit coordinates t_j = (x_j-lo)/w: constant, separable exponential, off-centre Gaussian, polynomial
							ld exact = 0, var = 0;
							auto unitf = [&](const V& t) {
								double s = 1;
								switch(fam)
								{
									case 0: return konst;
									case 1: for(double u : t) s *= std::exp(-u); return s;
									case 2: case 4: case 5: for(double u : t) s *= std::exp(-(u - (double)gc) * (u - (double)gc) / (2 * (double)gs * (double)gs)); return s;
									default: for(double u : t) s *= (0.5 + u * u); return s;
								}
							};
							ld m1 = 1, m2 = 1;	 // per-axis first and second moments
							if(fam == 1) { m1 = 1 - expl(-1.0L); m2 = (1 - expl(-2.0L)) / 2; }
							if(fam == 2 || fam >= 4)
							{
								ld s = gs;
								m1 = s * sqrtl(M_PIl / 2) * (erfl((1 - gc) / (sqrtl(2.0L) * s)) + erfl(gc / (sqrtl(2.0L) * s)));
								ld s2 = s / sqrtl(2.0L);
								m2 = s2 * sqrtl(M_PIl / 2) * (erfl((1 - gc) / (sqrtl(2.0L) * s2)) + erfl(gc / (sqrtl(2.0L) * s2)));
							}
							if(fam == 3) { m1 = 0.5L + 1 / 3.0L; m2 = 0.25L + 1 / 3.0L + 0.2L; }
							if(fam == 0) { exact = (ld)konst * vol; var = 0; }
							else { exact = powl(m1, dim) * vol; var = (powl(m2, dim) - powl(m1, 2 * dim)) * vol * vol; }
							std::string key = std::string(m) + ",dim=" + std::to_string(dim) + ",region=" + std::to_string(reg) + ",n=" + std::to_string(budget) + ",family=" + std::to_string(fam) + ",seed=" + std::to_string(seed);
							sh->died = 1;
							std::string ms = m;
							bool ok = in_child([&](Digest*) {
								long long evals = 0, outside = 0, wrong = 0;
								auto f = [&](V& x, const double) {
									evals++;
									if((int)x.size() != dim) wrong++;
									V t(dim);
									bool out = false;
									for(int j = 0; j < dim; j++)
									{
										if(!(x[j] >= region[j] && x[j] <= region[dim + j])) out = true;
										t[j] = (x[j] - region[j]) / (region[dim + j] - region[j]);
									}
									if(out) outside++;
									return unitf(t);
								};
								g_seed = seed;
								g_entropy_requests = 0;
								V r = region;
								double v = Integrate_MC(f, r, budget, ms);
								*sh = Res{v, evals, outside, wrong, 0};
							}, nullptr, 300);
							mc::count("evaluations", 1);
							mc::count("distinct_nontrivial", 1);
							mc::count("transitions", 1);
							if(!ok || sh->died) { fail("accuracy", key, "terminated_process", "a valid integration ended the process or timed out"); continue; }
							mc::count("integrand_evaluations", sh->evals);
							if(sh->outside) fail("accuracy", key, "sampled_outside_region", std::to_string(sh->outside) + " of " + std::to_string(sh->evals) + " sample points outside the hyper-rectangle");
							if(sh->wrong_size) fail("accuracy", key, "argument_vector_wrong_size", std::to_string(sh->wrong_size) + " argument vectors whose size is not the dimension");
							if(fam == 0)
							{
								// keyed by method, dimension and region (budget and seed only repeat the same input class)
								if(!(fabsl(sh->value - exact) <= (ld)budget * mc::U_ * fabsl(exact) * 4)) fail("accuracy", std::string(m) + ",dim=" + std::to_string(dim) + ",region=" + std::to_string(reg) + ",constant", "constant_not_integrated_exactly", "estimate " + mc::dec(sh->value) + " exact " + mc::dec((double)exact) + " (n=" + std::to_string(budget) + ", seed=" + std::to_string(seed) + ")");
							}
							else
							{
								ld se = sqrtl(var / budget);
								if(!(fabsl(sh->value - exact) <= 6 * se)) fail("accuracy", key, "estimate_outside_six_standard_errors", "estimate " + mc::dec(sh->value) + " exact " + mc::dec((double)exact) + " deviation " + mc::dec((double)(fabsl(sh->value - exact) / se)) + " plain-MC standard errors");
								else mc::maxi(std::string("deviation_in_standard_errors_") + m, (double)(fabsl(sh->value - exact) / se), key);
							}
						}
	// front ends: Integrate_2D / 3D with the Monte-Carlo method names on disjoint per-axis ranges, the three widths in every order
	for(const char* m : {"Monte-Carlo", "Vegas", "Miser"})
		for(int d3 = 0; d3 < 2; d3++)
			for(int perm = 0; perm < (d3 ? 6 : 2); perm++)
			for(unsigned seed : seeds)
			for(int budget : {20000, 0})	// 0: the budget argument left at its default (30000 calls)
			{
				if(!mc::mine(unit++)) continue;
				if(perm > 0 && (budget == 0 || seed != seeds[0])) continue;	// the other orderings: one seed, explicit budget
				static const int PERM[6][3] = {{0, 1, 2}, {1, 2, 0}, {2, 0, 1}, {0, 2, 1}, {2, 1, 0}, {1, 0, 2}};
				const double W[3] = {1.0, 1.5, 2.25}, LO[3] = {0.0, 2.0, 5.0};
				double w[3], lo[3], hi[3];
				for(int a = 0; a < 3; a++) { w[a] = d3 ? W[PERM[perm][a]] : W[(a + perm) % 2]; lo[a] = LO[a]; hi[a] = lo[a] + w[a]; }
				std::string key = std::string("frontend,") + m + (d3 ? ",3D" : ",2D") + ",widths=" + mc::dec(w[0]) + "/" + mc::dec(w[1]) + (d3 ? "/" + mc::dec(w[2]) : "") + ",seed=" + std::to_string(seed) + (budget ? "" : ",default_budget");
				sh->died = 1;
				std::string ms = m;
				bool ok = in_child([&](Digest*) {
					long long evals = 0, outside = 0;
					g_seed = seed;
					g_entropy_requests = 0;
					double v;
					auto f3 = [&](double x, double y, double z) { evals++; if(!(x >= lo[0] && x <= hi[0] && y >= lo[1] && y <= hi[1] && z >= lo[2] && z <= hi[2])) outside++; return std::exp(-(x - lo[0]) / w[0]) * (1 / ((y - lo[1]) / w[1] + 1)) * (2 + std::cos((z - lo[2]) / w[2])); };
					auto f2 = [&](double x, double y) { evals++; if(!(x >= lo[0] && x <= hi[0] && y >= lo[1] && y <= hi[1])) outside++; return std::exp(-(x - lo[0]) / w[0]) * (1 / ((y - lo[1]) / w[1] + 1)); };
					if(d3) v = budget ? Integrate_3D(f3, lo[0], hi[0], lo[1], hi[1], lo[2], hi[2], ms, budget) : Integrate_3D(f3, lo[0], hi[0], lo[1], hi[1], lo[2], hi[2], ms);
					else v = budget ? Integrate_2D(f2, lo[0], hi[0], lo[1], hi[1], ms, budget) : Integrate_2D(f2, lo[0], hi[0], lo[1], hi[1], ms);
					*sh = Res{v, evals, outside, 0, 0};
				}, nullptr, 300);
				mc::count("evaluations", 1);
				mc::count("transitions", 1);
				if(!ok || sh->died) { fail("frontend", key, "terminated_process", "ended the process"); continue; }
				if(sh->outside) fail("frontend", key, "argument_outside_its_own_axis_range", std::to_string(sh->outside) + " evaluations with a coordinate outside the range of its own pair of limits");
				ld Ix = w[0] * (1 - expl(-1.0L)), Iy = w[1] * logl(2.0L), Iz = w[2] * (sinl(1.0L) + 2);
				ld ex = d3 ? Ix * Iy * Iz : Ix * Iy;
				// crude but safe variance bound: the integrand is within [0, max] so sigma <= max*Volume/2
				ld vol = d3 ? w[0] * w[1] * w[2] : w[0] * w[1], fmax = d3 ? 3 : 1;
				ld se = fmax * vol / 2 / sqrtl(20000.0L);
				if(!(fabsl(sh->value - ex) <= 6 * se)) fail("frontend", key, "estimate_outside_six_standard_errors", "estimate " + mc::dec(sh->value) + " exact " + mc::dec((double)ex));
			}
	// containment with many samples in narrow boxes far from the origin (a point computed as a rounded combination of the limits can
	// land one unit in the last place outside; Miser samples in repeatedly bisected sub-boxes)
	for(const char* m : {"Monte-Carlo", "Vegas", "Miser"})
		for(int dim = 1; dim <= 3; dim++)
			for(double off : {1e7, 1e8, -1e8})
			{
				if(!mc::mine(unit++)) continue;
				V region(2 * dim);
				for(int j = 0; j < dim; j++) { region[j] = off + 3 * j; region[dim + j] = region[j] + 1e-3; }
				int budget = mc::thorough() ? 4000000 : 1000000;
				std::string key = std::string(m) + ",dim=" + std::to_string(dim) + ",far_offset=" + mc::dec(off) + ",n=" + std::to_string(budget);
				sh->died = 1;
				std::string ms = m;
				bool ok = in_child([&](Digest*) {
					long long evals = 0, outside = 0;
					auto f = [&](V& x, const double) {
						evals++;
						for(int j = 0; j < dim; j++) if(!(x[j] >= region[j] && x[j] <= region[dim + j])) { outside++; break; }
						return 1.0 + (x[0] - region[0]);
					};
					g_seed = 7;
					V r = region;
					double v = Integrate_MC(f, r, budget, ms);
					*sh = Res{v, evals, outside, 0, 0};
				}, nullptr, 300);
				mc::count("evaluations", 1);
				mc::count("transitions", 1);
				if(!ok || sh->died) { fail("accuracy", key, "terminated_process", "a valid integration ended the process or timed out"); continue; }
				mc::count("integrand_evaluations", sh->evals);
				if(sh->outside) fail("accuracy", key, "sampled_outside_region", std::to_string(sh->outside) + " of " + std::to_string(sh->evals) + " sample points outside the hyper-rectangle");
			}
	// the spherical front end with the Monte-Carlo method names: shells that do not start at the origin, full and partial angular ranges;
	// every vector handed to the integrand lies in the requested shell and cone, the value is within six standard errors
	for(const char* m : {"Monte-Carlo", "Vegas", "Miser"})
		for(int cfg = 0; cfg < 4; cfg++)
		{
			if(!mc::mine(unit++)) continue;
			const double R1[4] = {1.0, 0.0, 2.0, 0.5}, R2[4] = {2.0, 1.5, 2.5, 3.0}, C1[4] = {-1, -1, 0.25, -0.5}, C2[4] = {1, 1, 0.75, 0.0}, P1[4] = {0, 0, 1.0, 3.0}, P2[4] = {2 * M_PI, 2 * M_PI, 2.5, 6.0};
			double r1 = R1[cfg], r2 = R2[cfg], c1 = C1[cfg], c2 = C2[cfg], p1 = P1[cfg], p2 = P2[cfg];
			std::string key = std::string("spherical_frontend,") + m + ",r=" + mc::dec(r1) + ".." + mc::dec(r2) + ",cos=" + mc::dec(c1) + ".." + mc::dec(c2) + ",phi=" + mc::dec(p1) + ".." + mc::dec(p2);
			sh->died = 1;
			std::string ms = m;
			bool ok = in_child([&](Digest*) {
				long long evals = 0, outside = 0;
				g_seed = 3;
				auto f = [&](libphysica::Vector v) {
					evals++;
					double r = v.Norm(), ct = r > 0 ? v[2] / r : 0, ph = std::atan2(v[1], v[0]);
					if(ph < 0) ph += 2 * M_PI;
					double e = 1e-9;
					if(!(v.Size() == 3 && r >= r1 * (1 - e) && r <= r2 * (1 + e) && ct >= c1 - e && ct <= c2 + e && (r == 0 || std::sqrt(1 - ct * ct) < 1e-7 || (ph >= p1 - e && ph <= p2 + e)))) outside++;
					return 1.5 + 0.5 * r * r;
				};
				double v = Integrate_3D(f, r1, r2, c1, c2, p1, p2, ms, 20000);
				*sh = Res{v, evals, outside, 0, 0};
			}, nullptr, 300);
			mc::count("evaluations", 1);
			mc::count("transitions", 1);
			if(!ok || sh->died) { fail("frontend", key, "terminated_process", "ended the process"); continue; }
			if(sh->outside) fail("frontend", key, "vector_outside_the_requested_shell_or_cone", std::to_string(sh->outside) + " of " + std::to_string(sh->evals) + " vectors lie outside r, cos(theta), phi ranges");
			ld ang = ((ld)c2 - c1) * ((ld)p2 - p1);
			ld ex = ang * (1.5L * (powl(r2, 3) - powl(r1, 3)) / 3 + 0.5L * (powl(r2, 5) - powl(r1, 5)) / 5);
			// integrand of the underlying box integral: r^2 (1.5 + 0.5 r^2), between its values at r1 and r2
			ld gmax = (ld)r2 * r2 * (1.5L + 0.5L * r2 * r2), gmin = (ld)r1 * r1 * (1.5L + 0.5L * r1 * r1);
			ld se = (gmax - gmin) / 2 * ang * (r2 - r1) / sqrtl(20000.0L);
			if(!(fabsl(sh->value - ex) <= 6 * se)) fail("frontend", key, "estimate_outside_six_standard_errors", "estimate " + mc::dec(sh->value) + " exact " + mc::dec((double)ex) + " (6 se = " + mc::dec((double)(6 * se)) + ")");
		}
	// (one failure class per nested input: the key names the input, the text says in which way it failed)
	// front ends called from inside an integrand of a front end (an integral over an integral): both levels stay inside their own
	// rectangles; the inner integrand is a constant (integrated exactly), so the outer value is known
	for(const char* mo : {"Monte-Carlo", "Vegas", "Miser"})
		for(const char* mi : {"Monte-Carlo", "Vegas", "Miser"})
			for(int d3 = 0; d3 < 2; d3++)
			{
				if(!mc::mine(unit++)) continue;
				std::string key = std::string("nested_frontend,outer=") + mo + ",inner=" + mi + (d3 ? ",outer_3D_inner_2D" : ",outer_2D_inner_3D");
				sh->died = 1;
				auto t_start = std::chrono::steady_clock::now();
				std::string so = mo, si = mi;
				bool ok = in_child([&](Digest*) {
					long long evals = 0, outside = 0, inner_bad = 0;
					g_seed = 5;
					double v;
					auto i2 = [&](double x, double y) { if(!(x >= 10 && x <= 11 && y >= 20 && y <= 20.5)) outside++; return 4.0; };
					auto i3 = [&](double x, double y, double z) { if(!(x >= 10 && x <= 11 && y >= 20 && y <= 20.5 && z >= -3 && z <= -1)) outside++; return 2.0; };
					auto inner = [&]() { double k = d3 ? Integrate_2D(i2, 10, 11, 20, 20.5, si, 300) : Integrate_3D(i3, 10, 11, 20, 20.5, -3, -1, si, 300); if(!(std::fabs(k - 2.0) <= 1e-9)) inner_bad++; return k; };
					auto o2 = [&](double x, double y) { evals++; if(!(x >= 0 && x <= 1 && y >= 2 && y <= 3.5)) outside++; return std::exp(-x) * (1 / (y - 1)) * inner(); };
					auto o3 = [&](double x, double y, double z) { evals++; if(!(x >= 0 && x <= 1 && y >= 2 && y <= 3.5 && z >= 5 && z <= 7)) outside++; return std::exp(-x) * (1 / (y - 1)) * (1 + 0.1 * z) * inner(); };
					v = d3 ? Integrate_3D(o3, 0, 1, 2, 3.5, 5, 7, so, 3000) : Integrate_2D(o2, 0, 1, 2, 3.5, so, 3000);
					*sh = Res{v, evals, outside, inner_bad, 0};
				}, nullptr, 15);
				double elapsed = std::chrono::duration<double>(std::chrono::steady_clock::now() - t_start).count();
				mc::count("evaluations", 1);
				mc::count("transitions", 1);
				if(!ok && elapsed >= 15) { fail("frontend", key, "nested_integration_fails", "does not return: no result within 15 s (an un-nested call of this size takes milliseconds)"); continue; }
				if(!ok || sh->died) { fail("frontend", key, "nested_integration_fails", "ended the process"); continue; }
				bool reported = false;
				if(sh->outside) { reported = true; fail("frontend", key, "nested_integration_fails", std::to_string(sh->outside) + " evaluations (outer or inner) with a coordinate outside the range of its own pair of limits"); }
				if(sh->wrong_size && !reported) { reported = true; fail("frontend", key, "nested_integration_fails", std::to_string(sh->wrong_size) + " inner integrals of a constant differ from volume times constant"); }
				ld ex = (1 - expl(-1.0L)) * logl(2.5L) * 2 * (d3 ? (2 + 0.1L * 12) : 1);
				ld vol = d3 ? 3.0L : 1.5L, fmax = d3 ? 2 * 1.7L : 2;
				ld se = fmax * vol / 2 / sqrtl(3000.0L);
				if(!(fabsl(sh->value - ex) <= 6 * se) && !reported) fail("frontend", key, "nested_integration_fails", "estimate outside six standard errors: " + mc::dec(sh->value) + " exact " + mc::dec((double)ex));
			}
	munmap(sh, sizeof(Res));
}

int main(int argc, char** argv)
{
	mc::init(argc, argv);
	if(mc::ctx().replay) { printf("%s\n(no single-case replay for this part; use ./vcheck --replay <file>, which re-runs the enumeration for this key)\n", mc::ctx().replay_case.c_str()); return 0; }
	mc::bound("rule", "entropy owned by interposing std::random_device::_M_getval(); histories: every sequence of prior calls up to the depth bound over a 10-letter alphabet (all three methods, dimensions 1..6, both Vegas stratification modes, the needle integrand that drives Miser into its fallback), each followed by every one of 12 observed calls x seeds, each observed call in its own grandchild process; oracle: value bits and the complete argument stream equal those of a fresh process; a state is a history, a transition is one observed call after it");
	unsigned long long unit = 0;
	histories(unit);
	containment_and_accuracy(unit);
	return mc::finish();
}
