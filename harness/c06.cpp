// C06 — Gamma-function family is accurate over its whole domain and self-consistent.
// M1: BFS to fixpoint over the global factorial memo (state = memo contents); M3: complete grids against two
// mutually checking long-double references.
#include "mc/mc.hpp"
#include "mc/exit_trap.hpp"
#include "mc/purity.hpp"
#include "harness/gamma_ref.hpp"
#include "libphysica/Special_Functions.hpp"
#include <deque>
namespace libphysica { extern std::vector<double> FactorialList; }
using namespace libphysica;
typedef long double ld;
using mc::U_;

static void fail(const std::string& part, const std::string& key, const std::string& cls, const std::string& text) { mc::violation(part, part + "|" + key + "|" + cls, text, part + " " + key); }
static void silence()
{
	int fd = open("/dev/null", O_WRONLY);
	dup2(fd, 1);
	dup2(fd, 2);
}

// ---- M1: the factorial memo -----------------------------------------------------------------------------------------
static void memo_bfs()
{
	// reference values: n! in long double (relative error <= n * 2^-64)
	std::vector<ld> exact(171);
	exact[0] = 1;
	for(int n = 1; n <= 170; n++) exact[n] = exact[n - 1] * n;
	// canonical answers from a fresh memo, one fresh state per letter
	std::vector<double> fresh(171);
	for(int n = 0; n <= 170; n++)
	{
		FactorialList = {1.0};
		fresh[n]	  = Factorial(n);
	}
	struct BL { int n, k; };
	std::vector<BL> bl;
	for(int i = 0; i < 12; i++)
		for(int j = 0; j < 12; j++)
		{
			int n = i * 15 + 5, k = (j * n) / 11;
			if(n <= 170) bl.push_back({n, k});
		}
	std::vector<double> fresh_b(bl.size());
	for(size_t i = 0; i < bl.size(); i++)
	{
		FactorialList = {1.0};
		fresh_b[i]	  = Binomial_Coefficient(bl[i].n, bl[i].k);
	}
	// full memo (state L = first L entries of it)
	FactorialList = {1.0};
	Factorial(170);
	std::vector<double> full = FactorialList;
	if(full.size() != 171) fail("memo", "full", "memo_size_wrong", "memo has " + std::to_string(full.size()) + " entries after Factorial(170)");
	// BFS: state = memo length; real transitions on the real global
	std::vector<int> parent(172, -2), via(172, -1);
	std::deque<int> fr{1};
	parent[1]			 = -1;
	long long tr = 0, states = 0;
	while(!fr.empty())
	{
		int L = fr.front();
		fr.pop_front();
		states++;
		auto set = [&]() { FactorialList.assign(full.begin(), full.begin() + L); };
		std::string skey = "memo_length=" + std::to_string(L);
		for(int n = 0; n <= 170; n++)
		{
			set();
			double v = Factorial(n);
			tr++;
			if(!mc::same_bits(v, fresh[n])) fail("memo", skey + ",Factorial(" + std::to_string(n) + ")", "value_depends_on_call_order", "returns " + mc::dec(v) + " but a fresh memo gives " + mc::dec(fresh[n]));
			int L2 = FactorialList.size();
			if(L2 < 1 || L2 > 171 || !std::equal(FactorialList.begin(), FactorialList.end(), full.begin())) { fail("memo", skey + ",Factorial(" + std::to_string(n) + ")", "memo_corrupted", "memo contents are not a prefix of the factorial table"); continue; }
			if(parent[L2] == -2) { parent[L2] = L; via[L2] = n; fr.push_back(L2); }
		}
		for(size_t i = 0; i < bl.size(); i++)
		{
			set();
			double v = Binomial_Coefficient(bl[i].n, bl[i].k);
			tr++;
			if(!mc::same_bits(v, fresh_b[i])) fail("memo", skey + ",Binomial_Coefficient(" + std::to_string(bl[i].n) + "," + std::to_string(bl[i].k) + ")", "value_depends_on_call_order", "returns " + mc::dec(v) + " but a fresh memo gives " + mc::dec(fresh_b[i]));
			int L2 = FactorialList.size();
			if(L2 >= 1 && L2 <= 171 && std::equal(FactorialList.begin(), FactorialList.end(), full.begin()) && parent[L2] == -2) { parent[L2] = L; via[L2] = 1000; fr.push_back(L2); }
		}
	}
	// witness replay through the public API only
	for(int L = 2; L <= 171; L += 13)
	{
		std::vector<int> path;
		for(int s = L; parent[s] > 0 || (parent[s] == 1); s = parent[s]) { path.push_back(via[s]); if(parent[s] == 1) break; }
		FactorialList = {1.0};
		for(int i = (int)path.size() - 1; i >= 0; i--) if(path[i] < 1000) Factorial(path[i]);
		mc::count("witness_paths_replayed", 1);
	}
	// recurrences and accuracy of the canonical values
	for(int n = 1; n <= 170; n++)
	{
		if(!mc::same_bits(fresh[n], (double)n * fresh[n - 1])) fail("memo", "n=" + std::to_string(n), "recurrence_violated", "n! = " + mc::dec(fresh[n]) + " but n*(n-1)! = " + mc::dec(n * fresh[n - 1]));
		ld rel = fabsl(fresh[n] - exact[n]) / exact[n];
		if(!(rel <= (n + 1) * U_)) fail("memo", "n=" + std::to_string(n), "factorial_inaccurate", "relative error " + mc::dec((double)rel));
	}
	if(fresh[0] != 1.0) fail("memo", "n=0", "factorial_inaccurate", "0! = " + mc::dec(fresh[0]));
	double d;
	FactorialList = {1.0};
	if(!mc::library_exits([&]() { d = Factorial(171); })) fail("memo", "n=171", "overflow_not_rejected", "Factorial(171) returned " + mc::dec(d));
	if(FactorialList.size() != 1) fail("memo", "n=171", "memo_corrupted", "rejected request changed the memo");
	FactorialList = {1.0};
	mc::count("states", states);
	mc::count("transitions", tr);
	mc::count("evaluations", tr);
	mc::count("distinct_nontrivial", states > 0 ? states - 1 : 0);
	mc::alphabet("memo_letters", 171 + bl.size());
	mc::sample("memo state of length 37 (reached by Factorial(36)) : Factorial(n) for all n<=170 and 144 Binomial_Coefficient letters compared bitwise with a fresh memo");
}

// ---- binomial coefficients ------------------------------------------------------------------------------------------
static void binomials(unsigned long long& unit)
{
	int NMAX = 400;
	std::vector<std::vector<ld>> pas(NMAX + 1);
	for(int n = 0; n <= NMAX; n++)
	{
		pas[n].assign(n + 1, 1);
		for(int k = 1; k < n; k++) pas[n][k] = pas[n - 1][k - 1] + pas[n - 1][k];
	}
	long long cases = 0;
	for(int n = 0; n <= NMAX; n++)
	{
		if(!mc::mine(unit++)) continue;
		for(int k = 0; k <= n; k++)
		{
			double v = Binomial_Coefficient(n, k);
			cases++;
			std::string key = "n=" + std::to_string(n) + ",k=" + std::to_string(k);
			ld refv = pas[n][k];
			ld tol	= n <= 170 ? (n + 4) * (ld)U_ * refv : 48 * (ld)U_ * lgammal(n + 1.0L) * refv;
			if(n <= 170 && refv * (n + 4) * U_ < 0.5L) tol = 0;	  // exact integer expected
			if(!(fabsl(v - refv) <= tol)) fail("binomial", key, "value_wrong", "Binomial_Coefficient = " + mc::dec(v) + " reference " + mc::dec((double)refv) + " tol " + mc::dec((double)tol));
			else if(tol > 0) mc::maxi("binomial_err_over_tol", (double)(fabsl(v - refv) / tol));
			double sym = Binomial_Coefficient(n, n - k);
			if(!(fabsl(sym - v) <= 2 * tol)) fail("binomial", key, "not_symmetric", "C(n,k) = " + mc::dec(v) + " C(n,n-k) = " + mc::dec(sym));
			if(n >= 1 && k >= 1 && k < n)
			{
				double s = Binomial_Coefficient(n - 1, k - 1) + Binomial_Coefficient(n - 1, k);
				if(!(fabsl(s - v) <= 3 * tol)) fail("binomial", key, "pascal_rule_violated", "C(n,k) = " + mc::dec(v) + " C(n-1,k-1)+C(n-1,k) = " + mc::dec(s));
			}
		}
		if(Binomial_Coefficient(n, n + 1) != 0.0) fail("binomial", "n=" + std::to_string(n) + ",k=n+1", "value_wrong", "k>n must give 0");
	}
	mc::count("binomial_cases", cases);
	mc::count("evaluations", cases);
	mc::count("distinct_nontrivial", cases);
}

// ---- GammaLn / Gamma ------------------------------------------------------------------------------------------------
static void gamma_grid(unsigned long long& unit)
{
	std::vector<double> xs;
	for(int k = 1; k <= 1600; k++) xs.push_back(k / 8.0);
	for(int k = 0; k <= 40; k++) xs.push_back(170.0 + k * 0.04);	 // up to the overflow point of Gamma
	for(int k = 0; k <= 400; k++) xs.push_back(std::pow(10.0, -6 + k / 40.0));
	// the whole positive range: tiny arguments (Gamma ~ 1/x - gamma_E) and huge ones (Stirling regime)
	for(int k = 0; k <= 1176; k++) xs.push_back(std::pow(10.0, -300 + k / 4.0));	  // 1e-300 .. 1e-6
	for(int k = 0; k <= 80; k++) xs.push_back(std::pow(10.0, -12 + k / 20.0));		  // dense in 1e-12 .. 1e-8
	for(int k = 17; k <= 1200; k++) xs.push_back(std::pow(10.0, k / 4.0));			  // 1.8e4 .. 1e300
	long long cases = 0;
	for(size_t i = 0; i < xs.size(); i++)
	{
		if(!mc::mine(unit++)) continue;
		double x = xs[i];
		ld refv	 = lgammal((ld)x);
		double v = GammaLn(x);
		cases++;
		std::string key = "x=" + mc::dec(x);
		ld tol = 16 * (ld)U_ * std::max((ld)1, fabsl(refv));
		if(!(fabsl(v - refv) <= tol)) fail("gammaln", key, "gammaln_inaccurate", "GammaLn = " + mc::dec(v) + " reference " + mc::dec((double)refv) + " error/u = " + mc::dec((double)(fabsl(v - refv) / U_ / std::max((ld)1, fabsl(refv)))));
		else mc::maxi("gammaln_err_in_u", (double)(fabsl(v - refv) / U_ / std::max((ld)1, fabsl(refv))), key);
		if(x <= 171.6)	 // Gamma is finite up to 171.62
		{
			double g = Gamma(x);
			ld amp = 32 * (ld)U_ * (1 + std::max(fabsl(lgammal((ld)x + 1)), fabsl(refv)));	// Gamma = exp(GammaLn): the rounding of the logarithm is amplified by its size
			ld gr = expl(refv);
			if(!std::isfinite(g) || !(fabsl(g - gr) <= amp * gr)) fail("gammaln", key, "gamma_inaccurate", "Gamma = " + mc::dec(g) + " reference " + mc::dec((double)gr));
			if(x + 1 <= 171.6)
			{
				double g1 = Gamma(x + 1);
				if(!std::isfinite(g1) || !(fabsl(g1 - (ld)x * g) <= amp * fabsl(g1))) fail("gammaln", key, "gamma_recurrence_violated", "Gamma(x+1) = " + mc::dec(g1) + " x*Gamma(x) = " + mc::dec(x * g));
			}
		}
	}
	mc::count("gamma_points", cases);
	mc::count("evaluations", cases);
	mc::count("distinct_nontrivial", cases);
}

// ---- P and Q ----------------------------------------------------------------------------------------------------------
static std::vector<double> a_grid()
{
	std::vector<double> as;
	int na = mc::thorough() ? 1000 : 40;
	for(int i = 0; i < na; i++) as.push_back(std::pow(10.0, -3 + 7.0 * i / (na - 1)));	// 1e-3 .. 1e4
	for(double d : {1e-9, 1e-3, 0.5}) { as.push_back(100 - d); as.push_back(100 + d); }
	as.push_back(100);
	as.push_back(1);
	as.push_back(0.5);
	// integers and their immediate neighbourhood (a test "is a an integer?" with a tolerance would lump these together)
	for(double k : {1.0, 2.0, 3.0, 5.0, 10.0, 30.0, 31.0})
		for(double d : {0.0, 5e-11, -5e-11, 1e-12, -1e-12, 3e-9})
			as.push_back(k * (1 + d));
	// whole-number shapes over the whole range (also passed as int and unsigned values below: the Poisson CDF does that)
	for(double k : {4.0, 20.0, 99.0, 101.0, 170.0, 171.0, 400.0, 700.0, 800.0, 1500.0, 5000.0}) as.push_back(k);
	std::sort(as.begin(), as.end());
	return as;
}

static void incomplete(unsigned long long& unit)
{
	auto as = a_grid();
	int nx	= mc::thorough() ? 4000 : 200;
	mc::alphabet("a_values", as.size());
	mc::alphabet("x_values_per_a", nx + 10);
	long long cases = 0, unresolved = 0;
	for(double a : as)
	{
		if(!mc::mine(unit++)) continue;
		if(mc::out_of_time("C06 incomplete gamma")) return;
		double xmax = a + 40 * std::sqrt(a) + 40;
		std::vector<double> xs;
		for(int i = 0; i <= nx; i++) xs.push_back(xmax * i / nx);
		for(double d : {1e-9, 1e-3, 0.5}) { xs.push_back(a + 1 - d); xs.push_back(a + 1 + d); }
		xs.push_back(a + 1);
		std::sort(xs.begin(), xs.end());
		double acc = a <= 100 ? 1e-12 : 1e-3;
		double prevQ = 2;
		double gam	 = a <= 170 ? Gamma(a) : 0;
		for(double x : xs)
		{
			if(x < 0) continue;
			std::string key = "a=" + mc::dec(a) + ",x=" + mc::dec(x);
			double Q = 0, P = 0;
			if(mc::library_exits([&]() { Q = GammaQ(x, a); P = GammaP(x, a); })) { fail("incomplete", key, "terminated_process", "valid arguments ended the process"); continue; }
			cases++;
			ref::PQ r = ref::gammaPQ(a, x);
			if(!r.resolved) { unresolved++; continue; }
			if(!(P >= -acc && P <= 1 + acc && Q >= -acc && Q <= 1 + acc) || !(a > 100 || (P >= 0 && P <= 1 && Q >= 0 && Q <= 1))) fail("incomplete", key, "outside_unit_interval", "P = " + mc::dec(P) + " Q = " + mc::dec(Q));
			if(!(std::fabs(P + Q - 1) <= 2 * U_)) fail("incomplete", key, "P_plus_Q_not_one", "P+Q-1 = " + mc::dec(P + Q - 1));
			if(!(std::fabs(Q - (double)r.Q) <= acc)) fail("incomplete", key, "Q_vs_reference", "GammaQ = " + mc::dec(Q) + " reference " + mc::dec((double)r.Q) + " (accuracy " + mc::dec(acc) + ")");
			else mc::maxi(a <= 100 ? "Q_err_over_1e-12_a_le_100" : "Q_err_over_1e-3_a_gt_100", std::fabs(Q - (double)r.Q) / acc, key);
			if(!(std::fabs(P - (double)r.P) <= acc)) fail("incomplete", key, "P_vs_reference", "GammaP = " + mc::dec(P) + " reference " + mc::dec((double)r.P));
			if(!(Q <= prevQ + 2 * acc)) fail("incomplete", key, "Q_not_monotone_in_x", "Q increased from " + mc::dec(prevQ) + " to " + mc::dec(Q));
			prevQ = Q;
			// a whole-number shape written as an int or an unsigned value is the same shape
			if(a == std::floor(a) && a >= 1 && a < 1e9)
			{
				double Qi = GammaQ(x, (int)a), Qu = GammaQ(x, (unsigned int)a), Pi = GammaP(x, (int)a), Pu = GammaP(x, (unsigned int)a);
				if(!(std::fabs(Qi - (double)r.Q) <= acc && std::fabs(Qu - (double)r.Q) <= acc && std::fabs(Pi - (double)r.P) <= acc && std::fabs(Pu - (double)r.P) <= acc))
					fail("incomplete", key, "integer_typed_shape_vs_reference", "GammaQ(x,int) = " + mc::dec(Qi) + " GammaQ(x,unsigned) = " + mc::dec(Qu) + " GammaP(x,int) = " + mc::dec(Pi) + " GammaP(x,unsigned) = " + mc::dec(Pu) + " reference Q " + mc::dec((double)r.Q));
			}
			if(a <= 170 && gam > 0 && std::isfinite(gam))
			{
				double up = Upper_Incomplete_Gamma(x, a), lo = Lower_Incomplete_Gamma(x, a);
				if(!(std::fabs(up + lo - gam) <= 4 * U_ * gam + acc * gam * 0)) fail("incomplete", key, "upper_plus_lower_not_gamma", "Upper+Lower = " + mc::dec(up + lo) + " Gamma = " + mc::dec(gam));
			}
		}
		if(a == 100) mc::sample("a=100: " + std::to_string(xs.size()) + " x values in [0," + mc::dec(xmax) + "] incl. both sides of x=a+1; P,Q vs series and Lentz references");
	}
	mc::count("incomplete_gamma_points", cases);
	mc::count("reference_unresolved", unresolved);
	mc::count("evaluations", cases);
	mc::count("distinct_nontrivial", cases);
}

static void inverses(unsigned long long& unit)
{
	auto as = a_grid();
	std::vector<double> ps;
	for(int k = 1; k <= 12; k++) { ps.push_back(std::pow(10.0, -k)); ps.push_back(1 - std::pow(10.0, -k)); }
	for(int k = 1; k <= 36; k++) ps.push_back(k / 37.0);
	std::sort(ps.begin(), ps.end());
	mc::alphabet("p_values", ps.size());
	long long cases = 0;
	for(double a : as)
	{
		if(!mc::mine(unit++)) continue;
		if(mc::out_of_time("C06 inverses")) return;
		double acc = a <= 100 ? 1e-7 : 1e-3;
		for(double p : ps)
		{
			std::string key = "a=" + mc::dec(a) + ",p=" + mc::dec(p);
			// domain: the solution x* ~ (p*Gamma(a+1))^(1/a) must be representable as a normal double; for tiny a and
			// small p it lies (far) below DBL_MIN, where no double satisfies P(x,a)=p to 1e-7 -- excluded and counted
			if((logl((ld)p) + lgammal((ld)a + 1)) / a < logl(2.3e-308L)) { mc::count("inverse_cases_solution_below_normal_range_excluded", 1); continue; }
			double x = 0, xq = 0;
			if(mc::library_exits([&]() { x = Inv_GammaP(p, a); xq = Inv_GammaQ(1 - p, a); })) { fail("inverse", key, "terminated_process", "valid arguments ended the process"); continue; }
			cases++;
			double x2 = Inv_GammaP(1.0 - (1.0 - p), a);
			if(!mc::same_bits(xq, x2)) fail("inverse", key, "InvQ_not_InvP_of_complement", "Inv_GammaQ(1-p) = " + mc::dec(xq) + " Inv_GammaP(1-(1-p)) = " + mc::dec(x2));
			if(!(x >= 0) || !std::isfinite(x)) { fail("inverse", key, "not_a_valid_argument", "Inv_GammaP = " + mc::dec(x)); continue; }
			ref::PQ r = ref::gammaPQ(a, x);
			if(!r.resolved) { mc::count("reference_unresolved", 1); continue; }
			if(!(fabsl(r.P - p) <= acc)) fail("inverse", key, "P_of_inverse_not_p", "P(Inv_GammaP(p,a),a) = " + mc::dec((double)r.P) + " (x = " + mc::dec(x) + ")");
			else mc::maxi(a <= 100 ? "inverse_err_over_1e-7" : "inverse_err_over_1e-3", (double)(fabsl(r.P - p) / acc), key);
		}
	}
	mc::count("inverse_cases", cases);
	mc::count("evaluations", cases);
	mc::count("distinct_nontrivial", cases);
}

// ---- call histories over the whole family (the factorial memo is the one piece of state the library documents) ----------------------
static void histories(unsigned long long& unit)
{
	std::vector<mc::PureLetter> L;
	for(unsigned n : {0u, 5u, 20u, 170u}) L.push_back({"Factorial(" + std::to_string(n) + ")", [n]() { return mc::hexd(Factorial(n)); }});
	for(auto nk : std::vector<std::pair<int, int>>{{10, 3}, {171, 5}, {400, 200}, {60, 30}}) L.push_back({"Binomial(" + std::to_string(nk.first) + "," + std::to_string(nk.second) + ")", [nk]() { return mc::hexd(Binomial_Coefficient(nk.first, nk.second)); }});
	for(double x : {1e-9, 0.5, 7.25, 171.5, 1e6}) L.push_back({"GammaLn(" + mc::dec(x) + ")", [x]() { return mc::hexd(GammaLn(x)); }});
	for(double x : {0.5, 7.25}) L.push_back({"Gamma(" + mc::dec(x) + ")", [x]() { return mc::hexd(Gamma(x)); }});
	for(auto xa : std::vector<std::pair<double, double>>{{0.3, 2.5}, {3.6, 2.5}, {99.0, 100.0}, {140.0, 120.5}, {0.0, 1.0}, {1e-3, 0.01}})
	{
		std::string a = "(" + mc::dec(xa.first) + "," + mc::dec(xa.second) + ")";
		L.push_back({"GammaP" + a, [xa]() { return mc::hexd(GammaP(xa.first, xa.second)); }});
		L.push_back({"GammaQ" + a, [xa]() { return mc::hexd(GammaQ(xa.first, xa.second)); }});
	}
	L.push_back({"Upper_Incomplete_Gamma(2,3.5)", []() { return mc::hexd(Upper_Incomplete_Gamma(2.0, 3.5)); }});
	L.push_back({"Lower_Incomplete_Gamma(2,3.5)", []() { return mc::hexd(Lower_Incomplete_Gamma(2.0, 3.5)); }});
	for(auto pa : std::vector<std::pair<double, double>>{{0.3, 2.5}, {1e-6, 0.7}, {0.999, 40.0}, {0.5, 1.0}})
	{
		std::string a = "(" + mc::dec(pa.first) + "," + mc::dec(pa.second) + ")";
		L.push_back({"Inv_GammaP" + a, [pa]() { return mc::hexd(Inv_GammaP(pa.first, pa.second)); }});
		L.push_back({"Inv_GammaQ" + a, [pa]() { return mc::hexd(Inv_GammaQ(pa.first, pa.second)); }});
	}
	long long t = mc::purity("histories", L, mc::thorough() ? 3 : 2, unit);
	mc::count("evaluations", t);
	mc::count("distinct_nontrivial", t);
}

int main(int argc, char** argv)
{
	mc::init(argc, argv);
	if(mc::ctx().replay) { printf("%s\n(no single-case replay for this part; use ./vcheck --replay <file>, which re-runs the enumeration for this key)\n", mc::ctx().replay_case.c_str()); return 0; }
	silence();
	mc::bound("rule", "M1: every reachable state of the global factorial memo (171 lengths) x every letter (171 Factorial + 144 Binomial_Coefficient calls), oracle = fresh memo; M3: all 0<=k<=n<=400, GammaLn/Gamma on 4443 points from 1e-300 to 1e300, P/Q on an (a,x) grid with both sides of x=a+1 and a=100, inverses on 60 probabilities x the a grid; references: Pascal triangle, lgammal, positive series + Lentz continued fraction (must agree)");
	unsigned long long unit = 0;
	if(mc::shard0()) memo_bfs();
	binomials(unit);
	gamma_grid(unit);
	incomplete(unit);
	inverses(unit);
	histories(unit);
	return mc::finish();
}
