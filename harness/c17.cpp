// C17 — Scalar special functions and vector spherical harmonics match their definitions.
// M3: complete grids / complete enumerations (all d-digit mantissas x all decimal exponents for Round; all (l,m), l<=12).
#include "mc/mc.hpp"
#include "mc/exit_trap.hpp"
#include "mc/purity.hpp"
#include "libphysica/Special_Functions.hpp"
#include <complex>
using namespace libphysica;
typedef long double ld;
typedef std::complex<double> cd;

static void fail(const std::string& part, const std::string& key, const std::string& cls, const std::string& text) { mc::violation(part, part + "|" + key + "|" + cls, text, part + " " + key); }
static void silence()
{
	int fd = open("/dev/null", O_WRONLY);
	dup2(fd, 1);
	dup2(fd, 2);
}
static long long g_cases = 0;

// Dawson's integral by composite Gauss-Legendre of exp(t^2-x^2) on [0,x] (long double)
static ld dawson_ref(ld x)
{
	static std::vector<ld> gx, gw;
	if(gx.empty())
	{
		int n = 24;
		gx.resize(n); gw.resize(n);
		for(int i = 0; i < n; i++)
		{
			ld z = cosl(M_PIl * (i + 0.75L) / (n + 0.5L)), pp = 0;
			for(int it = 0; it < 100; it++)
			{
				ld p1 = 1, p2 = 0;
				for(int j = 0; j < n; j++) { ld p3 = p2; p2 = p1; p1 = ((2 * j + 1) * z * p2 - j * p3) / (j + 1); }
				pp	  = n * (z * p1 - p2) / (z * z - 1);
				ld dz = p1 / pp;
				z -= dz;
				if(fabsl(dz) < 1e-19L) break;
			}
			gx[i] = z; gw[i] = 2 / ((1 - z * z) * pp * pp);
		}
	}
	ld ax = fabsl(x), s = 0;
	int panels = std::max(1, (int)ceill(ax / 0.25L));
	for(int p = 0; p < panels; p++)
	{
		ld a = ax * p / panels, b = ax * (p + 1) / panels, m = (a + b) / 2, h = (b - a) / 2;
		for(size_t i = 0; i < gx.size(); i++) { ld t = m + h * gx[i]; s += gw[i] * h * expl(t * t - ax * ax); }
	}
	return x < 0 ? -s : s;
}
static ld erfinv_ref(ld p)
{
	// Newton in long double on erf (erfc in the tails)
	ld x = 0;
	if(fabsl(p) > 0.9L) x = (p > 0 ? 1 : -1) * sqrtl(-logl(1 - fabsl(p)));
	for(int it = 0; it < 200; it++)
	{
		ld g  = (fabsl(p) < 0.5L) ? erfl(x) - p : (p > 0 ? (1 - p) - erfcl(x) : erfcl(-x) - (1 + p));
		ld d  = 2 / sqrtl(M_PIl) * expl(-x * x);
		ld dx = g / d;
		x -= dx;
		if(fabsl(dx) < 1e-18L * (1 + fabsl(x))) break;
	}
	return x;
}

static void dawson_erfi_inverf(unsigned long long& unit)
{
	std::vector<double> xs;
	for(int k = -1920; k <= 1920; k++) xs.push_back(k / 64.0);
	for(double s : {-1.0, 1.0}) { xs.push_back(s * 0.2); xs.push_back(s * std::nextafter(0.2, 0.0)); xs.push_back(s * std::nextafter(0.2, 1.0)); }
	for(size_t i = 0; i < xs.size(); i++)
	{
		if(!mc::mine(unit++)) continue;
		double x = xs[i], d = Dawson_Integral(x), dm = Dawson_Integral(-x);
		g_cases++;
		std::string key = "x=" + mc::dec(x);
		if(!mc::same_bits(dm, -d) && !(d == 0 && dm == 0)) fail("dawson", key, "not_odd", "F(x) = " + mc::dec(d) + " F(-x) = " + mc::dec(dm));
		ld r = dawson_ref(x);
		if(!(fabsl(d - r) <= 2e-7L)) fail("dawson", key, "dawson_inaccurate", "Dawson_Integral = " + mc::dec(d) + " reference " + mc::dec((double)r));
		else mc::maxi("dawson_abs_err_over_2e-7", (double)(fabsl(d - r) / 2e-7L), key);
		double e = Erfi(x);
		ld er	 = 2 / sqrtl(M_PIl) * expl((ld)x * x) * r;
		if(fabsl(er) > 1.7e308L) { if(std::isfinite(e)) fail("erfi", key, "erfi_overflow_not_infinite", "Erfi = " + mc::dec(e)); }
		else if(x != 0 && !(fabsl(e - er) <= 1e-6L * fabsl(er))) fail("erfi", key, "erfi_inaccurate", "Erfi = " + mc::dec(e) + " reference " + mc::dec((double)er) + " relative error " + mc::dec((double)(fabsl(e - er) / fabsl(er))));
		else if(x != 0) mc::maxi("erfi_rel_err_over_1e-6", (double)(fabsl(e - er) / fabsl(er) / 1e-6L), key);
	}
	std::vector<double> ps;
	for(int k = -2000; k <= 2000; k++) ps.push_back(k / 2000.5);
	for(int k = 1; k <= 12; k++) { ps.push_back(1 - std::pow(10.0, -k)); ps.push_back(-(1 - std::pow(10.0, -k))); }
	// up to the last doubles below one, and the ends themselves (answered by the saturation value, with the sign of p)
	for(double d : {1e-13, 1e-14, 1e-15, 2.2204460492503131e-16, 1.1102230246251565e-16}) { ps.push_back(1 - d); ps.push_back(-(1 - d)); }
	ps.push_back(1.0);
	ps.push_back(-1.0);
	for(size_t i = 0; i < ps.size(); i++)
	{
		if(!mc::mine(unit++)) continue;
		double p = ps[i], v = 0, vm = 0;
		std::string key = "p=" + mc::dec(p);
		if(mc::library_exits([&]() { v = Inv_Erf(p); vm = Inv_Erf(-p); })) { fail("inverf", key, "terminated_process", "valid argument ended the process"); continue; }
		g_cases++;
		if(!(std::fabs(v + vm) <= 2e-4)) fail("inverf", key, "inv_erf_not_odd", "Inv_Erf(p) = " + mc::dec(v) + " Inv_Erf(-p) = " + mc::dec(vm));
		if(std::fabs(p) > 1 - 1e-12)
		{
			// beyond 1-1e-12 one ulp of p moves erfinv by more than 1e-4: only sign, size and oddness are stated
			if(!(std::isfinite(v) && std::fabs(v) >= 5.0 && (v > 0) == (p > 0))) fail("inverf", key, "inv_erf_end_value", "Inv_Erf(" + mc::dec(p) + ") = " + mc::dec(v));
			continue;
		}
		ld r = erfinv_ref(p);
		if(!(fabsl(v - r) <= 1e-4L)) fail("inverf", key, "inv_erf_inaccurate", "Inv_Erf = " + mc::dec(v) + " erfinv = " + mc::dec((double)r));
		else mc::maxi("inv_erf_err_over_1e-4", (double)(fabsl(v - r) / 1e-4L), key);
	}
}

// ---- Round ---------------------------------------------------------------------------------------------------------------
static void round_block(unsigned d, int e, long long m_lo, long long m_hi, long long step)
{
	// all d-digit mantissas m in [m_lo,m_hi] at decimal exponent e: x = m * 10^(e-d+1); plus neighbours and half-way points
	ld scale = powl(10.0L, e - (int)d + 1);
	double prev_in = 0, prev_out = 0;
	bool have_prev = false;
	for(long long m = m_lo; m <= m_hi; m += step)
	{
		double base = (double)((ld)m * scale);
		double half = (double)(((ld)m + 0.5L) * scale);
		double pts[7] = {std::nextafter(base, 0.0), base, std::nextafter(base, INFINITY), std::nextafter(half, 0.0), half, std::nextafter(half, INFINITY), 0};
		for(int k = 0; k < 6; k++)
		{
			double x = pts[k];
			if(!(x > 0) || !std::isfinite(x) || x < 1e-300) continue;
			double r = Round(x, d);
			g_cases++;
			std::string key = "d=" + std::to_string(d) + ",x=" + mc::hexd(x);
			double rn = Round(-x, d);
			if(!mc::same_bits(rn, -r)) fail("round", key, "not_odd", "Round(x) = " + mc::dec(r) + " Round(-x) = " + mc::dec(rn));
			double rr = Round(r, d);
			if(!mc::same_bits(rr, r)) fail("round", key, "not_idempotent", "Round(x) = " + mc::dec(r) + " Round(Round(x)) = " + mc::dec(rr));
			// half a unit of the d-th significant digit of x
			ld ex	 = floorl(log10l((ld)x));
			if(powl(10.0L, ex + 1) <= (ld)x) ex += 1;
			if(powl(10.0L, ex) > (ld)x) ex -= 1;
			ld unit = powl(10.0L, ex - (int)d + 1);
			// half a unit, plus the rounding of the binary representations of x and of the result (ties within a few ulp may go either way)
			if(!(fabsl((ld)r - x) <= 0.5L * unit + 8 * (ld)mc::U_ * x)) fail("round", key, "not_within_half_unit_of_digit", "Round(" + mc::dec(x) + "," + std::to_string(d) + ") = " + mc::dec(r) + " differs by " + mc::dec((double)(fabsl((ld)r - x) / unit)) + " units of the last kept digit");
			if(have_prev && x >= prev_in && !(r >= prev_out)) fail("round", key, "not_monotone", "Round(" + mc::dec(prev_in) + ") = " + mc::dec(prev_out) + " > Round(" + mc::dec(x) + ") = " + mc::dec(r));
			if(!have_prev || x >= prev_in) { prev_in = x; prev_out = r; have_prev = true; }
		}
	}
}

static void rounding(unsigned long long& unit)
{
	for(unsigned d = 1; d <= 7; d++)
	{
		long long lo = 1, hi = 9;
		for(unsigned k = 1; k < d; k++) { lo *= 10; hi = hi * 10 + 9; }
		for(int e = -299; e <= 299; e++)
		{
			bool full = d <= 3 || (d == 4 && (mc::thorough() || e % 10 == 0)) || (d >= 5 && (e == -5 || e == 0 || e == 17) && (mc::thorough() || d == 5));
			long long step = full ? 1 : 97;
			if(d >= 5 && !full && !mc::thorough() && e % 25) continue;
			// split large mantissa ranges into chunks for sharding
			long long chunk = 100000;
			for(long long a = lo; a <= hi; a += chunk)
			{
				if(!mc::mine(unit++)) continue;
				if(mc::out_of_time("C17 Round")) return;
				long long a0 = a;
				if(step > 1) a0 = a + ((step - (a - lo) % step) % step);
				round_block(d, e, a0, std::min(hi, a + chunk - 1), step);
			}
		}
	}
	if(mc::shard0())
	{
		g_cases++;
		if(Round(0.0, 3) != 0.0 || Round(-0.0, 3) != 0.0) fail("round", "x=0", "zero", "Round(0) is not 0");
		Vector v({123.456, -0.0012345, 0.0});
		Vector rv = Round(v, 2);
		Matrix M(std::vector<std::vector<double>>{{123.456, -0.0012345}, {9.99, 1e10}});
		Matrix rm = Round(M, 2);
		bool ok = true;
		for(int i = 0; i < 3; i++) if(!mc::same_bits(rv[i], Round(v[i], 2))) ok = false;
		for(int i = 0; i < 2; i++) for(int j = 0; j < 2; j++) if(!mc::same_bits(rm[i][j], Round(M[i][j], 2))) ok = false;
		if(!ok) fail("round", "vector_matrix_overloads", "overload_differs_from_scalar", "Round(Vector/Matrix) is not element-wise Round");
		// every shape 1..4 x 1..4 (and vectors of size 1..5), every digits 1..7: the overloads are element-wise Round
		const double vals[] = {123.456789, -0.00123456789, 9.9951, 1e10 + 7, -5.5e-20, 0.0, 77777.77, -1.0};
		for(unsigned d = 1; d <= 7; d++)
		{
			for(int n = 1; n <= 5; n++)
			{
				std::vector<double> e(n);
				for(int i = 0; i < n; i++) e[i] = vals[(i * 3 + d) % 8];
				Vector w(e), rw;
				g_cases++;
				if(mc::library_exits([&]() { rw = Round(w, d); })) { fail("round", "Vector,n=" + std::to_string(n), "terminated_process", "Round(Vector) ended the process"); continue; }
				bool o2 = rw.Size() == (unsigned)n;
				for(int i = 0; o2 && i < n; i++) o2 = mc::same_bits(rw[i], Round(e[i], d));
				if(!o2) fail("round", "Vector,n=" + std::to_string(n) + ",digits=" + std::to_string(d), "overload_differs_from_scalar", "Round(Vector) is not element-wise Round");
			}
			for(int r = 1; r <= 4; r++)
				for(int c = 1; c <= 4; c++)
				{
					std::vector<std::vector<double>> e(r, std::vector<double>(c));
					for(int i = 0; i < r; i++)
						for(int j = 0; j < c; j++) e[i][j] = vals[(i * 5 + j * 3 + d) % 8];
					Matrix A(e), RA;
					g_cases++;
					std::string key = "Matrix," + std::to_string(r) + "x" + std::to_string(c) + ",digits=" + std::to_string(d);
					if(mc::library_exits([&]() { RA = Round(A, d); })) { fail("round", key, "terminated_process", "Round(Matrix) ended the process"); continue; }
					bool o3 = RA.Rows() == (unsigned)r && RA.Columns() == (unsigned)c;
					for(int i = 0; o3 && i < r; i++)
						for(int j = 0; j < c; j++) if(!mc::same_bits(RA[i][j], Round(e[i][j], d))) o3 = false;
					if(!o3) fail("round", key, "overload_differs_from_scalar", "Round(Matrix) is not element-wise Round");
				}
		}
	}
}

// ---- Sign, StepFunction, Relative_Difference, Floats_Equal --------------------------------------------------------------
static void simple_functions()
{
	std::vector<double> A;
	for(double v : {0.0, 5e-324, 1e-300, 1.0, 1.0 + 2.220446049250313e-16, 1e300}) { A.push_back(v); A.push_back(-v); }
	for(double a : A)
	{
		g_cases++;
		std::string key = "a=" + mc::hexd(a);
		int s = Sign(a);
		if(s != (a > 0) - (a < 0)) fail("simple", key, "sign_wrong", "Sign = " + std::to_string(s));
		if(Sign(-a) != -s) fail("simple", key, "sign_not_odd", "Sign(-a) != -Sign(a)");
		if(StepFunction(a) != (a >= 0 ? 1.0 : 0.0)) fail("simple", key, "step_function_wrong", "StepFunction = " + mc::dec(StepFunction(a)));
		if(!Floats_Equal(a, a)) fail("simple", key, "floats_equal_not_reflexive", "Floats_Equal(a,a) is false");
		if(Relative_Difference(a, a) != 0.0) fail("simple", key, "relative_difference_of_equal_not_zero", "Relative_Difference(a,a) = " + mc::dec(Relative_Difference(a, a)));
		for(double b : A)
		{
			g_cases++;
			std::string k2 = key + ",b=" + mc::hexd(b);
			double r1 = Relative_Difference(a, b), r2 = Relative_Difference(b, a);
			if(!mc::same_bits(r1, r2)) fail("simple", k2, "relative_difference_not_symmetric", mc::dec(r1) + " vs " + mc::dec(r2));
			if(!(r1 >= 0 && r1 <= 2.0000001) && !std::isnan(r1) == true) fail("simple", k2, "relative_difference_out_of_range", mc::dec(r1));
			if(std::isnan(r1)) fail("simple", k2, "relative_difference_nan", "NaN for finite arguments");
			if((r1 == 0) != (a == b)) fail("simple", k2, "relative_difference_zero_iff_equal", "Relative_Difference = " + mc::dec(r1));
			if(Floats_Equal(a, b) != Floats_Equal(b, a)) fail("simple", k2, "floats_equal_not_symmetric", "asymmetric");
			for(double tol : {1e-10, 0.5, 3.0})
				if(Floats_Equal(a, b, tol) != (r1 < tol)) fail("simple", k2, "floats_equal_inconsistent_with_relative_difference", "tol=" + mc::dec(tol));
			if(b != 0)
			{
				double sx = Sign(a, b);
				if(std::fabs(sx) != std::fabs(a) || (a != 0 && (sx > 0) != (b > 0))) fail("simple", k2, "sign_transfer_wrong", "Sign(a,b) = " + mc::dec(sx));
			}
		}
	}
}

// ---- harmonics ------------------------------------------------------------------------------------------------------------
static void harmonics(unsigned long long& unit)
{
	struct Dir { double th, ph; };
	std::vector<Dir> dirs;
	for(double ph : {0.0, 1.0}) { dirs.push_back({0.0, ph}); dirs.push_back({M_PI, ph}); }
	for(double ph : {0.0, M_PI / 2, M_PI, 3 * M_PI / 2, 0.7}) dirs.push_back({M_PI / 2, ph});
	for(int i = 1; i <= 8; i++)
		for(int j = 0; j < 16; j++) dirs.push_back({M_PI * i / 9.0, 2 * M_PI * j / 16.0 + 0.05});
	for(double th : {1e-3, M_PI - 1e-3, 1e-6}) dirs.push_back({th, 2.2});
	// next to the poles, where cos(theta) rounds to +-1 although sin(theta) does not vanish
	for(double th : {1e-7, 3e-8, 1e-8, 5e-9, 1e-9, 1e-12, 1e-100, M_PI - 1e-7, M_PI - 1.2e-8, M_PI - 1e-9})
		for(double ph : {0.4, 2.2, 5.0}) dirs.push_back({th, ph});
	if(mc::shard0()) mc::alphabet("directions", dirs.size());
	// Unsoeld's theorem: sum_m |Y_lm|^2 = (2l+1)/(4 pi) in every direction (fixes the normalisation of the scalar harmonics)
	if(mc::mine(unit++))
		for(int l = 0; l <= 12; l++)
			for(auto& d : dirs)
			{
				long double sum = 0;
				for(int m = -l; m <= l; m++) sum += std::norm(Spherical_Harmonics(l, m, d.th, d.ph));
				g_cases++;
				long double want = (2 * l + 1) / (4 * M_PIl);
				if(!(fabsl(sum - want) <= 1e-13L * (2 * l + 1))) fail("harmonics", "l=" + std::to_string(l) + ",theta=" + mc::dec(d.th) + ",phi=" + mc::dec(d.ph), "unsoeld_sum_rule_violated", "sum_m |Y_lm|^2 = " + mc::dec((double)sum) + " expected " + mc::dec((double)want));
			}
	for(int l = 0; l <= 12; l++)
		for(int m = -l; m <= l; m++)
		{
			if(!mc::mine(unit++)) continue;
			for(auto& d : dirs)
			{
				g_cases++;
				std::string key = "l=" + std::to_string(l) + ",m=" + std::to_string(m) + ",theta=" + mc::dec(d.th) + ",phi=" + mc::dec(d.ph);
				cd Y = Spherical_Harmonics(l, m, d.th, d.ph), Ym = Spherical_Harmonics(l, -m, d.th, d.ph);
				cd want = (m % 2 ? -1.0 : 1.0) * std::conj(Y);
				double tol = 1e-12 * (l + 1);
				if(!(std::abs(Ym - want) <= tol * (1 + std::abs(Y)))) fail("harmonics", key, "conjugation_symmetry_violated", "Y_{l,-m} = (" + mc::dec(Ym.real()) + "," + mc::dec(Ym.imag()) + ") expected (" + mc::dec(want.real()) + "," + mc::dec(want.imag()) + ")");
				double st = std::sin(d.th), ct = std::cos(d.th), sp = std::sin(d.ph), cp = std::cos(d.ph);
				double rh[3] = {st * cp, st * sp, ct}, th[3] = {ct * cp, ct * sp, -st}, ph[3] = {-sp, cp, 0};
				std::vector<cd> VY, VP;
				if(mc::library_exits([&]() { VY = Vector_Spherical_Harmonics_Y(l, m, d.th, d.ph); VP = Vector_Spherical_Harmonics_Psi(l, m, d.th, d.ph); })) { fail("harmonics", key, "terminated_process", "valid (l,m) ended the process"); continue; }
				double ey = 0;
				cd dot = 0;
				for(int k = 0; k < 3; k++) { ey = std::max(ey, std::abs(VY[k] - rh[k] * Y)); dot += VP[k] * rh[k]; }
				if(!(ey <= tol)) fail("harmonics", key, "vector_Y_not_radial_times_Y", "max component deviation " + mc::dec(ey));
				else mc::maxi("vshY_err_over_tol", ey / tol, key);
				if(!(std::abs(dot) <= tol * (l + 1))) fail("harmonics", key, "psi_not_tangential", "|Psi . r| = " + mc::dec(std::abs(dot)));
				// Psi = theta^ dY/dtheta + phi^ (i m / sin theta) Y, dY/dtheta from the ladder relation
				if(st > 1e-7)
				{
					cd Yp	= (m + 1 <= l) ? Spherical_Harmonics(l, m + 1, d.th, d.ph) : cd(0, 0);
					cd dYdt = (double)m * (ct / st) * Y + std::sqrt((double)(l - m) * (l + m + 1)) * std::exp(cd(0, -d.ph)) * Yp;
					cd az	= cd(0, m) / st * Y;
					double ep = 0;
					for(int k = 0; k < 3; k++) ep = std::max(ep, std::abs(VP[k] - (th[k] * dYdt + ph[k] * az)));
					double tp = tol * (l + 1) / std::min(1.0, st) * (1 + std::abs(Y));
					if(!(ep <= tp)) fail("harmonics", key, "psi_not_r_times_gradient_of_Y", "max component deviation " + mc::dec(ep) + " tol " + mc::dec(tp));
					else mc::maxi("psi_err_over_tol", ep / tp, key);
				}
				else
				{
					// at a pole the polar formula is singular but the field (a smooth tangent vector field; non-zero there for |m| = 1) is not:
					// the value at the pole is the limit along the meridian
					double thn = d.th < 1 ? 1e-5 : M_PI - 1e-5;
					std::vector<cd> VN = Vector_Spherical_Harmonics_Psi(l, m, thn, d.ph);
					double ep = 0, sc = 0;
					for(int k = 0; k < 3; k++) { ep = std::max(ep, std::abs(VP[k] - VN[k])); sc = std::max(sc, std::abs(VN[k])); }
					double tp = 3e-5 * (l + 1) * (l + 1) * (1 + sc) + 1e-9;
					if(!(ep <= tp)) fail("harmonics", key, "psi_discontinuous_at_the_pole", "Psi at the pole differs by " + mc::dec(ep) + " from Psi 1e-5 away on the same meridian (field size " + mc::dec(sc) + ")");
				}
			}
		}
}

// ---- call histories: every function of this property is a function of its arguments only ---------------------------------------
static void histories(unsigned long long& unit)
{
	auto cx = [](std::complex<double> z) { return mc::hexd(z.real()) + "," + mc::hexd(z.imag()); };
	auto cv = [&](const std::vector<std::complex<double>>& v) { std::string o; for(auto& z : v) o += cx(z) + ";"; return o; };
	std::vector<mc::PureLetter> L;
	for(double x : {0.1, 0.19, 0.21, 1.5, 6.3, -2.2, 26.7}) L.push_back({"Dawson_Integral(" + mc::dec(x) + ")", [x]() { return mc::hexd(Dawson_Integral(x)); }});
	for(double x : {0.15, 3.0, -26.7}) L.push_back({"Erfi(" + mc::dec(x) + ")", [x]() { return mc::hexd(Erfi(x)); }});
	for(double p : {0.3, -0.9, 0.999999, 1e-5}) L.push_back({"Inv_Erf(" + mc::dec(p) + ")", [p]() { return mc::hexd(Inv_Erf(p)); }});
	L.push_back({"Round(123456.789,3)", []() { return mc::hexd(Round(123456.789, 3)); }});
	L.push_back({"Round(-0.00012345,2)", []() { return mc::hexd(Round(-0.00012345, 2)); }});
	L.push_back({"Round(9.995e10,3)", []() { return mc::hexd(Round(9.995e10, 3)); }});
	L.push_back({"Round(2.5,1)", []() { return mc::hexd(Round(2.5, 1)); }});
	L.push_back({"Floats_Equal(1,1+1e-9,1e-8)", []() { return std::to_string(Floats_Equal(1.0, 1 + 1e-9, 1e-8)); }});
	L.push_back({"Relative_Difference(3,-5)", []() { return mc::hexd(Relative_Difference(3.0, -5.0)); }});
	for(auto lm : std::vector<std::pair<int, int>>{{0, 0}, {1, 1}, {2, -1}, {5, 3}, {5, -3}, {12, 12}})
	{
		int l = lm.first, m = lm.second;
		std::string a = "(" + std::to_string(l) + "," + std::to_string(m) + ",0.7,2.1)";
		L.push_back({"Spherical_Harmonics" + a, [=]() { return cx(Spherical_Harmonics(l, m, 0.7, 2.1)); }});
		L.push_back({"VSH_Y" + a, [=]() { return cv(Vector_Spherical_Harmonics_Y(l, m, 0.7, 2.1)); }});
		L.push_back({"VSH_Psi" + a, [=]() { return cv(Vector_Spherical_Harmonics_Psi(l, m, 0.7, 2.1)); }});
	}
	g_cases += mc::purity("histories", L, mc::thorough() ? 3 : 2, unit);
}

int main(int argc, char** argv)
{
	mc::init(argc, argv);
	if(mc::ctx().replay) { printf("%s\n(no single-case replay for this part; use ./vcheck --replay <file>, which re-runs the enumeration for this key)\n", mc::ctx().replay_case.c_str()); return 0; }
	silence();
	mc::bound("rule", "Dawson/Erfi on {k/64: |k|<=1920} and both sides of |x|=0.2; Inv_Erf on 4001 points and +-(1-10^-k), k<=12; Round: every d-digit mantissa (d<=3 all exponents -299..299; d=4 all exponents in thorough, every tenth in quick; d=5..7 at exponents {-5,0,17}) each with its nextafter neighbours and the half-way point +-1 ulp; all pairs of a 12-value alphabet for Sign/StepFunction/Relative_Difference/Floats_Equal; all (l,m) with l<=12 x 144 directions");
	unsigned long long unit = 0;
	dawson_erfi_inverf(unit);
	if(mc::shard0()) simple_functions();
	harmonics(unit);
	rounding(unit);
	histories(unit);
	mc::count("evaluations", g_cases);
	mc::count("distinct_nontrivial", g_cases);
	if(mc::shard0()) mc::sample("Round(x,3) for x = 9995*10^-3-ulp, 9.995, 9.995+ulp: odd, idempotent, monotone, within half a unit of the third digit; Vector_Spherical_Harmonics_Psi(7,-3,theta,phi) vs theta^ dY/dtheta + phi^ (im/sin theta) Y");
	return mc::finish();
}
