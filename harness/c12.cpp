// C12 — Gauss-Legendre rules are valid quadrature rules of every order on every interval.
// M3: all orders n = 1..N (complete), x a fixed interval alphabet incl. reversed and far-from-origin intervals.
#include "mc/mc.hpp"
#include <set>
#include "mc/exit_trap.hpp"
#include "libphysica/Integration.hpp"
using namespace libphysica;
typedef long double ld;
using mc::U_;

static void fail(const std::string& key, const std::string& cls, const std::string& text) { mc::violation("rule", "rule|" + key + "|" + cls, text, key); }

// long-double reference nodes (ascending in z) and weights on [-1,1]
static void reference_rule(int n, std::vector<ld>& z, std::vector<ld>& w)
{
	z.assign(n, 0);
	w.assign(n, 0);
	for(int i = 0; i < (n + 1) / 2; i++)
	{
		// Tricomi's initial guess (differs from the library's)
		ld x = (1 - (n - 1) / (8.0L * n * n * n)) * cosl(M_PIl * (4 * i + 3) / (4 * n + 2.0L)), pp = 1;
		for(int it = 0; it < 200; it++)
		{
			ld p1 = 1, p2 = 0;
			for(int j = 0; j < n; j++) { ld p3 = p2; p2 = p1; p1 = ((2 * j + 1) * x * p2 - j * p3) / (j + 1); }
			pp	  = n * (x * p1 - p2) / (x * x - 1);
			ld dx = p1 / pp;
			x -= dx;
			if(fabsl(dx) < 1e-19L) break;
		}
		z[n - 1 - i] = x;
		z[i]		 = -x;
		w[i] = w[n - 1 - i] = 2 / ((1 - x * x) * pp * pp);
	}
	if(n % 2) z[n / 2] = 0;
}

static bool g_sparse_orders = false;	// quick tier beyond n = 128: few orders, every one with the overload part
static void check_rule(unsigned n, double a, double b)
{
	std::string key = "n=" + std::to_string(n) + ",a=" + mc::dec(a) + ",b=" + mc::dec(b);
	std::vector<std::vector<double>> R;
	if(mc::library_exits([&]() { R = Compute_Gauss_Legendre_Roots_and_Weights(n, a, b); })) { fail(key, "terminated_process", "valid request ended the process"); return; }
	mc::count("rules", 1);
	if(R.size() != n) { fail(key, "wrong_number_of_nodes", std::to_string(R.size()) + " nodes"); return; }
	double dir = b > a ? 1 : -1, lo = std::min(a, b), hi = std::max(a, b), len = b - a, mid = 0.5 * (a + b), hw = 0.5 * (b - a);
	double xmax = std::max(std::fabs(a), std::fabs(b));
	double xres = 4 * U_ * xmax;   // resolution of an abscissa
	ld sumw = 0;
	static int ref_n = -1;
	static std::vector<ld> rz, rw;
	if(ref_n != (int)n) { reference_rule(n, rz, rw); ref_n = n; }
	double worst_node = 0, worst_w = 0, l1_weight_error = 0;
	for(unsigned i = 0; i < n; i++)
	{
		double x = R[i][0], w = R[i][1];
		if(R[i].size() != 2) { fail(key, "row_shape", "row without exactly two entries"); return; }
		if(!(x > lo && x < hi)) fail(key, "node_not_strictly_inside", "node " + std::to_string(i) + " = " + mc::dec(x));
		if(i > 0 && !((x - R[i - 1][0]) * dir > 0)) fail(key, "nodes_not_strictly_monotone", "node " + std::to_string(i) + " = " + mc::dec(x) + " after " + mc::dec(R[i - 1][0]));
		if(!(w * dir > 0)) fail(key, "weight_sign_wrong", "weight " + std::to_string(i) + " = " + mc::dec(w));
		if(!(std::fabs((x + R[n - 1 - i][0]) - (a + b)) <= 2 * xres + 4 * U_ * std::fabs(len))) fail(key, "nodes_not_symmetric", "x_i + x_{n-1-i} = " + mc::dec(x + R[n - 1 - i][0]) + " a+b = " + mc::dec(a + b));
		// symmetric to rounding (a weight computed from its own node, not copied from its mirror image, may differ in the last bits:
		// the node is known to xres and the weight depends on it through 1/(1-z^2))
		if(!(std::fabs(w - R[n - 1 - i][1]) <= 64 * (n + 4) * U_ * std::fabs(w))) fail(key, "weights_not_symmetric", "w_i = " + mc::dec(w) + " w_{n-1-i} = " + mc::dec(R[n - 1 - i][1]));
		sumw += w;
		// reference
		ld xr = (ld)mid + (ld)hw * rz[i], wr = (ld)hw * rw[i];
		double en = (double)fabsl(x - xr), ew = (double)fabsl(w - wr);
		// nodes to a few ulp of the half-width (plus the resolution of the abscissa itself); weights carry the O(n) rounding
		// errors of the three-term recurrence through P_n'(z)^2
		double tn = 8 * U_ * std::fabs(hw) + xres;
		l1_weight_error += ew;
		worst_node = std::max(worst_node, en / tn);
		if(!(en <= tn)) fail(key, "node_vs_reference", "node " + std::to_string(i) + " = " + mc::dec(x) + " reference " + mc::dec((double)xr));
	}
	// weights against the reference in the norm that bounds the error of the rule as a functional: sum_i |w_i - w_i^ref|
	// (for |f|<=1 the rule's error is at most this sum); tolerance = the O(n) rounding errors of the three-term recurrence
	{
		double tw = 16 * (n + 4) * U_ * std::fabs(len);
		worst_w	  = l1_weight_error / tw;
		if(!(l1_weight_error <= tw)) fail(key, "weights_vs_reference", "sum |w_i - w_i^ref| = " + mc::dec(l1_weight_error) + " tol " + mc::dec(tw));
	}
	mc::maxi("node_err_over_tol", worst_node, key);
	mc::maxi("weight_err_over_tol", worst_w, key);
	if(!(fabsl(sumw - len) <= 16 * (n + 4) * U_ * std::fabs(len))) fail(key, "weights_do_not_sum_to_length", "sum = " + mc::dec((double)sumw) + " b-a = " + mc::dec(len));
	// exactness: Legendre basis and monomials in t = (x-mid)/hw, every degree k <= min(2n-1, 60)
	int kmax = std::min<long long>(2LL * n - 1, 60);
	std::vector<ld> sp(kmax + 1, 0), sm(kmax + 1, 0);
	for(unsigned i = 0; i < n; i++)
	{
		ld t = ((ld)R[i][0] - mid) / hw, w = R[i][1];
		ld p0 = 1, p1 = t, tk = 1;
		for(int k = 0; k <= kmax; k++)
		{
			ld pk = k == 0 ? p0 : p1;
			if(k >= 2) { pk = ((2 * k - 1) * t * p1 - (k - 1) * p0) / k; p0 = p1; p1 = pk; }
			sp[k] += w * pk;
			sm[k] += w * tk;
			tk *= t;
		}
	}
	double amp = 1 + xmax / std::fabs(hw);
	for(int k = 0; k <= kmax; k++)
	{
		ld ep = k == 0 ? (ld)len : 0, em = (k % 2 == 0) ? (ld)len / (k + 1) : 0;
		double tol = std::fabs(len) * (16 * U_ * (1 + k * k) * amp + 16 * (n + 4) * U_);
		if(!(fabsl(sp[k] - ep) <= tol)) fail(key, "legendre_polynomial_not_integrated_exactly", "degree " + std::to_string(k) + ": rule gives " + mc::dec((double)sp[k]) + " exact " + mc::dec((double)ep) + " tol " + mc::dec(tol));
		if(!(fabsl(sm[k] - em) <= tol)) fail(key, "monomial_not_integrated_exactly", "degree " + std::to_string(k) + ": rule gives " + mc::dec((double)sm[k]) + " exact " + mc::dec((double)em) + " tol " + mc::dec(tol));
		mc::maxi("exactness_defect_over_tol", (double)std::max(fabsl(sp[k] - ep), fabsl(sm[k] - em)) / tol, key + ",k=" + std::to_string(k));
	}
	// overloads
	if(n <= 64 || n % 37 == 0 || g_sparse_orders)
	{
		auto f = [](double x) { return 1.0 / (1.0 + 0.01 * x * x) + std::sin(0.001 * x); };
		std::vector<double> fv(n);
		for(unsigned i = 0; i < n; i++) fv[i] = f(R[i][0]);
		double v1 = Integrate_Gauss_Legendre(f, a, b, n), v2 = Integrate_Gauss_Legendre(f, R), v3 = Integrate_Gauss_Legendre(fv, R);
		if(!mc::same_bits(v1, v2) || !mc::same_bits(v1, v3)) fail(key, "overloads_differ", mc::dec(v1) + " " + mc::dec(v2) + " " + mc::dec(v3));
		ld direct = 0;
		for(unsigned i = 0; i < n; i++) direct += (ld)fv[i] * R[i][1];
		if(!(fabsl(v3 - direct) <= (n + 8) * U_ * 3 * std::fabs(len))) fail(key, "weighted_sum_wrong", "overload gives " + mc::dec(v3) + " sum w_i f_i = " + mc::dec((double)direct));
		// polynomials of degree <= 2n-1 whose values fall or rise by many orders of magnitude along the nodes, and one of alternating sign:
		// each overload returns sum_i w_i f_i up to the rounding of a sum of n products (any summation order)
		{
			int k = (int)std::min<long long>(2LL * n - 1, 40);
			double lo = std::min(a, b), wd = std::fabs(len);
			std::function<double(double)> fam[3] = {[=](double x) { return std::pow((x - lo) / wd, k); }, [=](double x) { return std::pow(1.0 - (x - lo) / wd, k); }, [=](double x) { return std::pow(1.0 - 2.0 * (x - lo) / wd, k - 1) * (1.0 - (x - lo) / wd); }};
			for(int fi = 0; fi < 3; fi++)
			{
				std::vector<double> gv(n);
				ld dsum = 0, asum = 0;
				for(unsigned i = 0; i < n; i++) { gv[i] = fam[fi](R[i][0]); dsum += (ld)gv[i] * R[i][1]; asum += fabsl((ld)gv[i] * R[i][1]); }
				double u1 = Integrate_Gauss_Legendre(fam[fi], a, b, n), u2 = Integrate_Gauss_Legendre(fam[fi], R), u3 = Integrate_Gauss_Legendre(gv, R);
				double tl = (n + 8) * U_ * (double)asum;
				if(!(fabsl(u1 - dsum) <= tl && fabsl(u2 - dsum) <= tl && fabsl(u3 - dsum) <= tl)) fail(key + ",family=" + std::to_string(fi) + ",degree=" + std::to_string(k), "weighted_sum_wrong", "overloads give " + mc::dec(u1) + " " + mc::dec(u2) + " " + mc::dec(u3) + " sum w_i f_i = " + mc::dec((double)dsum) + " tol " + mc::dec(tl));
			}
		}
		double d;
		std::vector<double> shortv(fv.begin(), fv.end() - (n > 1 ? 1 : 0));
		if(n > 1 && !mc::library_exits([&]() { d = Integrate_Gauss_Legendre(shortv, R); })) fail(key, "length_mismatch_not_rejected", "values shorter than the rule accepted");
		fv.push_back(1.0);
		if(!mc::library_exits([&]() { d = Integrate_Gauss_Legendre(fv, R); })) fail(key, "length_mismatch_not_rejected", "values longer than the rule accepted");
	}
}

int main(int argc, char** argv)
{
	mc::init(argc, argv);
	if(mc::ctx().replay) { printf("%s\n(no single-case replay for this part; use ./vcheck --replay <file>, which re-runs the enumeration for this key)\n", mc::ctx().replay_case.c_str()); return 0; }
	int fd = open("/dev/null", O_WRONLY);
	dup2(fd, 2);
	std::vector<unsigned> orders;
	unsigned nfull = mc::thorough() ? 2048 : 128;
	for(unsigned n = 1; n <= nfull; n++) orders.push_back(n);
	// beyond the complete range: every 37th order (thorough: every 5th) up to 4096, and the powers of two with their neighbours
	// (integer overflow of n^2, n^3 in 32 bits starts at n = 65536 and n = 1626; block sizes and parity effects sit at 2^k)
	{
		std::set<unsigned> extra;
		for(unsigned n = nfull + 1; n <= 4096; n += (mc::thorough() ? 5 : 37)) extra.insert(n);
		for(unsigned k = 7; k <= 12; k++)
			for(int d = -1; d <= 2; d++) if((1u << k) + d > nfull && (1u << k) + d <= 4100) extra.insert((1u << k) + d);
		for(unsigned n : extra) orders.push_back(n);
	}
	g_sparse_orders = mc::quick();
	// (the last three: intervals narrower than any absolute width threshold, still resolved by doubles because they sit at the origin)
	std::vector<std::pair<double, double>> ivs = {{-1, 1}, {0, 1}, {2, 7}, {-1e3, 1e-3}, {1e6, 1e6 + 1}, {1, -1}, {7, 2}, {0, 1e-20}, {3e-27, 7e-27}, {-1e-300, 1e-300}, {1, 3}, {-5, -3}, {0.5, 1.5}, {3, 1}};
	mc::alphabet("orders", orders.size());
	mc::alphabet("intervals", ivs.size());
	mc::bound("rule", "every order n=1.." + std::to_string(nfull) + " (complete) plus every " + std::string(mc::thorough() ? "5th" : "37th") + " order and the powers of two with their neighbours up to 4096, x 14 intervals (shifted, far from the origin, reversed, narrower than 1e-16, of width exactly 1 and 2 away from the origin); all ordered pairs of orders up to 32/64 computed back to back (identical bits whatever was computed before); per rule: node order/inclusion/symmetry, weight sign/symmetry/sum, exactness on the Legendre basis and on monomials for every degree k<=min(2n-1,60), agreement with a long-double Newton reference started from Tricomi's guess, identical bits from the three Integrate_Gauss_Legendre overloads, length mismatch rejected; non-trivial = rules with n>=2");
	unsigned long long unit = 0;
	// larger orders first so that shards are balanced
	std::sort(orders.begin(), orders.end(), std::greater<unsigned>());
	for(unsigned n : orders)
	{
		if(!mc::mine(unit++)) continue;
		if(mc::out_of_time("C12")) break;
		if(n > 128)
		{
			// a rule that never comes back must not take the shard with it: first once in a child with a time limit
			auto o = mc::isolate([&](std::function<void(const std::string&)> out) { auto r = Compute_Gauss_Legendre_Roots_and_Weights(n, -1, 1); out(std::to_string(r.size())); }, 30.0);
			if(o.kind != mc::Outcome::RETURNED) { fail("n=" + std::to_string(n) + ",a=-1,b=1", o.kind == mc::Outcome::TIMEOUT ? "does_not_terminate" : "terminated_process", std::string("Compute_Gauss_Legendre_Roots_and_Weights: ") + o.name()); continue; }
		}
		for(auto& iv : ivs) check_rule(n, iv.first, iv.second);
	}
	// call histories: the rule of order n2 does not depend on the order computed before it (all ordered pairs, every entry point)
	{
		unsigned N = mc::thorough() ? 64 : 32;
		auto f = [](double x) { return std::exp(0.3 * x) + x * x * x; };
		for(unsigned n2 = 1; n2 <= N; n2++)
		{
			if(!mc::mine(unit++)) continue;
			Compute_Gauss_Legendre_Roots_and_Weights(N + 7, -1, 1);
			auto base = Compute_Gauss_Legendre_Roots_and_Weights(n2, 0.5, 2.0);
			Compute_Gauss_Legendre_Roots_and_Weights(N + 7, -1, 1);
			double ibase = Integrate_Gauss_Legendre(f, 0.5, 2.0, n2);
			for(unsigned n1 = 1; n1 <= N; n1++)
				for(int entry = 0; entry < 2; entry++)
				{
					// (an unrelated order first, so that the call with n1 is not itself answered from what n2 left behind)
					Compute_Gauss_Legendre_Roots_and_Weights(N + 7, -1, 1);
					if(entry == 0) Compute_Gauss_Legendre_Roots_and_Weights(n1, -1, 1); else Integrate_Gauss_Legendre(f, -3, 1, n1);
					auto r = Compute_Gauss_Legendre_Roots_and_Weights(n2, 0.5, 2.0);
					Compute_Gauss_Legendre_Roots_and_Weights(N + 7, -1, 1);
					if(entry == 0) Compute_Gauss_Legendre_Roots_and_Weights(n1, 2, 5); else Integrate_Gauss_Legendre(f, 0.5, 2.0, n1);
					double iv = Integrate_Gauss_Legendre(f, 0.5, 2.0, n2);
					mc::count("history_pairs", 1);
					bool same = r.size() == base.size() && mc::same_bits(iv, ibase);
					for(size_t i = 0; same && i < r.size(); i++) same = mc::same_bits(r[i][0], base[i][0]) && mc::same_bits(r[i][1], base[i][1]);
					if(!same) fail("n=" + std::to_string(n2) + ",previous_order=" + std::to_string(n1) + ",entry=" + std::to_string(entry), "rule_depends_on_previous_call", "the rule (or the integral) of order " + std::to_string(n2) + " differs after a call with order " + std::to_string(n1));
				}
		}
	}
	// re-entrancy: an integrand that itself integrates, nested up to six levels deep with a different order at every level, through both
	// overloads that take a function; the value is the tensor-product sum over the rules of the levels
	for(int depth = 1; depth <= 6; depth++)
		for(int variant = 0; variant < 4; variant++)
		{
			if(!mc::mine(unit++)) continue;
			std::vector<unsigned> ord(depth);
			std::vector<std::pair<double, double>> box(depth);
			for(int l = 0; l < depth; l++) { ord[l] = variant == 0 ? 2 : variant == 1 ? 3 : 2 + (l + variant) % 3; box[l] = {0.25 * l, 1.0 + 0.5 * l}; }
			std::vector<std::vector<std::vector<double>>> rules(depth);
			for(int l = 0; l < depth; l++) rules[l] = Compute_Gauss_Legendre_Roots_and_Weights(ord[l], box[l].first, box[l].second);
			auto g = [](const std::vector<double>& x) { double p = 1; for(size_t l = 0; l < x.size(); l++) p *= (1.0 + (l + 1) * x[l]); return p + x[0]; };
			// reference: tensor sum
			ld ref = 0, aref = 0;
			{
				std::vector<unsigned> idx(depth, 0);
				std::vector<double> x(depth);
				while(true)
				{
					ld w = 1;
					for(int l = 0; l < depth; l++) { x[l] = rules[l][idx[l]][0]; w *= rules[l][idx[l]][1]; }
					ref += w * g(x); aref += fabsl(w * g(x));
					int l = depth - 1;
					while(l >= 0 && ++idx[l] == ord[l]) idx[l--] = 0;
					if(l < 0) break;
				}
			}
			for(int use_rule = 0; use_rule < 2; use_rule++)
			{
				std::vector<double> x(depth);
				std::function<double(int)> level = [&](int l) -> double {
					if(l == depth) return g(x);
					std::function<double(double)> inner = [&, l](double t) { x[l] = t; return level(l + 1); };
					return use_rule ? Integrate_Gauss_Legendre(inner, rules[l]) : Integrate_Gauss_Legendre(inner, box[l].first, box[l].second, ord[l]);
				};
				double v = NAN;
				std::string key = "nested,depth=" + std::to_string(depth) + ",variant=" + std::to_string(variant) + ",overload=" + (use_rule ? "(func,rule)" : "(func,a,b,n)");
				if(mc::library_exits([&]() { v = level(0); })) { fail(key, "terminated_process", "a nested integral ended the process"); continue; }
				mc::count("nested_integrals", 1);
				if(!(fabsl(v - ref) <= 64 * depth * U_ * aref)) fail(key, "nested_integral_is_not_the_tensor_sum", "nested value " + mc::dec(v) + " tensor-product sum " + mc::dec((double)ref));
			}
		}
	mc::count("evaluations", mc::ctx().counters["rules"]);
	mc::count("distinct_nontrivial", mc::ctx().counters["rules"]);
	if(mc::shard0()) mc::sample("n=37 on [2,7]: 37 nodes strictly increasing inside (2,7), symmetric about 4.5, positive symmetric weights summing to 5, P_k and t^k integrated exactly for k<=60");
	return mc::finish();
}
