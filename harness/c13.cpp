// C13 — Named 1D methods and nested multi-dimensional integrals agree with analysis.
// M3 over configurations: method x integrand family x limit orientation x method_parameter; separable integrands with
// different factors and disjoint ranges per axis so that a swapped argument or limit is visible.
#include "mc/mc.hpp"
#include "mc/exit_trap.hpp"
#include "libphysica/Integration.hpp"
#include <complex>
using namespace libphysica;
typedef long double ld;

static const std::vector<std::string> METHODS = {"Trapezoidal", "Gauss-Legendre", "Gauss-Kronrod", "Tanh-Sinh", "Gauss-Legendre_2", "Adaptive-Simpson"};
static double method_acc(const std::string& m) { return m == "Trapezoidal" ? 1e-6 : 1e-9; }
static void fail(const std::string& part, const std::string& key, const std::string& cls, const std::string& text) { mc::violation(part, part + "|" + key + "|" + cls, text, part + " " + key); }
static long long g_cases = 0;

struct Fam
{
	std::string name;
	std::function<ld(ld)> f;
	std::function<ld(ld, ld)> exact;   // integral from a to b
};

static std::vector<Fam> families()
{
	std::vector<Fam> F;
	for(double al : {0.0, 0.5, 2.0})
		for(double om : {0.0, M_PI, 2 * M_PI, 4.0})
		{
			if(al == 0 && om == 0) continue;
			F.push_back({"damped_cos_a" + mc::dec(al) + "_w" + mc::dec(om), [al, om](ld x) { return expl(-al * x) * cosl(om * x); },
						 [al, om](ld a, ld b) {
							 std::complex<ld> k(-al, om);
							 return ((std::exp(k * b) - std::exp(k * a)) / k).real();
						 }});
		}
	F.push_back({"lorentz", [](ld x) { return 1 / (1 + x * x); }, [](ld a, ld b) { return atanl(b) - atanl(a); }});
	for(double s : {1.5, 4.0}) F.push_back({"inverse_s" + mc::dec(s), [s](ld x) { return 1 / (x + s); }, [s](ld a, ld b) { return logl((b + s) / (a + s)); }});
	for(double mu : {0.0, 0.7})
		for(double sg : {0.5, 1.0})
			F.push_back({"gauss_m" + mc::dec(mu) + "_s" + mc::dec(sg), [mu, sg](ld x) { return expl(-(x - mu) * (x - mu) / (2 * sg * sg)); },
						 [mu, sg](ld a, ld b) { return sg * sqrtl(M_PIl / 2) * (erfl((b - mu) / (sqrtl(2.0L) * sg)) - erfl((a - mu) / (sqrtl(2.0L) * sg))); }});
	return F;
}

// own Gauss-Legendre rule on [-1,1] in long double (Newton on the three-term recurrence)
static void gl_ref(int n, std::vector<ld>& z, std::vector<ld>& w)
{
	z.assign(n, 0);
	w.assign(n, 0);
	for(int i = 0; i < n; i++)
	{
		ld x = cosl(M_PIl * (i + 0.75L) / (n + 0.5L)), pp = 1;
		for(int it = 0; it < 100; it++)
		{
			ld p1 = 1, p2 = 0;
			for(int j = 0; j < n; j++) { ld p3 = p2; p2 = p1; p1 = ((2 * j + 1) * x * p2 - j * p3) / (j + 1); }
			pp	  = n * (x * p1 - p2) / (x * x - 1);
			ld dx = p1 / pp;
			x -= dx;
			if(fabsl(dx) < 1e-19L) break;
		}
		z[i] = x;
		w[i] = 2 / ((1 - x * x) * pp * pp);
	}
}
static ld gl_integral(const std::function<ld(ld)>& f, ld a, ld b, int n)
{
	std::vector<ld> z, w;
	gl_ref(n, z, w);
	ld s = 0, c = (a + b) / 2, h = (b - a) / 2;
	for(int i = 0; i < n; i++) s += w[i] * f(c + h * z[i]);
	return s * h;
}

// condition number of the integral: int |f| / |int f| (composite Simpson in long double, 1% is enough)
static ld kappa(const Fam& F, ld a, ld b)
{
	int N = 20000;
	ld h = (b - a) / N, s = 0;
	for(int i = 0; i <= N; i++) s += fabsl(F.f(a + h * i)) * (i == 0 || i == N ? 1 : (i % 2 ? 4 : 2));
	s *= h / 3;
	return std::max((ld)1, fabsl(s) / fabsl(F.exact(a, b)));
}

// wider intervals for the methods that adapt to a tolerance (a fixed 30-point rule has an a-priori error bound that excludes them)
static void adaptive_methods_wide(unsigned long long& unit)
{
	auto F = families();
	std::vector<std::pair<double, double>> ivs = {{-3, 3}, {-4, 6}, {-6, 10}, {0, 25}};
	for(auto& fam : F)
	{
		if(fam.name.rfind("damped", 0) == 0 || fam.name.rfind("inverse", 0) == 0) continue;
		for(auto& iv : ivs)
			for(std::string m : {"Gauss-Kronrod", "Tanh-Sinh", "Adaptive-Simpson"})
				for(int mp : {0, 15})
				{
					if(!mc::mine(unit++)) continue;
					ld ex = fam.exact(iv.first, iv.second);
					std::string key = fam.name + ",a=" + mc::dec(iv.first) + ",b=" + mc::dec(iv.second) + ",method=" + m + ",param=" + std::to_string(mp) + ",wide";
					auto f = [&](double x) { return (double)fam.f(x); };
					double v = 0;
					if(mc::library_exits([&]() { v = Integrate(f, iv.first, iv.second, m, mp); })) { fail("methods1d", key, "terminated_process", "valid request ended the process"); continue; }
					g_cases++;
					if(!(fabsl(v - ex) <= 1e-9L * fabsl(ex))) fail("methods1d", key, "inaccurate", "Integrate = " + mc::dec(v) + " exact " + mc::dec((double)ex) + " relative error " + mc::dec((double)(fabsl(v - ex) / fabsl(ex))));
					else mc::maxi("rel_err_over_allowed_wide_" + m, (double)(fabsl(v - ex) / (1e-9L * fabsl(ex))), key);
				}
	}
}

static void one_dimensional(unsigned long long& unit)
{
	auto F = families();
	// (the last three: non-empty intervals narrower than any absolute width threshold; the integral is f(mid)*width to 1e-9)
	std::vector<std::pair<double, double>> ivs = {{0, 1}, {-1, 2}, {0, 2}, {-0.5, 0.5}, {1, 1 + std::ldexp(1.0, -41)}, {0, 1e-13}, {-3e-14, 2e-14}, {-3, -0.5}, {-1.25, -1}};
	if(mc::thorough())
		for(auto iv : std::vector<std::pair<double, double>>{{-2, 3}, {0.25, 0.75}, {10, 11}, {-1e-3, 1e-3}, {-0.1, 1.9}, {1e6, 1e6 + 0.5}, {-7, -6.5}, {2, 2 + 1e-9}, {0, 1e-100}})
			ivs.push_back(iv);
	if(mc::shard0()) { mc::alphabet("methods", METHODS.size()); mc::alphabet("integrand_families", F.size()); mc::alphabet("intervals_1d", ivs.size()); }
	for(auto& fam : F)
		for(auto& iv : ivs)
		{
			if(!mc::mine(unit++)) continue;
			// at most two periods of the oscillation on the interval
			ld ex = fam.exact(iv.first, iv.second);
			// narrow intervals: the closed forms are differences of nearly equal numbers; a 24-point rule in long double is exact to 1e-18 there
			if(std::fabs(iv.second - iv.first) < 1e-6) ex = gl_integral(fam.f, iv.first, iv.second, 24);
			if(fam.name.rfind("damped", 0) == 0)
			{
				double om = mc::parsed(fam.name.substr(fam.name.find("_w") + 2));
				if(om * (iv.second - iv.first) > 4 * M_PI + 1e-9) { mc::count("cases_outside_family_more_than_two_periods", 1); continue; }
			}
			if(fam.name.rfind("inverse_s", 0) == 0 && !(std::min(iv.first, iv.second) + mc::parsed(fam.name.substr(9)) > 0.5)) { mc::count("cases_outside_family_pole_in_interval", 1); continue; }
			if(ex == 0 || !std::isfinite((double)ex)) { mc::count("cases_skipped_integral_vanishes", 1); continue; }
			ld kap = kappa(fam, iv.first, iv.second);
			if(kap > 1e6L || fabsl(ex) < 1e-6L * fabsl((ld)iv.second - iv.first)) { mc::count("cases_skipped_integral_vanishes", 1); continue; }
			// sign and scale: the stated accuracy is relative, so c*f must be integrated as accurately as f for c of either sign and any size
			for(double c : {-1.0, 1e-6, -1e-6, 1e6})
					for(auto& m : METHODS)
					{
						if(&iv - &ivs[0] >= 4 && &iv - &ivs[0] <= 6) continue;	// (the three sub-1e-12 intervals are run unscaled only)
						std::string key = fam.name + ",scaled_by=" + mc::dec(c) + ",a=" + mc::dec(iv.first) + ",b=" + mc::dec(iv.second) + ",method=" + m + ",param=0";
						auto fs = [&](double x) { return c * (double)fam.f(x); };
						double v = 0;
						if(mc::library_exits([&]() { v = Integrate(fs, iv.first, iv.second, m, 0); })) { fail("methods1d", key, "terminated_process", "valid request ended the process"); continue; }
						g_cases++;
						double tol = method_acc(m) * (double)(kap * fabsl(ex)) * std::fabs(c);
						if(!(fabsl(v - c * ex) <= tol)) fail("methods1d", key, "inaccurate", "Integrate = " + mc::dec(v) + " exact " + mc::dec((double)(c * ex)) + " relative error " + mc::dec((double)(fabsl(v - c * ex) / fabsl(c * ex))));
					}
			for(auto& m : METHODS)
				for(int par : {0, 1, 2, 3})
				{
					// explicit parameters: for Gauss-Kronrod it is the refinement depth and for Gauss-Legendre_2 the node count (values that keep
					// the method's accuracy: 12 and 64/128); the other four methods take no parameter and must be as accurate with 1, 2 or 7 as with 0
					int mp = par == 0 ? 0 : (m == "Gauss-Kronrod" ? (par == 1 ? 12 : par == 2 ? 8 : 14) : m == "Gauss-Legendre_2" ? (par == 1 ? 64 : par == 2 ? 128 : 48) : (par == 1 ? 7 : par == 2 ? 1 : 2));
					std::string key = fam.name + ",a=" + mc::dec(iv.first) + ",b=" + mc::dec(iv.second) + ",method=" + m + ",param=" + std::to_string(mp);
					auto f = [&](double x) { return (double)fam.f(x); };
					double v = 0, vr = 0, v0 = 1;
					std::vector<double> xs;
					auto fr = [&](double x) { xs.push_back(x); return (double)fam.f(x); };
					if(mc::library_exits([&]() { v = Integrate(fr, iv.first, iv.second, m, mp); vr = Integrate(f, iv.second, iv.first, m, mp); v0 = Integrate(f, iv.first, iv.first, m, mp); })) { fail("methods1d", key, "terminated_process", "valid request ended the process"); continue; }
					g_cases++;
					double tol = method_acc(m) * (double)(kap * fabsl(ex));
					if(!(fabsl(v - ex) <= tol)) fail("methods1d", key, "inaccurate", "Integrate = " + mc::dec(v) + " exact " + mc::dec((double)ex) + " relative error " + mc::dec((double)(fabsl(v - ex) / fabsl(ex))) + " allowed " + mc::dec(method_acc(m)) + "*kappa(" + mc::dec((double)kap) + ")");
					else mc::maxi("rel_err_over_allowed_" + m, (double)(fabsl(v - ex) / tol), key);
					if(!mc::same_bits(vr, -v)) fail("methods1d", key, "reversed_limits_not_negation", "I(a,b) = " + mc::dec(v) + " I(b,a) = " + mc::dec(vr));
					if(v0 != 0.0) fail("methods1d", key, "equal_limits_not_zero", "I(a,a) = " + mc::dec(v0));
					// the integration variable stays in its interval (up to the rounding of the rule's affine map: 4 ulp of the end points)
					double slack = 4 * mc::U_ * 2 * std::max(std::fabs(iv.first), std::fabs(iv.second));
					for(double x : xs)
						if(!(x >= iv.first - slack && x <= iv.second + slack)) { fail("methods1d", key, "evaluated_outside_interval", "evaluated at " + mc::dec(x)); break; }
				}
		}
}

// ---- call histories: no request depends on the requests made before it -------------------------------------------------------
static void call_histories(unsigned long long& unit)
{
	auto f	 = [](double x) { return std::exp(-0.5 * x) * std::cos(2 * x) + 0.25 * x; };
	auto fl	 = [](ld x) { return expl(-0.5L * x) * cosl(2 * x) + 0.25L * x; };
	auto fxy = [&](double x, double y) { return f(x) * (1 + y * y); };
	auto fxyz = [&](double x, double y, double z) { return f(x) * (1 + y * y) * std::exp(-z); };
	struct Letter { const char* name; std::function<double()> call; int gl_points; double a, b; };
	std::vector<Letter> L = {
		{"GL2(0,1,default)", [&]() { return Integrate(f, 0, 1, "Gauss-Legendre_2", 0); }, 30, 0, 1},
		{"GL2(0,1,3)", [&]() { return Integrate(f, 0, 1, "Gauss-Legendre_2", 3); }, 3, 0, 1},
		{"GL2(0,1,6)", [&]() { return Integrate(f, 0, 1, "Gauss-Legendre_2", 6); }, 6, 0, 1},
		{"GL2(1,0,4)", [&]() { return Integrate(f, 1, 0, "Gauss-Legendre_2", 4); }, 4, 1, 0},
		{"GL2(-1,2,3)", [&]() { return Integrate(f, -1, 2, "Gauss-Legendre_2", 3); }, 3, -1, 2},
		{"Integrate_Gauss_Legendre(0,1,5)", [&]() { return Integrate_Gauss_Legendre(f, 0, 1, 5); }, 5, 0, 1},
		{"Gauss-Legendre(0,1)", [&]() { return Integrate(f, 0, 1, "Gauss-Legendre", 0); }, 0, 0, 1},
		{"Gauss-Kronrod(0,1)", [&]() { return Integrate(f, 0, 1, "Gauss-Kronrod", 0); }, 0, 0, 1},
		{"Tanh-Sinh(0,1)", [&]() { return Integrate(f, 0, 1, "Tanh-Sinh", 0); }, 0, 0, 1},
		{"Trapezoidal(0,1)", [&]() { return Integrate(f, 0, 1, "Trapezoidal", 0); }, 0, 0, 1},
		{"Adaptive-Simpson(0,1)", [&]() { return Integrate(f, 0, 1, "Adaptive-Simpson", 0); }, 0, 0, 1},
		{"2D GL2(0,1;0,1;4)", [&]() { return Integrate_2D(fxy, 0, 1, 0, 1, "Gauss-Legendre_2", 4); }, 0, 0, 1},
		{"3D GL2(0,1;0,1;0,1;2)", [&]() { return Integrate_3D(fxyz, 0, 1, 0, 1, 0, 1, "Gauss-Legendre_2", 2); }, 0, 0, 1},
		{"2D Gauss-Kronrod(0,1;0,1)", [&]() { return Integrate_2D(fxy, 0, 1, 0, 1, "Gauss-Kronrod", 0); }, 0, 0, 1},
	};
	int n = L.size(), depth = mc::thorough() ? 4 : 3;
	if(mc::shard0()) { mc::alphabet("history_letters", n); mc::bound("call_history_depth", std::to_string(depth)); }
	std::vector<double> first(n);
	std::vector<bool> have(n, false);
	long long total = 1;
	for(int i = 0; i < depth; i++) total *= n;
	for(long long code = 0; code < total; code++)
	{
		if(!mc::mine(unit + (code >> 4))) continue;
		std::vector<int> seq;
		long long c = code;
		for(int i = 0; i < depth; i++) { seq.push_back(c % n); c /= n; }
		std::string hist;
		for(int i = 0; i < depth; i++)
		{
			double v = 0;
			int l = seq[i];
			if(mc::library_exits([&]() { v = L[l].call(); })) { fail("histories", hist + L[l].name, "terminated_process", "valid request ended the process"); break; }
			g_cases++;
			mc::count("history_transitions", 1);
			if(!have[l])
			{
				have[l] = true;
				first[l] = v;
				// explicit node counts: the result is that of the n-point rule
				if(L[l].gl_points)
				{
					ld ref = gl_integral(fl, L[l].a, L[l].b, L[l].gl_points);
					if(!(fabsl(v - ref) <= 1e-13L * fabsl(ref))) fail("histories", hist + L[l].name, "not_the_rule_with_the_requested_node_count", "returned " + mc::dec(v) + ", the " + std::to_string(L[l].gl_points) + "-point Gauss-Legendre rule gives " + mc::dec((double)ref));
				}
			}
			else if(!mc::same_bits(v, first[l])) fail("histories", hist + L[l].name, "result_depends_on_earlier_calls", std::string(L[l].name) + " returned " + mc::dec(v) + " after [" + hist + "] but " + mc::dec(first[l]) + " after another history");
			hist += std::string(L[l].name) + ";";
		}
	}
	unit += (total >> 4) + 1;
}

// ---- nested 2D / 3D ----------------------------------------------------------------------------------------------------
static void nested(unsigned long long& unit)
{
	const double X1 = 0, X2 = 1, Y1 = 2, Y2 = 3.5, Z1 = 5, Z2 = 7.25;
	auto gx = [](ld x) { return expl(-x) * (1 + x); };			// smooth, non-symmetric
	auto gy = [](ld y) { return 1 / (y + 1); };
	auto gz = [](ld z) { return cosl(0.3L * z) + 2; };
	auto ly = [](ld y) { return 2 + y; };						// linear variants for Trapezoidal in 3D
	auto lz = [](ld z) { return 1 + 0.5L * z; };
	ld Ix = (2 - 3 * expl(-1.0L)), Iy = logl(4.5L / 3), Iz = (sinl(0.3L * Z2) - sinl(0.3L * Z1)) / 0.3L + 2 * (Z2 - Z1);
	ld Ily = 2 * (Y2 - Y1) + (Y2 * Y2 - Y1 * Y1) / 2, Ilz = (Z2 - Z1) + 0.25L * (Z2 * Z2 - Z1 * Z1);
	for(auto& m : METHODS)
		for(int orient = 0; orient < 4; orient++)
		{
			if(!mc::mine(unit++)) continue;
			double a1 = orient & 1 ? X2 : X1, a2 = orient & 1 ? X1 : X2, b1 = orient & 2 ? Y2 : Y1, b2 = orient & 2 ? Y1 : Y2;
			double sign = ((orient & 1) ? -1 : 1) * ((orient & 2) ? -1 : 1);
			std::string key = "2D,method=" + m + ",orientation=" + std::to_string(orient);
			bool bad_x = false, bad_y = false;
			long long n = 0;
			auto f = [&](double x, double y) {
				n++;
				if(!(x >= X1 && x <= X2)) bad_x = true;
				if(!(y >= Y1 && y <= Y2)) bad_y = true;
				return (double)(gx(x) * gy(y));
			};
			double v = 0;
			if(mc::library_exits([&]() { v = Integrate_2D(f, a1, a2, b1, b2, m); })) { fail("nested", key, "terminated_process", "valid request ended the process"); continue; }
			g_cases++;
			mc::count("integrand_evaluations", n);
			if(bad_x) fail("nested", key, "first_argument_outside_x_range", "the first argument of the integrand left [0,1]");
			if(bad_y) fail("nested", key, "second_argument_outside_y_range", "the second argument of the integrand left [2,3.5]");
			ld ex = sign * Ix * Iy;
			if(!(fabsl(v - ex) <= 2 * method_acc(m) * fabsl(ex))) fail("nested", key, "not_product_of_1d_integrals", "Integrate_2D = " + mc::dec(v) + " product " + mc::dec((double)ex));
			else mc::maxi("nested2d_err_over_allowed", (double)(fabsl(v - ex) / (2 * method_acc(m) * fabsl(ex))), key);
		}
	for(auto& m : METHODS)
		for(int orient = 0; orient < 8; orient++)
		{
			if(!mc::mine(unit++)) continue;
			bool trap = m == "Trapezoidal";
			double a1 = orient & 1 ? X2 : X1, a2 = orient & 1 ? X1 : X2, b1 = orient & 2 ? Y2 : Y1, b2 = orient & 2 ? Y1 : Y2, c1 = orient & 4 ? Z2 : Z1, c2 = orient & 4 ? Z1 : Z2;
			double sign = ((orient & 1) ? -1 : 1) * ((orient & 2) ? -1 : 1) * ((orient & 4) ? -1 : 1);
			std::string key = "3D,method=" + m + ",orientation=" + std::to_string(orient);
			bool bad[3] = {false, false, false};
			long long n = 0;
			auto f = [&](double x, double y, double z) {
				n++;
				if(!(x >= X1 && x <= X2)) bad[0] = true;
				if(!(y >= Y1 && y <= Y2)) bad[1] = true;
				if(!(z >= Z1 && z <= Z2)) bad[2] = true;
				return (double)(gx(x) * (trap ? ly(y) * lz(z) : gy(y) * gz(z)));
			};
			double v = 0;
			if(mc::library_exits([&]() { v = Integrate_3D(f, a1, a2, b1, b2, c1, c2, m); })) { fail("nested", key, "terminated_process", "valid request ended the process"); continue; }
			g_cases++;
			mc::count("integrand_evaluations", n);
			const char* nm[3] = {"first_argument_outside_x_range", "second_argument_outside_y_range", "third_argument_outside_z_range"};
			for(int k = 0; k < 3; k++)
				if(bad[k]) fail("nested", key, nm[k], "an argument of the integrand left the range of its own pair of limits");
			ld ex = sign * Ix * (trap ? Ily * Ilz : Iy * Iz);
			if(!(fabsl(v - ex) <= 3 * method_acc(m) * fabsl(ex))) fail("nested", key, "not_product_of_1d_integrals", "Integrate_3D = " + mc::dec(v) + " product " + mc::dec((double)ex));
			else mc::maxi("nested3d_err_over_allowed", (double)(fabsl(v - ex) / (3 * method_acc(m) * fabsl(ex))), key);
		}
	// method_parameter must reach every nesting level: with an explicit (coarse) Gauss-Legendre_2 node count the nested rule is the
	// tensor product of the 1D rules, so the 2D/3D result equals the product of the library's own 1D results for the same count
	for(int np : {2, 3, 6, 9})
	{
		if(!mc::mine(unit++)) continue;
		std::string key = "tensor,Gauss-Legendre_2,points=" + std::to_string(np);
		auto fx = [&](double x) { return (double)gx(x); };
		auto fy = [&](double y) { return (double)gy(y); };
		auto fz = [&](double z) { return (double)gz(z); };
		double ix = Integrate(fx, X1, X2, "Gauss-Legendre_2", np), iy = Integrate(fy, Y1, Y2, "Gauss-Legendre_2", np), iz = Integrate(fz, Z1, Z2, "Gauss-Legendre_2", np);
		double v2 = Integrate_2D([&](double x, double y) { return fx(x) * fy(y); }, X1, X2, Y1, Y2, "Gauss-Legendre_2", np);
		double v3 = Integrate_3D([&](double x, double y, double z) { return fx(x) * fy(y) * fz(z); }, X1, X2, Y1, Y2, Z1, Z2, "Gauss-Legendre_2", np);
		g_cases += 2;
		if(!(std::fabs(v2 - ix * iy) <= 64 * np * 1.2e-16 * std::fabs(ix * iy))) fail("nested", key, "method_parameter_not_used_at_every_level_2D", "Integrate_2D = " + mc::dec(v2) + " product of the 1D results with the same node count " + mc::dec(ix * iy));
		if(!(std::fabs(v3 - ix * iy * iz) <= 64 * np * 1.2e-16 * std::fabs(ix * iy * iz))) fail("nested", key, "method_parameter_not_used_at_every_level_3D", "Integrate_3D = " + mc::dec(v3) + " product of the 1D results with the same node count " + mc::dec(ix * iy * iz));
	}
	// spherical overload
	struct Sub { double c1, c2, p1, p2; };
	std::vector<Sub> subs = {{-1, 1, 0, 2 * M_PI}, {-1, 0, 0, M_PI}, {0.2, 0.9, 1.0, 2.5}, {-0.7, -0.1, 4.0, 6.0}, {0.5, -0.5, 3.0, 0.5}};
	for(auto& m : std::vector<std::string>{"Gauss-Legendre", "Gauss-Kronrod", "Adaptive-Simpson", "Gauss-Legendre_2"})
		for(size_t si = 0; si < subs.size(); si++)
			for(auto rr : std::vector<std::pair<double, double>>{{0.5, 2}, {1, 1.5}})
			{
				if(!mc::mine(unit++)) continue;
				Sub s = subs[si];
				std::string key = "spherical,method=" + m + ",sub=" + std::to_string(si) + ",r=" + mc::dec(rr.first) + ".." + mc::dec(rr.second);
				bool bad_norm = false, bad_pol = false, bad_az = false;
				double clo = std::min(s.c1, s.c2), chi = std::max(s.c1, s.c2), plo = std::min(s.p1, s.p2), phi_ = std::max(s.p1, s.p2);
				auto f = [&](Vector v) {
					double r = v.Norm();
					if(!(r >= rr.first * (1 - 1e-14) && r <= rr.second * (1 + 1e-14))) bad_norm = true;
					double c = v[2] / r;
					if(!(c >= clo - 1e-14 && c <= chi + 1e-14)) bad_pol = true;
					double az = std::atan2(v[1], v[0]);
					if(az < 0) az += 2 * M_PI;
					// azimuth is undefined at the poles
					if(std::fabs(c) < 1 - 1e-12 && !((az >= plo - 1e-9 && az <= phi_ + 1e-9) || (az + 2 * M_PI >= plo - 1e-9 && az + 2 * M_PI <= phi_ + 1e-9))) bad_az = true;
					return std::exp(-r) * (1 + r);
				};
				double v = 0;
				if(mc::library_exits([&]() { v = Integrate_3D(f, rr.first, rr.second, s.c1, s.c2, s.p1, s.p2, m); })) { fail("spherical", key, "terminated_process", "valid request ended the process"); continue; }
				g_cases++;
				if(bad_norm) fail("spherical", key, "vector_norm_not_r", "a vector passed to the integrand has a norm outside the radial range");
				if(bad_pol) fail("spherical", key, "polar_angle_outside_range", "z/r outside the cos(theta) range");
				if(bad_az) fail("spherical", key, "azimuth_outside_range", "azimuth outside the phi range");
				auto R = [](ld r) { return -expl(-r) * (r * r * r + 4 * r * r + 8 * r + 8); };	  // antiderivative of r^2 (1+r) e^-r
				ld ex = ((ld)s.p2 - s.p1) * ((ld)s.c2 - s.c1) * (R(rr.second) - R(rr.first));
				if(!(fabsl(v - ex) <= 3e-9L * fabsl(ex))) fail("spherical", key, "not_solid_angle_times_radial_integral", "Integrate_3D = " + mc::dec(v) + " expected " + mc::dec((double)ex));
				else mc::maxi("spherical_err_over_allowed", (double)(fabsl(v - ex) / (3e-9L * fabsl(ex))), key);
			}
	// the defaulted angular arguments: the whole sphere (4 pi times the radial integral), and a polar band over the full azimuth
	if(mc::mine(unit++))
		for(auto rr : std::vector<std::pair<double, double>>{{0.5, 2}, {1, 1.5}})
			for(int form = 0; form < 3; form++)
			{
				auto f = [&](Vector v) { double r = v.Norm(); return std::exp(-r) * (1 + r); };
				auto R = [](ld r) { return -expl(-r) * (r * r * r + 4 * r * r + 8 * r + 8); };
				double v = 0;
				std::string key = "spherical,defaults,form=" + std::to_string(form) + ",r=" + mc::dec(rr.first) + ".." + mc::dec(rr.second);
				if(mc::library_exits([&]() { v = form == 0 ? Integrate_3D(f, rr.first, rr.second) : form == 1 ? Integrate_3D(f, rr.first, rr.second, -0.25, 0.75) : Integrate_3D(f, rr.first, rr.second, -1.0, 1.0, 0.5); })) { fail("spherical", key, "terminated_process", "valid request ended the process"); continue; }
				g_cases++;
				ld ex = (form == 2 ? 2 * M_PIl - 0.5L : 2 * M_PIl) * (form == 1 ? 1.0L : 2.0L) * (R(rr.second) - R(rr.first));
				if(!(fabsl(v - ex) <= 3e-9L * fabsl(ex))) fail("spherical", key, "not_solid_angle_times_radial_integral", "Integrate_3D with defaulted angles = " + mc::dec(v) + " expected " + mc::dec((double)ex));
				// the same three forms with a direction-dependent integrand (round 10: a whole-sphere shortcut that evaluates the
				// integrand on one axis only is exact for isotropic integrands): cos^2(theta) weights the polar integral by c^2
				auto fz = [&](Vector w) { double r = w.Norm(), c = w[2] / r; return std::exp(-r) * (1 + r) * c * c; };
				double vz = 0;
				if(mc::library_exits([&]() { vz = form == 0 ? Integrate_3D(fz, rr.first, rr.second) : form == 1 ? Integrate_3D(fz, rr.first, rr.second, -0.25, 0.75) : Integrate_3D(fz, rr.first, rr.second, -1.0, 1.0, 0.5); })) { fail("spherical", key, "terminated_process", "valid request ended the process"); continue; }
				g_cases++;
				ld pol = form == 1 ? (0.75L * 0.75L * 0.75L + 0.25L * 0.25L * 0.25L) / 3 : 2.0L / 3;
				ld exz = (form == 2 ? 2 * M_PIl - 0.5L : 2 * M_PIl) * pol * (R(rr.second) - R(rr.first));
				if(!(fabsl(vz - exz) <= 3e-9L * fabsl(exz))) fail("spherical", key, "anisotropic_integrand_wrong", "Integrate_3D(cos^2(theta) g(r)) with defaulted angles = " + mc::dec(vz) + " expected " + mc::dec((double)exz));
			}
}

int main(int argc, char** argv)
{
	mc::init(argc, argv);
	if(mc::ctx().replay) { printf("%s\n(no single-case replay for this part; use ./vcheck --replay <file>, which re-runs the enumeration for this key)\n", mc::ctx().replay_case.c_str()); return 0; }
	int fd = open("/dev/null", O_WRONLY);
	dup2(fd, 2);
	dup2(fd, 1);
	mc::bound("rule", "complete product of 6 method names x 19 integrands (damped cosines up to two periods, Lorentzian, 1/(x+s), Gaussians) x 4 intervals x {default, explicit} method_parameter, each in both orientations and with equal limits; Integrate_2D/3D for every method x every orientation of every axis with different factors and disjoint ranges per axis; spherical overload on 5 angular sub-ranges x 2 shells x 4 methods; accuracy relative to kappa = int|f| / |int f|");
	unsigned long long unit = 0;
	one_dimensional(unit);
	adaptive_methods_wide(unit);
	nested(unit);
	call_histories(unit);
	mc::count("evaluations", g_cases);
	mc::count("distinct_nontrivial", g_cases);
	if(mc::shard0()) mc::sample("Integrate_3D(gx(x)*gy(y)*gz(z), x:1->0, y:2->3.5, z:7.25->5, 'Gauss-Kronrod'): every recorded x in [0,1], y in [2,3.5], z in [5,7.25]; result = (+1)(-1)(-1) * Ix*Iy*Iz");
	return mc::finish();
}
