// C10 — Meaningless requests stop the program with a diagnostic; valid ones never do.
// M4: a declarative table entry point x boundary letter -> side of the guard; one request per child process,
// built with AddressSanitizer + UBSan so that an out-of-bounds access is an observable outcome.
#include "mc/mc.hpp"
#include "libphysica/Linear_Algebra.hpp"
#include "libphysica/Numerics.hpp"
#include "libphysica/Integration.hpp"
#include "libphysica/Statistics.hpp"
#include "libphysica/Special_Functions.hpp"
#include "libphysica/Utilities.hpp"
#include "libphysica/List_Manipulations.hpp"
#include "libphysica/Natural_Units.hpp"
#include <climits>
#include <fstream>
using namespace libphysica;

enum Side { ACCEPT, REJECT };
struct Req
{
	std::string entry, letter;
	Side side;
	std::function<double()> body;
};
static std::vector<Req> T;
static void add(const std::string& e, const std::string& l, Side s, std::function<double()> b) { T.push_back({e, l, s, b}); }
typedef std::vector<double> V;
typedef std::vector<std::vector<double>> VV;

static std::string g_tmp;

static void build_table()
{
	// ---- Vector -------------------------------------------------------------------------------------------------
	for(unsigned n : {1u, 3u, 5u})
		for(long long off : {-1LL, 0LL, 1LL, (long long)UINT_MAX})
		{
			unsigned idx = off == (long long)UINT_MAX ? UINT_MAX : (unsigned)((long long)n + off);
			Side s		 = idx < n ? ACCEPT : REJECT;
			add("Vector::operator[]", "n=" + std::to_string(n) + ",i=" + std::to_string(idx), s, [=]() { Vector v(n, 1.5); return v[idx]; });
			add("Vector::operator[]const", "n=" + std::to_string(n) + ",i=" + std::to_string(idx), s, [=]() { const Vector v(n, 1.5); return v[idx]; });
		}
	// objects without components (made in four ways): every index lies outside
	for(int how = 0; how < 4; how++)
		for(unsigned idx : {0u, 1u, 2u, UINT_MAX})
		{
			auto make = [how]() { Vector v(3, 7.0); if(how == 0) v = Vector(0u); else if(how == 1) v = Vector(std::vector<double>{}); else if(how == 2) v.Resize(0); else v.Assign(0, 1.0); return v; };
			std::string l = std::string("empty(") + (how == 0 ? "Vector(0)" : how == 1 ? "Vector({})" : how == 2 ? "Resize(0)" : "Assign(0,x)") + "),i=" + std::to_string(idx);
			add("Vector::operator[]", l, REJECT, [=]() { Vector v = make(); return v[idx]; });
			add("Vector::operator[]const", l, REJECT, [=]() { const Vector v = make(); return v[idx]; });
			add("Vector::operator[]write", l, REJECT, [=]() { Vector v = make(); v[idx] = 2.0; return (double)v.Size(); });
			if(how < 2) add("Vector::operator[]in_place", l, REJECT, [=]() { Vector v(3, 7.0); if(how == 0) v.Resize(0); else v.Assign(0, 1.0); return v[idx]; });
		}
	for(int how = 0; how < 4; how++)
		for(unsigned idx : {0u, 1u, UINT_MAX})
		{
			auto make = [how]() { if(how == 0) return Matrix(0u, 3u); if(how == 1) return Matrix(0u, 0u); if(how == 2) return Matrix(std::vector<std::vector<double>>{}); Matrix M(1, 3, 2.0); M.Delete_Row(0); return M; };
			std::string l = std::string("empty(") + (how == 0 ? "Matrix(0,3)" : how == 1 ? "Matrix(0,0)" : how == 2 ? "Matrix({})" : "Delete_Row of the only row") + "),i=" + std::to_string(idx);
			add("Matrix::operator[]", l, REJECT, [=]() { Matrix M = make(); return (double)M[idx].size(); });
			add("Matrix::operator[]const", l, REJECT, [=]() { const Matrix M = make(); return (double)M[idx].size(); });
			add("Matrix::Return_Row", l, REJECT, [=]() { Matrix M = make(); return (double)M.Return_Row(idx).Size(); });
			add("Matrix::Delete_Row", l, REJECT, [=]() { Matrix M = make(); M.Delete_Row(idx); return (double)M.Rows(); });
		}
	for(unsigned idx : {0u, 1u, UINT_MAX})
	{
		std::string l = "empty(Matrix(3,0)),j=" + std::to_string(idx);
		add("Matrix::Return_Column", l, REJECT, [=]() { Matrix M(3u, 0u); return (double)M.Return_Column(idx).Size(); });
		add("Matrix::Delete_Column", l, REJECT, [=]() { Matrix M(3u, 0u); M.Delete_Column(idx); return (double)M.Columns(); });
	}
	for(unsigned a : {1u, 2u, 3u, 4u})
		for(unsigned b : {1u, 2u, 3u, 4u})
		{
			Side s = a == b ? ACCEPT : REJECT;
			std::string l = std::to_string(a) + "," + std::to_string(b);
			add("Vector::operator+", l, s, [=]() { return (Vector(a, 1.0) + Vector(b, 2.0))[0]; });
			add("Vector::operator-", l, s, [=]() { return (Vector(a, 1.0) - Vector(b, 2.0))[0]; });
			add("Vector::operator+=", l, s, [=]() { Vector v(a, 1.0); v += Vector(b, 2.0); return v[0]; });
			add("Vector::operator-=", l, s, [=]() { Vector v(a, 1.0); v -= Vector(b, 2.0); return v[0]; });
			add("Vector::Dot", l, s, [=]() { return Vector(a, 1.0).Dot(Vector(b, 2.0)); });
			add("Vector::operator*(Vector)", l, s, [=]() { return Vector(a, 1.0) * Vector(b, 2.0); });
			add("Vector::Cross", l, (a == 3 && b == 3) ? ACCEPT : REJECT, [=]() { return Vector(a, 1.0).Cross(Vector(b, 2.0))[0]; });
		}
	// ---- Matrix -------------------------------------------------------------------------------------------------
	for(unsigned m : {1u, 2u, 4u})
		for(long long off : {-1LL, 0LL, 1LL, (long long)UINT_MAX})
		{
			unsigned idx = off == (long long)UINT_MAX ? UINT_MAX : (unsigned)((long long)m + off);
			Side s		 = idx < m ? ACCEPT : REJECT;
			std::string l = "rows=" + std::to_string(m) + ",i=" + std::to_string(idx);
			add("Matrix::operator[]", l, s, [=]() { Matrix M(m, 3, 2.0); return M[idx][0]; });
			add("Matrix::operator[]const", l, s, [=]() { const Matrix M(m, 3, 2.0); return M[idx][0]; });
			add("Matrix::Return_Row", l, s, [=]() { Matrix M(m, 3, 2.0); return M.Return_Row(idx)[0]; });
			add("Matrix::Delete_Row", l, s, [=]() { Matrix M(m, 3, 2.0); M.Delete_Row(idx); return (double)M.Rows(); });
			std::string lc = "columns=" + std::to_string(m) + ",j=" + std::to_string(idx);
			add("Matrix::Return_Column", lc, s, [=]() { Matrix M(3, m, 2.0); return M.Return_Column(idx)[0]; });
			add("Matrix::Delete_Column", lc, s, [=]() { Matrix M(3, m, 2.0); M.Delete_Column(idx); return (double)M.Columns(); });
			if(off != (long long)UINT_MAX)
			{
				add("Matrix::Sub_Matrix(row)", l, s, [=]() { Matrix M(m, 3, 2.0); return (double)M.Sub_Matrix((int)idx, 0).Rows(); });
				add("Matrix::Sub_Matrix(column)", lc, s, [=]() { Matrix M(3, m, 2.0); return (double)M.Sub_Matrix(0, (int)idx).Columns(); });
			}
		}
	struct Sh { unsigned m, n; };
	for(Sh a : {Sh{2, 3}, Sh{3, 3}, Sh{1, 4}})
		for(Sh b : {Sh{2, 3}, Sh{3, 2}, Sh{2, 4}, Sh{3, 3}, Sh{1, 4}, Sh{4, 1}})
		{
			std::string l = std::to_string(a.m) + "x" + std::to_string(a.n) + "," + std::to_string(b.m) + "x" + std::to_string(b.n);
			Side same	  = (a.m == b.m && a.n == b.n) ? ACCEPT : REJECT;
			add("Matrix::Plus", l, same, [=]() { return Matrix(a.m, a.n, 1.0).Plus(Matrix(b.m, b.n, 2.0))[0][0]; });
			add("Matrix::operator+", l, same, [=]() { return (Matrix(a.m, a.n, 1.0) + Matrix(b.m, b.n, 2.0))[0][0]; });
			add("Matrix::Minus", l, same, [=]() { return Matrix(a.m, a.n, 1.0).Minus(Matrix(b.m, b.n, 2.0))[0][0]; });
			add("Matrix::operator-", l, same, [=]() { return (Matrix(a.m, a.n, 1.0) - Matrix(b.m, b.n, 2.0))[0][0]; });
			add("Matrix::operator+=", l, same, [=]() { Matrix A(a.m, a.n, 1.0); A += Matrix(b.m, b.n, 2.0); return A[0][0]; });
			add("Matrix::operator-=", l, same, [=]() { Matrix A(a.m, a.n, 1.0); A -= Matrix(b.m, b.n, 2.0); return A[0][0]; });
			add("Matrix::Product(Matrix)", l, a.n == b.m ? ACCEPT : REJECT, [=]() { return Matrix(a.m, a.n, 1.0).Product(Matrix(b.m, b.n, 2.0))[0][0]; });
			add("Matrix::operator*(Matrix)", l, a.n == b.m ? ACCEPT : REJECT, [=]() { return (Matrix(a.m, a.n, 1.0) * Matrix(b.m, b.n, 2.0))[0][0]; });
		}
	for(Sh a : {Sh{2, 3}, Sh{3, 3}, Sh{1, 4}})
		for(unsigned d : {1u, 2u, 3u, 4u, 5u})
		{
			std::string l = std::to_string(a.m) + "x" + std::to_string(a.n) + ",vector" + std::to_string(d);
			add("Matrix::Product(Vector)", l, d == a.n ? ACCEPT : REJECT, [=]() { return Matrix(a.m, a.n, 1.0).Product(Vector(d, 2.0))[0]; });
			add("Matrix::operator*(Vector)", l, d == a.n ? ACCEPT : REJECT, [=]() { return (Matrix(a.m, a.n, 1.0) * Vector(d, 2.0))[0]; });
			add("operator*(Vector,Matrix)", l, d == a.m ? ACCEPT : REJECT, [=]() { return (Vector(d, 2.0) * Matrix(a.m, a.n, 1.0))[0]; });
		}
	for(Sh a : {Sh{1, 1}, Sh{3, 3}, Sh{2, 3}, Sh{3, 2}, Sh{1, 4}})
	{
		std::string l = std::to_string(a.m) + "x" + std::to_string(a.n);
		Side sq		  = a.m == a.n ? ACCEPT : REJECT;
		auto mk		  = [=]() { Matrix M(a.m, a.n, 0.5); for(unsigned i = 0; i < std::min(a.m, a.n); i++) M[i][i] = 2.0 + i; return M; };
		add("Matrix::Trace", l, sq, [=]() { return mk().Trace(); });
		add("Matrix::Determinant", l, sq, [=]() { return mk().Determinant(); });
		add("Matrix::Inverse", l, sq, [=]() { return mk().Inverse()[0][0]; });
	}
	add("Matrix::Inverse", "singular_3x3_rank2", REJECT, []() { return Matrix(VV{{1, 2, 3}, {2, 4, 6}, {1, 0, 1}}).Inverse()[0][0]; });
	add("Matrix::Inverse", "zero_matrix", REJECT, []() { return Matrix(3, 3, 0.0).Inverse()[0][0]; });
	add("Matrix::Inverse", "permutation_matrix", ACCEPT, []() { return Matrix(VV{{0, 1, 0}, {0, 0, 1}, {1, 0, 0}}).Inverse()[0][2]; });
	add("Matrix::Matrix(rows)", "regular_2x3", ACCEPT, []() { return Matrix(VV{{1, 2, 3}, {4, 5, 6}})[1][2]; });
	add("Matrix::Matrix(rows)", "ragged_3_then_2", REJECT, []() { return Matrix(VV{{1, 2, 3}, {4, 5}})[0][0]; });
	add("Matrix::Matrix(rows)", "ragged_2_then_3", REJECT, []() { return Matrix(VV{{1, 2}, {4, 5, 6}})[0][0]; });
	add("Matrix::Matrix(blocks)", "valid_2x2_blocks", ACCEPT, []() { return Matrix(std::vector<std::vector<Matrix>>{{Matrix(2, 2, 1.0), Matrix(2, 1, 2.0)}, {Matrix(1, 2, 3.0), Matrix(1, 1, 4.0)}})[2][2]; });
	add("Matrix::Matrix(blocks)", "row_heights_differ", REJECT, []() { return Matrix(std::vector<std::vector<Matrix>>{{Matrix(2, 2, 1.0), Matrix(3, 1, 2.0)}, {Matrix(1, 2, 3.0), Matrix(1, 1, 4.0)}})[0][0]; });
	add("Matrix::Matrix(blocks)", "column_widths_differ", REJECT, []() { return Matrix(std::vector<std::vector<Matrix>>{{Matrix(2, 2, 1.0), Matrix(2, 1, 2.0)}, {Matrix(1, 3, 3.0), Matrix(1, 1, 4.0)}})[0][0]; });
	for(int dim : {1, 2, 3, 4})
		add("Rotation_Matrix", "dim=" + std::to_string(dim), (dim == 2 || dim == 3) ? ACCEPT : REJECT, [=]() { return Rotation_Matrix(0.3, dim)[0][0]; });
	for(unsigned d : {2u, 3u, 4u})
		add("Rotation_Matrix", "dim=3,axis_size=" + std::to_string(d), d == 3 ? ACCEPT : REJECT, [=]() { return Rotation_Matrix(0.3, 3, Vector(d, 1.0))[0][0]; });
	// ---- Interpolation ----------------------------------------------------------------------------------------------
	for(unsigned n : {0u, 1u, 2u, 3u, 4u})
	{
		Side s = n >= 3 ? ACCEPT : REJECT;
		add("Interpolation(lists)", "N=" + std::to_string(n), s, [=]() { V x, y; for(unsigned i = 0; i < n; i++) { x.push_back(i); y.push_back(i * i); } Interpolation I(x, y); return n ? I(x[0]) : 0.0; });
		add("Interpolation(table)", "N=" + std::to_string(n), s, [=]() { VV t; for(unsigned i = 0; i < n; i++) t.push_back({(double)i, (double)i * i}); Interpolation I(t); return n ? I(0.0) : 0.0; });
		add("Interpolation_2D(lists)", "Nx=" + std::to_string(n) + ",Ny=3", s, [=]() { V x, y{0, 1, 2}; for(unsigned i = 0; i < n; i++) x.push_back(i); Interpolation_2D I(x, y, VV(n, V(3, 1.0))); return n ? I(x[0], 1.0) : 0.0; });
		add("Interpolation_2D(lists)", "Nx=3,Ny=" + std::to_string(n), s, [=]() { V x{0, 1, 2}, y; for(unsigned i = 0; i < n; i++) y.push_back(i); Interpolation_2D I(x, y, VV(3, V(n, 1.0))); return n ? I(1.0, y[0]) : 0.0; });
	}
	add("Interpolation(lists)", "lengths_3_vs_4", REJECT, []() { Interpolation I(V{0, 1, 2}, V{0, 1, 2, 3}); return I(1.0); });
	add("Interpolation(lists)", "lengths_4_vs_3", REJECT, []() { Interpolation I(V{0, 1, 2, 3}, V{0, 1, 2}); return I(1.0); });
	add("Interpolation(lists)", "strictly_increasing", ACCEPT, []() { Interpolation I(V{0, 1, 1 + 1e-12, 3}, V{0, 1, 2, 3}); return I(1.0); });
	add("Interpolation(lists)", "repeated_abscissa", REJECT, []() { Interpolation I(V{0, 1, 1, 3}, V{0, 1, 2, 3}); return I(1.0); });
	add("Interpolation(lists)", "decreasing_abscissae", REJECT, []() { Interpolation I(V{3, 2, 1, 0}, V{0, 1, 2, 3}); return I(1.0); });
	add("Interpolation(lists)", "last_pair_not_increasing", REJECT, []() { Interpolation I(V{0, 1, 2, 2}, V{0, 1, 2, 3}); return I(1.0); });
	add("Interpolation(table)", "row_with_3_columns", REJECT, []() { Interpolation I(VV{{0, 1}, {1, 2, 3}, {2, 3}}); return I(1.0); });
	add("Interpolation(table)", "row_with_1_column", REJECT, []() { Interpolation I(VV{{0, 1}, {1}, {2, 3}}); return I(1.0); });
	add("Interpolation_2D(lists)", "values_too_few_rows", REJECT, []() { Interpolation_2D I(V{0, 1, 2}, V{0, 1, 2}, VV(2, V(3, 1.0))); return I(1.0, 1.0); });
	add("Interpolation_2D(lists)", "values_ragged_row", REJECT, []() { VV f(3, V(3, 1.0)); f[1].pop_back(); Interpolation_2D I(V{0, 1, 2}, V{0, 1, 2}, f); return I(1.0, 1.0); });
	for(int row : {0, 2})
		for(int how = 0; how < 3; how++)
		{
			std::string l = std::string("values_ragged_row=") + std::to_string(row) + (how == 0 ? ",too_short" : how == 1 ? ",too_long" : ",empty");
			add("Interpolation_2D(lists)", l, REJECT, [=]() { VV f(3, V(3, 1.0)); if(how == 0) f[row].pop_back(); else if(how == 1) f[row].push_back(2.0); else f[row].clear(); Interpolation_2D I(V{0, 1, 2}, V{0, 1, 2}, f); return I(1.0, 1.0); });
		}
	add("Interpolation_2D(lists)", "values_too_many_rows", REJECT, []() { Interpolation_2D I(V{0, 1, 2}, V{0, 1, 2}, VV(4, V(3, 1.0))); return I(1.0, 1.0); });
	add("Interpolation_2D(lists)", "values_no_rows", REJECT, []() { Interpolation_2D I(V{0, 1, 2}, V{0, 1, 2}, VV{}); return I(1.0, 1.0); });
	add("Interpolation_2D(lists)", "values_too_many_columns", REJECT, []() { Interpolation_2D I(V{0, 1, 2}, V{0, 1, 2}, VV(3, V(4, 1.0))); return I(1.0, 1.0); });
	add("Interpolation_2D(lists)", "x_not_increasing", REJECT, []() { Interpolation_2D I(V{0, 1, 1}, V{0, 1, 2}, VV(3, V(3, 1.0))); return I(0.5, 1.0); });
	add("Interpolation_2D(table)", "valid_3x3", ACCEPT, []() { VV t; for(int i = 0; i < 3; i++) for(int j = 0; j < 3; j++) t.push_back({(double)i, (double)j, (double)(i + j)}); Interpolation_2D I(t); return I(1.0, 1.0); });
	add("Interpolation_2D(table)", "row_with_2_columns", REJECT, []() { VV t; for(int i = 0; i < 3; i++) for(int j = 0; j < 3; j++) t.push_back({(double)i, (double)j, (double)(i + j)}); t[4].pop_back(); Interpolation_2D I(t); return I(1.0, 1.0); });
	add("Interpolation_2D(table)", "missing_grid_point", REJECT, []() { VV t; for(int i = 0; i < 3; i++) for(int j = 0; j < 3; j++) t.push_back({(double)i, (double)j, (double)(i + j)}); t.pop_back(); Interpolation_2D I(t); return I(1.0, 1.0); });
	add("Interpolation_2D(table)", "wrong_order", REJECT, []() { VV t; for(int j = 0; j < 3; j++) for(int i = 0; i < 3; i++) t.push_back({(double)i, (double)j, (double)(i + j)}); Interpolation_2D I(t); return I(1.0, 1.0); });
	// domain test with the 1 % edge tolerance, both ends, three tables
	struct Tab { const char* name; V x; };
	for(Tab tb : {Tab{"uniform", V{0, 1, 2, 3}}, Tab{"short_left_edge", V{10, 10.001, 11, 15}}, Tab{"short_right_edge", V{-5, -3, -2.5, -2.4999}}})
		for(int end = 0; end < 2; end++)
			for(double f : {-0.5, 0.0, 0.0099, 0.0101, 0.5})
			{
				int n	  = tb.x.size();
				double h  = end ? tb.x[n - 1] - tb.x[n - 2] : tb.x[1] - tb.x[0];
				double q  = end ? tb.x[n - 1] + f * h : tb.x[0] - f * h;
				Side s	  = f < 0.01 ? ACCEPT : REJECT;
				std::string l = std::string(tb.name) + "," + (end ? "right" : "left") + ",outside_by=" + mc::dec(f) + "h";
				V x = tb.x, y{1, 3, 2, 5};
				double mid = 0.5 * (x[1] + x[2]);
				add("Interpolation::Interpolate", l, s, [=]() { Interpolation I(x, y); return I(q); });
				add("Interpolation::Locate", l, s, [=]() { Interpolation I(x, y); return (double)I.Locate(q); });
				add("Interpolation::Derivative", l, s, [=]() { Interpolation I(x, y); return I.Derivative(q, 1); });
				add("Interpolation::Integrate", l, s, [=]() { Interpolation I(x, y); return I.Integrate(mid, q); });
				add("Interpolation::Local_Minimum", l, s, [=]() { Interpolation I(x, y); return end ? I.Local_Minimum(mid, q) : I.Local_Minimum(q, mid); });
				add("Interpolation::Local_Maximum", l, s, [=]() { Interpolation I(x, y); return end ? I.Local_Maximum(mid, q) : I.Local_Maximum(q, mid); });
				add("Interpolation_2D::Interpolate(x)", l, s, [=]() { Interpolation_2D I(x, V{0, 1, 2}, VV(4, V(3, 1.0))); return I(q, 1.0); });
				add("Interpolation_2D::Interpolate(y)", l, s, [=]() { Interpolation_2D I(V{0, 1, 2}, x, VV(3, V(4, 1.0))); return I(1.0, q); });
			}
	// two-argument requests with both arguments in one extrapolation zone, at one end knot, or one in each zone: all meaningful
	for(Tab tb : {Tab{"uniform", V{0, 1, 2, 3}}, Tab{"short_left_edge", V{10, 10.001, 11, 15}}, Tab{"short_right_edge", V{-5, -3, -2.5, -2.4999}}})
	{
		int n = tb.x.size();
		double hl = tb.x[1] - tb.x[0], hr = tb.x[n - 1] - tb.x[n - 2], x0 = tb.x[0], xn = tb.x[n - 1];
		struct Pair { const char* name; double a, b; };
		for(Pair pr : {Pair{"both_in_right_zone", xn + 0.002 * hr, xn + 0.008 * hr}, Pair{"both_in_left_zone", x0 - 0.008 * hl, x0 - 0.002 * hl}, Pair{"last_knot_to_right_zone", xn, xn + 0.009 * hr},
					   Pair{"left_zone_to_first_knot", x0 - 0.009 * hl, x0}, Pair{"left_zone_to_right_zone", x0 - 0.005 * hl, xn + 0.005 * hr}, Pair{"both_at_last_knot", xn, xn}, Pair{"both_at_first_knot", x0, x0}})
		{
			V x = tb.x, y{1, 3, 2, 5};
			double a = pr.a, b = pr.b;
			std::string l = std::string(tb.name) + "," + pr.name;
			add("Interpolation::Integrate", l, ACCEPT, [=]() { Interpolation I(x, y); return I.Integrate(a, b); });
			add("Interpolation::Integrate(reversed)", l, ACCEPT, [=]() { Interpolation I(x, y); return I.Integrate(b, a); });
			add("Interpolation::Local_Minimum", l, ACCEPT, [=]() { Interpolation I(x, y); return I.Local_Minimum(a, b); });
			add("Interpolation::Local_Maximum", l, ACCEPT, [=]() { Interpolation I(x, y); return I.Local_Maximum(a, b); });
			add("Interpolation::Local_Maximum(negative prefactor)", l, ACCEPT, [=]() { Interpolation I(x, y); I.Multiply(-2.0); return I.Local_Maximum(a, b) + I.Local_Minimum(a, b); });
		}
	}
	// the same domain test on a table given in other units (x_dim): the tolerance is 1 % of the edge interval of the converted abscissae
	for(double xd : {1e-3, 1e3, 7.0})
		for(int end = 0; end < 2; end++)
			for(double f : {0.0, 0.005, 0.0099, 0.0101, 0.1, 5.0})
			{
				V x{0, 1, 2, 3.5}, y{1, 3, 2, 5};
				double h = (end ? 1.5 : 1.0) * xd, q = end ? 3.5 * xd + f * h : -f * h;
				Side s = f < 0.01 ? ACCEPT : REJECT;
				std::string l = "x_dim=" + mc::dec(xd) + "," + (end ? "right" : "left") + ",outside_by=" + mc::dec(f) + "h";
				add("Interpolation(x_dim)::Interpolate", l, s, [=]() { Interpolation I(x, y, xd, 2.0); return I(q); });
				add("Interpolation(x_dim)::Integrate", l, s, [=]() { Interpolation I(x, y, xd, 2.0); return I.Integrate(1.5 * xd, q); });
			}
	add("Interpolation::Local_Minimum", "x1<x2", ACCEPT, []() { Interpolation I(V{0, 1, 2, 3}, V{1, 3, 2, 5}); return I.Local_Minimum(0.5, 2.5); });
	add("Interpolation::Local_Minimum", "x1==x2", ACCEPT, []() { Interpolation I(V{0, 1, 2, 3}, V{1, 3, 2, 5}); return I.Local_Minimum(1.5, 1.5); });
	add("Interpolation::Local_Minimum", "x1>x2", REJECT, []() { Interpolation I(V{0, 1, 2, 3}, V{1, 3, 2, 5}); return I.Local_Minimum(2.5, 0.5); });
	add("Interpolation::Local_Maximum", "x1<x2", ACCEPT, []() { Interpolation I(V{0, 1, 2, 3}, V{1, 3, 2, 5}); return I.Local_Maximum(0.5, 2.5); });
	add("Interpolation::Local_Maximum", "x1>x2", REJECT, []() { Interpolation I(V{0, 1, 2, 3}, V{1, 3, 2, 5}); return I.Local_Maximum(2.5, 0.5); });
	// ---- Find_Root -------------------------------------------------------------------------------------------------
	add("Find_Root", "sign_change", ACCEPT, []() { return Find_Root([](double x) { return x * x - 2; }, 0, 2, 1e-8); });
	add("Find_Root", "sign_change_reversed", ACCEPT, []() { return Find_Root([](double x) { return x * x - 2; }, 2, 0, 1e-8); });
	add("Find_Root", "zero_at_left_end", ACCEPT, []() { return Find_Root([](double x) { return x; }, 0, 2, 1e-8); });
	add("Find_Root", "no_sign_change_positive", REJECT, []() { return Find_Root([](double x) { return x * x + 1; }, 0, 2, 1e-8); });
	add("Find_Root", "no_sign_change_negative", REJECT, []() { return Find_Root([](double x) { return -x * x - 1; }, -1, 2, 1e-8); });
	add("Find_Root", "nan_at_left_end", REJECT, []() { return Find_Root([](double x) { return std::log(x - 1); }, 0, 5, 1e-8); });
	add("Find_Root", "nan_at_right_end", REJECT, []() { return Find_Root([](double x) { return std::sqrt(1 - x) - 0.5; }, 0, 5, 1e-8); });
	// ---- Integration -----------------------------------------------------------------------------------------------
	for(const char* m : {"Trapezoidal", "Gauss-Legendre", "Gauss-Kronrod", "Tanh-Sinh", "Gauss-Legendre_2", "Adaptive-Simpson"})
	{
		std::string ms = m;
		add("Integrate(method)", ms, ACCEPT, [=]() { return Integrate([](double x) { return std::exp(-x); }, 0.0, 1.0, ms); });
		add("Integrate_2D(method)", ms, ACCEPT, [=]() { return Integrate_2D([](double x, double y) { return x + y; }, 0, 1, 0, 1, ms); });
	}
	for(const char* m : {"Monte-Carlo", "Vegas", "Miser"})
	{
		std::string ms = m;
		add("Integrate(method)", ms, REJECT, [=]() { return Integrate([](double x) { return std::exp(-x); }, 0.0, 1.0, ms); });
		add("Integrate_2D(method)", ms, ACCEPT, [=]() { return Integrate_2D([](double x, double y) { return x + y; }, 0, 1, 0, 1, ms, 2000); });
		add("Integrate_3D(method)", ms, ACCEPT, [=]() { return Integrate_3D([](double x, double y, double z) { return x + y + z; }, 0, 1, 0, 1, 0, 1, ms, 2000); });
		add("Integrate_MC(method)", ms, ACCEPT, [=]() { V region{0, 0, 1, 1}; return Integrate_MC([](V& a, const double) { return a[0] + a[1]; }, region, 2000, ms); });
	}
	for(const char* m : {"", "gauss-legendre", "Gauss-Legendre ", "Simpson", "Gauss_Legendre", "Vegas2"})
	{
		std::string ms = m;
		add("Integrate(method)", "unknown:'" + ms + "'", REJECT, [=]() { return Integrate([](double x) { return std::exp(-x); }, 0.0, 1.0, ms); });
		add("Integrate_2D(method)", "unknown:'" + ms + "'", REJECT, [=]() { return Integrate_2D([](double x, double y) { return x + y; }, 0, 1, 0, 1, ms); });
		add("Integrate_3D(method)", "unknown:'" + ms + "'", REJECT, [=]() { return Integrate_3D([](double x, double y, double z) { return x + y + z; }, 0, 1, 0, 1, 0, 1, ms); });
		add("Integrate_MC(method)", "unknown:'" + ms + "'", REJECT, [=]() { V region{0, 0, 1, 1}; return Integrate_MC([](V& a, const double) { return a[0] + a[1]; }, region, 2000, ms); });
	}
	for(unsigned nv : {3u, 4u, 5u})
		add("Integrate_Gauss_Legendre(values,rule)", "rule=4,values=" + std::to_string(nv), nv == 4 ? ACCEPT : REJECT, [=]() { return Integrate_Gauss_Legendre(V(nv, 1.0), Compute_Gauss_Legendre_Roots_and_Weights(4, 0, 1)); });
	// ---- Statistics -------------------------------------------------------------------------------------------------
	for(double p : {-1e-9, 0.0, -0.0, 0.3, 1.0, 1.0 + 1e-9})	// (-0.0 is the number zero)
	{
		Side s = (p >= 0 && p <= 1) ? ACCEPT : REJECT;
		if(std::isnan(p)) continue;
		add("PMF_Binomial", "p=" + mc::dec(p), s, [=]() { return PMF_Binomial(10, p, 3); });
		add("CDF_Binomial", "p=" + mc::dec(p), s, [=]() { return CDF_Binomial(10, p, 3); });
	}
	for(double mu : {-1e-9, 0.0, -0.0, 2.5})
	{
		Side s = mu >= 0 ? ACCEPT : REJECT;
		add("PMF_Poisson", "mean=" + mc::dec(mu), s, [=]() { return PMF_Poisson(mu, 2); });
		add("CDF_Poisson", "mean=" + mc::dec(mu), s, [=]() { return CDF_Poisson(mu, 2); });
	}
	for(double c : {-1e-9, 1e-9, 0.5, 1.0 - 1e-9, 1.0 + 1e-9})
	{
		Side s = (c >= 0 && c <= 1) ? ACCEPT : REJECT;
		add("Inv_CDF_Poisson", "cdf=" + mc::dec(c), s, [=]() { return Inv_CDF_Poisson(3, c); });
	}
	for(double m : {-1.0, 0.0, 1e-9, 2.0})
	{
		Side s = m > 0 ? ACCEPT : REJECT;
		add("PDF_Exponential", "mean=" + mc::dec(m), s, [=]() { return PDF_Exponential(1.0, m); });
		add("CDF_Exponential", "mean=" + mc::dec(m), s, [=]() { return CDF_Exponential(1.0, m); });
		add("PDF_Maxwell_Boltzmann", "a=" + mc::dec(m), s, [=]() { return PDF_Maxwell_Boltzmann(1.0, m); });
		add("CDF_Maxwell_Boltzmann", "a=" + mc::dec(m), s, [=]() { return CDF_Maxwell_Boltzmann(1.0, m); });
	}
	for(unsigned no : {2u, 3u, 4u})
		for(unsigned nb : {0u, 2u, 3u, 4u})
		{
			Side s = (no == 3 && (nb == 0 || nb == 3)) ? ACCEPT : REJECT;
			std::string l = "pred=3,obs=" + std::to_string(no) + ",bkg=" + std::to_string(nb);
			add("Log_Likelihood_Poisson_Binned", l, s, [=]() { return Log_Likelihood_Poisson_Binned(V(3, 1.5), std::vector<unsigned long>(no, 2), V(nb, 0.5)); });
			add("Likelihood_Poisson_Binned", l, s, [=]() { return Likelihood_Poisson_Binned(V(3, 1.5), std::vector<unsigned long>(no, 2), V(nb, 0.5)); });
		}
	for(unsigned ds : {0u, 1u, 2u, 3u, 4u})
	{
		std::string l = "domain_size=" + std::to_string(ds);
		add("Sample_Metropolis", l, (ds == 0 || ds == 2) ? ACCEPT : REJECT, [=]() { std::mt19937 g(1); V dom; for(unsigned i = 0; i < ds; i++) dom.push_back(-1.0 + i); auto s = Sample_Metropolis(g, [](double x) { return std::exp(-x * x); }, 0.5, 5, 2, 3, dom); return (double)s.size(); });
		add("Sample_Metropolis_2D", l, (ds == 0 || ds == 4) ? ACCEPT : REJECT, [=]() { std::mt19937 g(1); V dom; for(unsigned i = 0; i < ds; i++) dom.push_back(i % 2 ? 1.0 : -1.0); auto s = Sample_Metropolis_2D(g, [](double x, double y) { return std::exp(-x * x - y * y); }, {0.5, 0.5}, 5, 2, 3, dom); return (double)s.size(); });
	}
	add("Rejection_Sampling", "valid_envelope", ACCEPT, []() { std::mt19937 g(1); return Rejection_Sampling([](double x) { return 0.5; }, 0, 2, 0.5, g); });
	add("Rejection_Sampling", "negative_pdf", REJECT, []() { std::mt19937 g(1); return Rejection_Sampling([](double x) { return -0.5; }, 0, 2, 0.5, g); });
	add("Rejection_Sampling", "pdf_above_envelope", REJECT, []() { std::mt19937 g(1); return Rejection_Sampling([](double x) { return 2.0; }, 0, 2, 0.5, g); });
	add("Rejection_Sampling_2D", "valid_envelope", ACCEPT, []() { std::mt19937 g(1); std::function<double(double, double)> f = [](double x, double y) { return 0.25; }; return Rejection_Sampling_2D(g, f, 0, 2, -1, 1, 0.25).first; });
	add("Rejection_Sampling_2D", "pdf_above_envelope", REJECT, []() { std::mt19937 g(1); std::function<double(double, double)> f = [](double x, double y) { return 2.0; }; return Rejection_Sampling_2D(g, f, 0, 2, -1, 1, 0.25).first; });
	add("Rejection_Sampling_2D", "negative_pdf", REJECT, []() { std::mt19937 g(1); std::function<double(double, double)> f = [](double x, double y) { return -0.5; }; return Rejection_Sampling_2D(g, f, 0, 2, -1, 1, 0.25).first; });
	add("Rejection_Sampling_2D", "nan_pdf", REJECT, []() { std::mt19937 g(1); std::function<double(double, double)> f = [](double x, double y) { return std::nan(""); }; return Rejection_Sampling_2D(g, f, 0, 2, -1, 1, 0.25).first; });
	add("Rejection_Sampling", "nan_pdf", REJECT, []() { std::mt19937 g(1); return Rejection_Sampling([](double x) { return std::nan(""); }, 0, 2, 0.5, g); });
	add("Rejection_Sampling", "pdf_within_one_percent_above_envelope", ACCEPT, []() { std::mt19937 g(1); return Rejection_Sampling([](double x) { return 0.503; }, 0, 2, 0.5, g); });
	// ---- Special functions --------------------------------------------------------------------------------------------
	for(unsigned n : {0u, 169u, 170u, 171u, 172u, UINT_MAX})
		add("Factorial", "n=" + std::to_string(n), n <= 170 ? ACCEPT : REJECT, [=]() { return Factorial(n); });
	for(auto nk : std::vector<std::pair<int, int>>{{5, 2}, {0, 0}, {3, 5}, {-1, 0}, {5, -1}, {-2, -3}, {171, 3}, {400, 200}})
		add("Binomial_Coefficient", "n=" + std::to_string(nk.first) + ",k=" + std::to_string(nk.second), (nk.first >= 0 && nk.second >= 0) ? ACCEPT : REJECT, [=]() { return Binomial_Coefficient(nk.first, nk.second); });
	for(double x : {-1.0, 0.0, 1e-300, 1.0})
	{
		add("GammaLn", "x=" + mc::dec(x), x > 0 ? ACCEPT : REJECT, [=]() { return GammaLn(x); });
		add("Gamma", "x=" + mc::dec(x), x > 0 ? ACCEPT : REJECT, [=]() { return Gamma(x); });
		add("Inv_GammaP", "a=" + mc::dec(x), x > 0 ? ACCEPT : REJECT, [=]() { return Inv_GammaP(0.3, x); });
		add("Inv_GammaQ", "a=" + mc::dec(x), x > 0 ? ACCEPT : REJECT, [=]() { return Inv_GammaQ(0.3, x); });
	}
	for(auto xa : std::vector<std::pair<double, double>>{{0.0, 1.0}, {2.0, 3.0}, {-1e-9, 1.0}, {1.0, 0.0}, {1.0, -2.0}, {50.0, 150.0}})
	{
		Side s = (xa.first >= 0 && xa.second > 0) ? ACCEPT : REJECT;
		std::string l = "x=" + mc::dec(xa.first) + ",a=" + mc::dec(xa.second);
		add("GammaQ", l, s, [=]() { return GammaQ(xa.first, xa.second); });
		add("GammaP", l, s, [=]() { return GammaP(xa.first, xa.second); });
	}
	// both arguments together: the complete product of the boundary values (a guard may sit behind a shortcut for one argument)
	for(double x : {-1.0, -1e-9, 0.0, -0.0, 1e-300, 1.0, 50.0})
		for(double a : {-2.0, 0.0, -0.0, 1e-3, 1.0, 150.0})
		{
			Side s = (x >= 0 && a > 0) ? ACCEPT : REJECT;
			std::string l = "product,x=" + mc::dec(x) + ",a=" + mc::dec(a);
			add("GammaQ", l, s, [=]() { return GammaQ(x, a); });
			add("GammaP", l, s, [=]() { return GammaP(x, a); });
			// CDF_Chi_Square is guarded through GammaP for x >= 0 (dof = 0 is the documented point mass at zero; x < 0 is answered 0 before any guard)
			if(x >= 0) add("CDF_Chi_Square", "product,x=" + mc::dec(x) + ",dof=" + mc::dec(2 * a), (a >= 0) ? ACCEPT : REJECT, [=]() { return CDF_Chi_Square(x, 2 * a); });
		}
	for(unsigned d : {1u, 7u, 8u, UINT_MAX})
		add("Round", "digits=" + std::to_string(d), d <= 7 ? ACCEPT : REJECT, [=]() { return Round(123.456789, d); });
	for(int c : {-1, 0, 2, 3})
	{
		add("VSH_Y_Component", "component=" + std::to_string(c), (c >= 0 && c <= 2) ? ACCEPT : REJECT, [=]() { return VSH_Y_Component(c, 2, 1, 3, 2).real(); });
		add("VSH_Psi_Component", "component=" + std::to_string(c), (c >= 0 && c <= 2) ? ACCEPT : REJECT, [=]() { return VSH_Psi_Component(c, 2, 1, 3, 2).real(); });
	}
	for(double p : {-1.0 - 1e-9, -1.0, -0.999, 0.0, -0.0, 0.999, 1.0, 1.5})
		add("Inv_Erf", "p=" + mc::dec(p), (std::fabs(p) <= 1.0) ? ACCEPT : REJECT, [=]() { return Inv_Erf(p); });	// the ends +-1 are answered +-10 (documented saturation)
	// ---- lists, files, utilities ---------------------------------------------------------------------------------------
	add("Transpose_Lists", "equal_lengths", ACCEPT, []() { return Transpose_Lists(VV{{1, 2, 3}, {4, 5, 6}})[2][1]; });
	add("Transpose_Lists", "second_shorter", REJECT, []() { return Transpose_Lists(VV{{1, 2, 3}, {4, 5}})[0][0]; });
	add("Transpose_Lists", "second_longer", REJECT, []() { return Transpose_Lists(VV{{1, 2}, {4, 5, 6}})[0][0]; });
	add("Transpose_Lists(v1,v2)", "lengths_2_3", REJECT, []() { return Transpose_Lists(V{1, 2}, V{4, 5, 6})[0][0]; });
	for(unsigned n : {1u, 3u})
		for(int i1 : {-1, 0, 1, 3, 4})
			for(unsigned i2 : {0u, 2u, 3u, 4u})
				add("Sub_List", "n=" + std::to_string(n) + ",i1=" + std::to_string(i1) + ",i2=" + std::to_string(i2), ACCEPT, [=]() { V v; for(unsigned i = 0; i < n; i++) v.push_back(i + 1); auto s = Sub_List(v, i1, i2); double t = 0; for(double x : s) t += x; return t; });
	for(unsigned rl : {1u, 2u, 3u})
		for(unsigned nd : {1u, 2u, 3u})
			add("In_Units(table,units)", "row_length=" + std::to_string(rl) + ",units=" + std::to_string(nd), rl == nd ? ACCEPT : REJECT, [=]() { return libphysica::natural_units::In_Units(VV{V(2, 1.0), V(rl, 3.0)}.back().size() == 2 && rl == 2 ? VV{V(2, 1.0), V(2, 3.0)} : VV{V(nd, 1.0), V(rl, 3.0)}, V(nd, 2.0))[0][0]; });
	add("Locate_Closest_Location", "sorted", ACCEPT, []() { return (double)Locate_Closest_Location(V{1, 2, 2, 5}, 2.1); });
	add("Locate_Closest_Location", "unsorted", REJECT, []() { return (double)Locate_Closest_Location(V{1, 3, 2, 5}, 2.1); });
	add("Check_For_Error", "condition_false", ACCEPT, []() { Check_For_Error(false, "f", "m"); return 0.0; });
	add("Check_For_Error", "condition_true", REJECT, []() { Check_For_Error(true, "f", "m"); return 0.0; });
	add("Check_For_Warning", "condition_true", ACCEPT, []() { Check_For_Warning(true, "f", "m"); return 0.0; });
	{
		std::string dir = g_tmp;
		add("Import_List", "existing_file", ACCEPT, [=]() { std::string f = dir + "/c10_list_" + std::to_string(getpid()); Export_List(f, V{1, 2, 3}); double r = Import_List(f)[2]; unlink(f.c_str()); return r; });
		add("Import_List", "missing_file", REJECT, [=]() { return Import_List(dir + "/does_not_exist_c10")[0]; });
		add("Import_Table", "missing_file", REJECT, [=]() { return Import_Table(dir + "/does_not_exist_c10")[0][0]; });
		for(unsigned nd : {0u, 1u, 2u, 3u})
		{
			Side s = (nd == 0 || nd == 2) ? ACCEPT : REJECT;
			add("Import_Table", "columns=2,dimensions=" + std::to_string(nd), s, [=]() { std::string f = dir + "/c10_tab_" + std::to_string(getpid()); Export_Table(f, VV{{1, 2}, {3, 4}, {5, 6}}); auto t = Import_Table(f, V(nd, 2.0)); unlink(f.c_str()); return t[2][1]; });
			if(nd == 2)
				for(int bad_row = 0; bad_row < 3; bad_row++)
					for(int len : {1, 3})
						add("Export_Table", "ragged,row=" + std::to_string(bad_row) + ",length=" + std::to_string(len) + ",dimensions=2", REJECT, [=]() { std::string f = dir + "/c10_tabr_" + std::to_string(getpid()); VV t{{1, 2}, {3, 4}, {5, 6}}; t[bad_row].assign(len, 7.0); Export_Table(f, t, V(2, 2.0)); unlink(f.c_str()); return 0.0; });
			add("Export_Table", "columns=2,dimensions=" + std::to_string(nd), s, [=]() { std::string f = dir + "/c10_tabx_" + std::to_string(getpid()); Export_Table(f, VV{{1, 2}, {3, 4}, {5, 6}}, V(nd, 2.0)); unlink(f.c_str()); return 0.0; });
		}
	}
}

int main(int argc, char** argv)
{
	mc::init(argc, argv);
	g_tmp = mc::ctx().tmp;
	build_table();
	if(mc::ctx().replay)
	{
		// "entry|letter": run that one request in this process (exits or returns like the library does)
		for(auto& r : T)
			if(r.entry + "|" + r.letter == mc::ctx().replay_case)
			{
				auto o = mc::isolate([&](std::function<void(const std::string&)> out) { out(mc::dec(r.body())); });
				printf("%s|%s expected %s, outcome: %s payload=%s\n%s\n", r.entry.c_str(), r.letter.c_str(), r.side == ACCEPT ? "to return" : "a diagnostic exit", o.name(), o.payload.c_str(), o.out.substr(0, 600).c_str());
				bool ok = r.side == ACCEPT ? o.kind == mc::Outcome::RETURNED : o.diagnostic();
				return ok ? 0 : 1;
			}
		printf("request not found in the table\n");
		return 2;
	}
	mc::bound("rule", "declarative table: guarded entry point x boundary letter -> side of the guard; one request per child process in the ASan+UBSan build; rejected side must exit with failure status and a non-empty diagnostic and nothing else (no sanitizer report, signal, timeout, normal return); accepted side must return; non-trivial = requests on the rejected side or adjacent to a guard");
	std::set<std::string> entries;
	long long rej = 0;
	for(size_t i = 0; i < T.size(); i++)
	{
		entries.insert(T[i].entry);
		if(T[i].side == REJECT) rej++;
		if(!mc::mine(i)) continue;
		auto& r = T[i];
		auto o	= mc::isolate([&](std::function<void(const std::string&)> out) { out(mc::dec(r.body())); }, 20.0);
		mc::count("evaluations", 1);
		mc::count("distinct_nontrivial", 1);
		bool ok = r.side == ACCEPT ? o.kind == mc::Outcome::RETURNED : o.diagnostic();
		if(r.side == REJECT && o.diagnostic())
		{
			// which of the library's guards answered (for the evidence: guard sites reached)
			size_t a = o.out.find("Error in ");
			if(a != std::string::npos)
			{
				size_t b = o.out.find_first_of(" \n", a + 9);
				std::string site = o.out.substr(a + 9, b == std::string::npos ? std::string::npos : b - a - 9);
				while(!site.empty() && (site.back() == ':' || site.back() == '.')) site.pop_back();
				mc::count("guard_site." + site, 1);
			}
			else mc::count("guard_site.(other wording)", 1);
		}
		std::string key = r.entry + "|" + r.letter;
		std::replace(key.begin(), key.end(), ' ', '_');
		if(!ok)
		{
			std::string cls = r.side == ACCEPT ? std::string("valid_request_") + o.name() : (o.kind == mc::Outcome::RETURNED ? "meaningless_request_returned" : o.kind == mc::Outcome::EXIT_FAIL ? "exit_without_diagnostic" : std::string("meaningless_request_") + o.name());
			mc::violation("guards", "guards|" + key + "|" + cls, std::string(r.side == ACCEPT ? "valid request: " : "meaningless request: ") + "outcome " + o.name() + (o.payload.empty() ? "" : " (returned " + o.payload + ")") + " :: " + o.out.substr(0, 300), r.entry + "|" + r.letter);
		}
		if(i % 97 == 0) mc::sample(key + " -> " + (r.side == ACCEPT ? "must return" : "must exit with diagnostic") + "; observed " + o.name(), 4);
	}
	if(mc::shard0())
	{
		mc::alphabet("guarded_entry_points", entries.size());
		mc::alphabet("requests", T.size());
		mc::alphabet("requests_on_rejected_side", rej);
	}
	return mc::finish();
}
