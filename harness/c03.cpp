// C03 — Adaptive Simpson integration meets its error request and is exact on quintics.
// M3: complete products (quintics, estimator-regular families); M2: the harness plays the integrand
// (deviation-bounded DFS over answers) for the structural clauses and against a textbook reference recursion.
#include "mc/mc.hpp"
#include "mc/purity.hpp"
#include "libphysica/Integration.hpp"
#include <map>
using namespace libphysica;
typedef long double ld;
static const double K = 16;

struct Rec
{
	std::vector<double> xs;
	std::function<double(double)> f;
	std::function<double(double)> fn()
	{
		return [this](double x) { xs.push_back(x); return f(x); };
	}
};

static void silence()
{
	int fd = open("/dev/null", O_WRONLY);
	dup2(fd, 1);
	dup2(fd, 2);
}

// structural clauses for one call; returns result
static double structural(const std::string& part, const std::string& ckey, const std::string& cdesc, std::function<double(double)> f, double a, double b, double eps, int depth, long long& evals, bool* bottomed = nullptr)
{
	Rec r1{{}, f}, r2{{}, f}, r3{{}, f};
	double v  = Integrate(r1.fn(), a, b, eps, depth);
	double vs = Integrate(r2.fn(), b, a, eps, depth);
	double vn = Integrate(r3.fn(), a, b, -eps, depth);
	evals += r1.xs.size() + r2.xs.size() + r3.xs.size();
	auto viol = [&](const std::string& cls, const std::string& text) { mc::violation(part, part + "|" + ckey + "|" + cls, text, cdesc + " class=" + cls); };
	if(!(mc::same_bits(vs, -v) || (v == 0 && vs == 0))) viol("swap_not_negation", "I(a,b)=" + mc::dec(v) + " I(b,a)=" + mc::dec(vs));
	if(!mc::same_bits(vn, v)) viol("epsilon_sign_matters", "I(eps)=" + mc::dec(v) + " I(-eps)=" + mc::dec(vn));
	double lo = std::min(a, b), hi = std::max(a, b);
	for(double x : r1.xs)
		if(!(x >= lo && x <= hi)) { viol("evaluated_outside_interval", "evaluated at " + mc::dec(x)); break; }
	for(double x : r2.xs)
		if(!(x >= lo && x <= hi)) { viol("evaluated_outside_interval", "swapped call evaluated at " + mc::dec(x)); break; }
	double maxev = std::ldexp(1.0, depth + 2) + 1;
	if(a != b && (double)r1.xs.size() > maxev) viol("too_many_evaluations", std::to_string(r1.xs.size()) + " evaluations, bound " + mc::dec(maxev));
	if(a == b && (!r1.xs.empty() || v != 0.0)) viol("equal_limits", "equal limits: result " + mc::dec(v) + " after " + std::to_string(r1.xs.size()) + " evaluations");
	if(bottomed)
	{
		std::vector<double> s = r1.xs;
		std::sort(s.begin(), s.end());
		double mind = INFINITY;
		for(size_t i = 1; i < s.size(); i++) mind = std::min(mind, s[i] - s[i - 1]);
		*bottomed = mind <= (hi - lo) / std::ldexp(1.0, depth + 2) * 1.5;
	}
	return v;
}

static void quintics(unsigned long long& unit)
{
	const double CO[4] = {0, 1, -2, 0.5};
	std::vector<std::pair<double, double>> ivs = {{0, 1}, {-1, 2}, {3, 3 + 1e-6}, {-500, 500}, {1, 0}, {2, -1}, {3 + 1e-6, 3}, {500, -500}, {0.5, 0.5}};
	// limits that are neighbouring doubles, or two and three units in the last place apart (the midpoint then rounds onto a limit)
	{
		auto up = [](double x, int k) { for(int i = 0; i < k; i++) x = std::nextafter(x, INFINITY); return x; };
		ivs.push_back({1e10, up(1e10, 1)});
		ivs.push_back({up(-3e12, 1), -3e12});
		ivs.push_back({2.5e14, up(2.5e14, 3)});
		ivs.push_back({1.0, up(1.0, 1)});
		ivs.push_back({-0.75, up(-0.75, 2)});
	}
	std::vector<double> epss = {1e-18, 1e-9, 1e-3, 1e2, -1e-3};
	std::vector<int> depths	 = {0, 1, 2, 5, 12};
	mc::alphabet("quintic_coefficient_vectors", 4096);
	mc::alphabet("intervals", ivs.size());
	mc::alphabet("epsilons", epss.size());
	mc::alphabet("depths", depths.size() + (mc::thorough() ? 2 : 0));
	long long cases = 0, evals = 0, nontriv = 0;
	for(int pi = 0; pi < 4096; pi++)
	{
		if(!mc::mine(unit++)) continue;
		if(mc::out_of_time("C03 quintics")) return;
		double c[6];
		int deg = 0;
		for(int k = 0, t = pi; k < 6; k++, t /= 4) { c[k] = CO[t % 4]; if(c[k] != 0) deg = k; }
		auto f = [&c](double x) { return ((((c[5] * x + c[4]) * x + c[3]) * x + c[2]) * x + c[1]) * x + c[0]; };
		std::vector<int> dd = depths;
		if(mc::thorough() && pi % 64 == 7) { dd.push_back(20); dd.push_back(25); }
		for(auto& iv : ivs)
			for(double eps : epss)
				for(int depth : dd)
				{
					if(depth >= 20 && (std::fabs(eps) < 1e-9) && std::fabs(iv.second - iv.first) > 10) continue;	 // 2^27 evaluations each: keep two
					std::string ck = "c=" + mc::decv(std::vector<double>(c, c + 6)) + ",a=" + mc::dec(iv.first) + ",b=" + mc::dec(iv.second) + ",eps=" + mc::dec(eps) + ",depth=" + std::to_string(depth);
					double v = structural("quintic", ck, ck, f, iv.first, iv.second, eps, depth, evals);
					// exact antiderivative difference in binary128 (the cancellation B^k-A^k on short intervals needs the extra bits)
					__float128 A = iv.first, B = iv.second, exq = 0, pa = A, pb = B;
					ld X = std::max(fabsl(iv.first), fabsl(iv.second)), cond = 0, px = 1;
					for(int k = 0; k < 6; k++)
					{
						exq += (__float128)c[k] * (pb - pa) / (k + 1);
						pa *= A; pb *= B;
						cond += fabsl(c[k]) * px;
						px *= X;
					}
					ld ex = (ld)exq;
					double tol = K * mc::U_ * (depth + 2) * (double)(cond * fabsl((ld)iv.second - iv.first)) + mc::ETA;
					if(!(std::fabs((double)(v - ex)) <= tol)) mc::violation("quintic", "quintic|" + ck + "|not_exact", "Integrate=" + mc::dec(v) + " exact " + mc::dec((double)ex) + " tol " + mc::dec(tol), ck);
					else mc::maxi("quintic_err_over_tol", std::fabs((double)(v - ex)) / tol);
					cases++;
					if(deg >= 4) nontriv++;
				}
		if(cases && pi == 1234) mc::sample("quintic c=" + mc::decv(std::vector<double>(c, c + 6)) + " on 9 intervals x 5 epsilon x 5 depths: exact antiderivative vs Integrate, swap/eps-sign/location/count clauses");
	}
	mc::count("quintic_cases", cases);
	mc::count("evaluations", cases);
	mc::count("distinct_nontrivial", nontriv);
	mc::count("transitions", evals);
}

// ---- special structures: zeros at the rule's own abscissae, re-entrant integrands, deep one-sided refinement -------------------
static void special_structures(unsigned long long& unit)
{
	long long cases = 0, evals = 0;
	// (0) explicit depths around the default with a request that cannot be met: the count stays within 2^(depth+2)+1
	for(int depth : {18, 19, 20, 21})
		for(double eps : {1e-18, -1e-16, 0.0})
		{
			if(!mc::mine(unit++)) continue;
			// (a noise-like integrand: no panel ever meets the request, so the whole tree down to the depth bound is visited)
			auto f = [](double x) { double t = std::sin(x * 12345.678 + 0.1) * 43758.5453; return t - std::floor(t); };
			std::string ck = "unreachable_request,depth=" + std::to_string(depth) + ",eps=" + mc::dec(eps);
			structural("special", ck, ck, f, 0.0, 1.0, eps, depth, evals);
			cases++;
		}
	// (a) polynomials of degree <= 5 that vanish on a subset of the first five Simpson abscissae a, a+h/4, m, b-h/4, b
	std::vector<std::pair<double, double>> ivs = {{0, 1}, {-1, 1}, {-1, 2}, {2, -1}, {3, 3.5}};
	for(auto& iv : ivs)
		for(int subset = 1; subset < 32; subset++)
			for(double lead : {1.0, -2.5})
			{
				if(!mc::mine(unit++)) continue;
				double a = iv.first, b = iv.second, h = b - a;
				std::vector<double> roots;
				for(int k = 0; k < 5; k++) if(subset & (1 << k)) roots.push_back(a + h * k / 4);
				auto f = [&](double x) { double p = lead; for(double r : roots) p *= (x - r); return p; };
				// coefficients in binary128 (roots are dyadic: exact)
				std::vector<__float128> c{(__float128)lead};
				for(double r : roots)
				{
					std::vector<__float128> n(c.size() + 1, 0);
					for(size_t k = 0; k < c.size(); k++) { n[k + 1] += c[k]; n[k] -= c[k] * (__float128)r; }
					c = n;
				}
				__float128 A = a, B = b, exq = 0, pa = A, pb = B;
				ld X = std::max(fabsl(a), fabsl(b)), cond = 0, px = 1;
				for(size_t k = 0; k < c.size(); k++) { exq += c[k] * (pb - pa) / (k + 1); pa *= A; pb *= B; cond += fabsl((ld)c[k]) * px; px *= X; }
				for(double eps : {1e-18, 1e-6, 1e2})
					for(int depth : {0, 1, 3, 8})
					{
						std::string ck = "roots=" + mc::decv(roots) + ",lead=" + mc::dec(lead) + ",a=" + mc::dec(a) + ",b=" + mc::dec(b) + ",eps=" + mc::dec(eps) + ",depth=" + std::to_string(depth);
						double v = structural("zeros_at_abscissae", ck, ck, f, a, b, eps, depth, evals);
						double tol = K * mc::U_ * (depth + 2) * (double)(cond * fabsl((ld)b - a)) + mc::ETA;
						if(!(std::fabs((double)(v - (ld)exq)) <= tol)) mc::violation("zeros_at_abscissae", "zeros_at_abscissae|" + ck + "|not_exact", "Integrate=" + mc::dec(v) + " exact " + mc::dec((double)(ld)exq) + " tol " + mc::dec(tol), ck);
						cases++;
					}
			}
	// (b) an integrand that itself calls Integrate with other settings (nested integration): the outer call must behave exactly as it
	//     does when the same integrand values come from a table
	{
		struct Set { double eps; int depth; };
		std::vector<Set> sets = {{1e-10, 20}, {1e-3, 1}, {1e-6, 3}, {1e-12, 0}};
		for(auto& so : sets)
			for(auto& si : sets)
				for(auto iv : std::vector<std::pair<double, double>>{{0, 1}, {-1, 2}, {2, 0.5}})
				{
					if(!mc::mine(unit++)) continue;
					std::map<double, double> memo;
					std::vector<double> order1, order2;
					auto inner_value = [&](double x) { return Integrate([x](double y) { return std::exp(x * y); }, 0.0, 1.0, si.eps, si.depth); };
					auto reentrant = [&](double x) { order1.push_back(x); double v = inner_value(x); memo[x] = v; return v; };
					std::string ck = "outer_eps=" + mc::dec(so.eps) + ",outer_depth=" + std::to_string(so.depth) + ",inner_eps=" + mc::dec(si.eps) + ",inner_depth=" + std::to_string(si.depth) + ",a=" + mc::dec(iv.first) + ",b=" + mc::dec(iv.second);
					double v1 = Integrate(reentrant, iv.first, iv.second, so.eps, so.depth);
					bool missing = false;
					auto table = [&](double x) { order2.push_back(x); auto it = memo.find(x); if(it == memo.end()) { missing = true; return inner_value(x); } return it->second; };
					double v2 = Integrate(table, iv.first, iv.second, so.eps, so.depth);
					cases++;
					evals += order1.size() + order2.size();
					if(!mc::same_bits(v1, v2) || order1 != order2 || missing) mc::violation("reentrant", "reentrant|" + ck + "|outer_call_disturbed_by_inner_calls", "with the integrand calling Integrate itself: " + mc::dec(v1) + " after " + std::to_string(order1.size()) + " evaluations; with the same values from a table: " + mc::dec(v2) + " after " + std::to_string(order2.size()), ck);
					double maxev = std::ldexp(1.0, so.depth + 2) + 1;
					if((double)order1.size() > maxev) mc::violation("reentrant", "reentrant|" + ck + "|too_many_evaluations", std::to_string(order1.size()) + " evaluations, bound " + mc::dec(maxev), ck);
				}
	}
	// (c) refinement that goes to the depth bound at one place only (integrable kink or root singularity), on intervals whose width is
	//     tiny against their offset: abscissae stay in the closed interval, count stays within the bound
	{
		std::vector<std::pair<double, double>> wiv = {{1000, 1000 + 1e-6}, {1, 1 + 1e-9}, {-5e6, -5e6 + 0.01}, {0, 1}, {1000 + 1e-6, 1000}, {-3, -3 + std::ldexp(1.0, -30)}};
		for(int t = 1; t < (mc::thorough() ? 24 : 8); t++)	// non-dyadic offsets and widths
		{
			double A = 1000.0 + 0.37 * t, B = A + 1e-6 * (1.0 + 0.1 * t);
			wiv.push_back({A, B});
			if(t % 3 == 0) wiv.push_back({B, A});
			wiv.push_back({-(0.1 + 0.013 * t), -(0.1 + 0.013 * t) + 3e-10 * t});
		}
		std::vector<int> dd = mc::thorough() ? std::vector<int>{12, 20, 23, 25, 30} : std::vector<int>{12, 23, 25};
		for(auto& iv : wiv)
			for(int depth : dd)
				for(int where = 0; where < 4; where++)
				{
					if(!mc::mine(unit++)) continue;
					double lo = std::min(iv.first, iv.second), hi = std::max(iv.first, iv.second), w = hi - lo;
					double c = where == 0 ? hi : where == 1 ? lo : where == 2 ? lo + w / 3 : lo + w * 0.7071067811865476;
					auto f = [c](double x) { return std::sqrt(std::fabs(x - c)); };
					std::string ck = "sqrt|x-c|,c=" + mc::dec(c) + ",a=" + mc::dec(iv.first) + ",b=" + mc::dec(iv.second) + ",depth=" + std::to_string(depth);
					// epsilon small enough that the recursion reaches the depth bound next to c, large enough that it stops early elsewhere
					double v = structural("one_sided_refinement", ck, ck, f, iv.first, iv.second, 1e-6 * w * std::sqrt(w), depth, evals);
					(void)v;
					cases++;
				}
	}
	// (d) integrands that are infinite at a limit: the location and count clauses are about arbitrary integrands
	{
		struct Sing { const char* name; std::function<double(double)> f; double a, b; };
		std::vector<Sing> sg = {{"1/sqrt(x) on [0,1]", [](double x) { return 1 / std::sqrt(x); }, 0, 1}, {"log(x) on [0,2]", [](double x) { return std::log(x); }, 0, 2},
								{"1/(1-x) on [0,1]", [](double x) { return 1 / (1 - x); }, 0, 1}, {"1/sqrt(x) on [1,0]", [](double x) { return 1 / std::sqrt(x); }, 1, 0},
								{"1/(x(3-x)) on [0,3]", [](double x) { return 1 / (x * (3 - x)); }, 0, 3}};
		for(auto& g : sg)
			for(int depth : {0, 1, 2, 3, 6})
				for(double eps : {1e-300, 1e-6, 1e2})
				{
					if(!mc::mine(unit++)) continue;
					std::string ck = std::string(g.name) + ",eps=" + mc::dec(eps) + ",depth=" + std::to_string(depth);
					structural("infinite_at_a_limit", ck, ck, g.f, g.a, g.b, eps, depth, evals);
					cases++;
				}
	}
	mc::count("special_structure_cases", cases);
	mc::count("evaluations", cases);
	mc::count("distinct_nontrivial", cases);
	mc::count("transitions", evals);
}

static void regular_families(unsigned long long& unit)
{
	struct Case { std::string name; std::function<ld(ld)> f; std::function<ld(ld, ld)> exact; double a, b; double ratio; };
	std::vector<Case> cs;
	for(double w : {0.1, 1.0, -1.0, 5.0, -20.0, 1e-3})
		for(auto iv : std::vector<std::pair<double, double>>{{0, 1}, {-1, 0.2}, {10, 10.25}, {0, 1e-3}, {-300, -299.9}, {0, 13}})
		{
			double ratio = std::exp(std::fabs(w) * (iv.second - iv.first));
			cs.push_back({"exp_w" + mc::dec(w), [w](ld x) { return expl(w * x); }, [w](ld a, ld b) { return expl(w * a) * expm1l(w * (b - a)) / w; }, iv.first, iv.second, ratio});
			double m1 = std::cosh(w * iv.first), m2 = std::cosh(w * iv.second), mn = (iv.first * iv.second < 0) ? 1.0 : std::min(m1, m2);
			cs.push_back({"cosh_w" + mc::dec(w), [w](ld x) { return coshl(w * x); }, [w](ld a, ld b) { return 2 * coshl(w * (a + b) / 2) * sinhl(w * (b - a) / 2) / w; }, iv.first, iv.second, std::max(m1, m2) / mn});
		}
	// the same members on similar copies of the intervals: x -> x*lam, w -> w/lam (the statement names no width; nothing in it
	// depends on the absolute size of the interval)
	for(double lam : {1e-6, 3e-6, 7e-9, 1e5})
		for(double w0 : {1.2, -1.0, 0.1})
			for(auto iv0 : std::vector<std::pair<double, double>>{{0, 1}, {-1, 0.2}, {10, 10.25}})
			{
				double w = w0 / lam;
				std::pair<double, double> iv{iv0.first * lam, iv0.second * lam};
				double ratio = std::exp(std::fabs(w) * (iv.second - iv.first));
				cs.push_back({"exp_w" + mc::dec(w), [w](ld x) { return expl(w * x); }, [w](ld a, ld b) { return expl(w * a) * expm1l(w * (b - a)) / w; }, iv.first, iv.second, ratio});
				double m1 = std::cosh(w * iv.first), m2 = std::cosh(w * iv.second), mn = (iv.first * iv.second < 0) ? 1.0 : std::min(m1, m2);
				cs.push_back({"cosh_w" + mc::dec(w), [w](ld x) { return coshl(w * x); }, [w](ld a, ld b) { return 2 * coshl(w * (a + b) / 2) * sinhl(w * (b - a) / 2) / w; }, iv.first, iv.second, std::max(m1, m2) / mn});
			}
	for(double p : {0.5, 2.5, -1.5, 10.0})
		for(auto iv : std::vector<std::pair<double, double>>{{1e-6, 1.3e-6}, {4e-6, 5e-6}, {2e-9, 2.2e-9}, {1e8, 1.1e8}})
		{
			double ratio = std::pow(iv.second / iv.first, std::fabs(p - 4));
			cs.push_back({"pow_p" + mc::dec(p), [p](ld x) { return powl(x, p); }, [p](ld a, ld b) { return powl(a, p + 1) * expm1l((p + 1) * log1pl((b - a) / a)) / (p + 1); }, iv.first, iv.second, ratio});
		}
	for(double s : {1.0, 0.01, 100.0, 4e-6, 1e-9, 1e7})
		for(int k : {1, 2, 5})
			for(double wd : {0.05, 0.2, 1.0})
			{
				double a = 0, b = wd * s;
				double ratio = std::pow((b + s) / (a + s), k + 4);
				cs.push_back({"invpow_s" + mc::dec(s) + "_k" + std::to_string(k), [s, k](ld x) { return powl(x + s, -k); },
							  [s, k](ld a, ld b) { ld l = log1pl((b - a) / (a + s)); return k == 1 ? l : powl(a + s, 1 - k) * expm1l((1 - k) * l) / (1 - k); }, a, b, ratio});
			}
	for(double p : {0.5, 1.5, 2.5, 3.5, 6.0, -1.5, 10.0})
		for(auto iv : std::vector<std::pair<double, double>>{{1, 1.2}, {1, 2}, {100, 110}, {1e-3, 1.3e-3}, {5, 5.01}})
		{
			double ratio = std::pow(iv.second / iv.first, std::fabs(p - 4));
			cs.push_back({"pow_p" + mc::dec(p), [p](ld x) { return powl(x, p); }, [p](ld a, ld b) { return powl(a, p + 1) * expm1l((p + 1) * log1pl((b - a) / a)) / (p + 1); }, iv.first, iv.second, ratio});
		}
	long long admitted = 0, cases = 0, evals = 0, bott = 0;
	for(auto& c : cs)
	{
		if(!mc::mine(unit++)) continue;
		if(!(c.ratio <= 4.0)) { mc::count("family_members_rejected_by_filter", 1); continue; }
		admitted++;
		ld ex	   = c.exact(c.a, c.b);
		ld fmax	   = std::max(fabsl(c.f(c.a)), fabsl(c.f(c.b)));
		// (requests far below the resolution of the result included: such a call either refines to the depth bound, where the error
		// clause is silent, or it must meet the request)
		for(double rel : {1e-2, 1e-4, 1e-7, 1e-10, 1e-13, 1e-16, 1e-18, 1e-21})
			for(int depth : {20, 8, 3})
				for(int rev = 0; rev < 2; rev++)
				{
					if(rel < 1e-13 && depth == 20 && !mc::thorough()) continue;	// 2^22 evaluations per call
					double eps = (double)(rel * fabsl(ex));
					auto f	   = [&c](double x) { return (double)c.f(x); };
					bool bottomed = false;
					std::string ck = c.name + ",a=" + mc::dec(c.a) + ",b=" + mc::dec(c.b) + ",eps=" + mc::dec(eps) + ",depth=" + std::to_string(depth) + ",rev=" + std::to_string(rev);
					double v = structural("regular", ck, ck, f, rev ? c.b : c.a, rev ? c.a : c.b, eps, depth, evals, &bottomed);
					cases++;
					if(bottomed) { bott++; continue; }
					double tol = 4 * std::fabs(eps) + K * mc::U_ * (depth + 2) * (double)(fmax * fabsl((ld)c.b - c.a)) + mc::ETA;
					ld want = rev ? -ex : ex;
					if(!(std::fabs((double)(v - want)) <= tol)) mc::violation("regular", "regular|" + ck + "|error_exceeds_4_epsilon", "Integrate=" + mc::dec(v) + " exact " + mc::dec((double)want) + " error " + mc::dec(std::fabs((double)(v - want))) + " > 4*eps+rounding = " + mc::dec(tol), ck);
					else mc::maxi("regular_err_over_eps", std::fabs((double)(v - want)) / (std::fabs(eps) + mc::U_ * (double)fabsl(ex)));
				}
	}
	mc::count("regular_family_members_admitted", admitted);
	mc::count("regular_cases", cases);
	mc::count("regular_cases_recursion_bottomed_out_error_clause_skipped", bott);
	mc::count("evaluations", cases);
	mc::count("distinct_nontrivial", cases - bott);
	mc::count("transitions", evals);
}

// ---- M2: the harness plays the integrand ---------------------------------------------------------------------------
static const std::vector<double> DEV = {1, -1, 1e6, -1e6, 1e-9};

struct Env
{
	std::map<double, double> memo;
	std::vector<double> order;
	std::vector<int> sched;	  // choice per new query (0 = default answer 0)
	int newq = 0, window = 0;
	bool frozen = false;	  // replay mode: no new choices, unknown abscissae answered by default
	double operator()(double x)
	{
		order.push_back(x);
		auto it = memo.find(x);
		if(it != memo.end()) return it->second;
		double v = 0;
		if(!frozen && newq < window)
		{
			if(newq >= (int)sched.size()) sched.push_back(0);
			int c = sched[newq];
			v	  = c == 0 ? 0.0 : DEV[c - 1];
		}
		newq++;
		memo[x] = v;
		return v;
	}
};

// textbook adaptive Simpson on recorded answers (reference model, long double)
static ld ref_simpson(const std::map<double, double>& memo, ld a, ld b, ld eps, ld S, ld fa, ld fb, ld fc, int bottom, bool& ok)
{
	ld c = (a + b) / 2, h = b - a, d = (a + c) / 2, e = (b + c) / 2;
	auto get = [&](ld x) { auto it = memo.find((double)x); if(it == memo.end()) { ok = false; return (ld)0; } return (ld)it->second; };
	ld fd = get(d), fe = get(e);
	ld Sl = (h / 12) * (fa + 4 * fd + fc), Sr = (h / 12) * (fc + 4 * fe + fb), S2 = Sl + Sr;
	if(bottom <= 0 || fabsl(S2 - S) <= 15 * eps) return S2 + (S2 - S) / 15;
	return ref_simpson(memo, a, c, eps / 2, Sl, fa, fc, fd, bottom - 1, ok) + ref_simpson(memo, c, b, eps / 2, Sr, fc, fb, fe, bottom - 1, ok);
}

static void adversary(unsigned long long& unit)
{
	int depth = mc::thorough() ? 3 : 2, window = mc::thorough() ? 33 : 17, bound = mc::thorough() ? 4 : 3;
	mc::bound("adversary", "integrand answered by the harness: default answer 0, deviations from {1,-1,1e6,-1e6,1e-9}; all placements of <= " + std::to_string(bound) + " deviations among the first " + std::to_string(window) + " queries; recursion depth " + std::to_string(depth));
	mc::alphabet("deviation_answers", DEV.size());
	std::vector<std::pair<double, double>> ivs = {{0, 1}, {-3, 5}, {2, 2 + 1e-6}};
	std::vector<double> epss = {1e-3, 1e-12, 10};
	long long execs = 0, evals = 0, cps = 0;
	std::set<uint64_t> outcomes;
	for(auto& iv : ivs)
		for(double eps : epss)
		{
			// iterative deviation bound 0,1,...,bound; DFS with prefix replay
			std::function<void(std::vector<int>, int)> explore = [&](std::vector<int> prefix, int cost) {
				Env e;
				e.window = window;
				e.sched	 = prefix;
				std::function<double(double)> fn = [&e](double x) { return e(x); };
				double v = Integrate(fn, iv.first, iv.second, eps, depth);
				execs++;
				evals += e.order.size();
				cps += e.newq;
				outcomes.insert(mc::bits(v) ^ (e.order.size() * 0x9E3779B97F4A7C15ULL));
				std::string sk;
				for(int i = 0; i < (int)e.sched.size(); i++) if(e.sched[i]) sk += std::to_string(i) + ":" + std::to_string(e.sched[i]) + ",";
				std::string ck = "a=" + mc::dec(iv.first) + ",b=" + mc::dec(iv.second) + ",eps=" + mc::dec(eps) + ",depth=" + std::to_string(depth) + ",dev=" + (sk.empty() ? "-" : sk);
				auto viol = [&](const std::string& cls, const std::string& text) { mc::violation("adversary", "adversary|" + ck + "|" + cls, text, ck); };
				double lo = iv.first, hi = iv.second;
				for(double x : e.order)
					if(!(x >= lo && x <= hi)) { viol("evaluated_outside_interval", "evaluated at " + mc::dec(x)); break; }
				if((double)e.order.size() > std::ldexp(1.0, depth + 2) + 1) viol("too_many_evaluations", std::to_string(e.order.size()) + " evaluations");
				// swap and epsilon sign, same answers by abscissa
				{
					Env e2;
					e2.memo = e.memo; e2.frozen = true;
					std::function<double(double)> f2 = [&e2](double x) { return e2(x); };
					double vs = Integrate(f2, iv.second, iv.first, eps, depth);
					if(!(mc::same_bits(vs, -v) || (v == 0 && vs == 0)) || e2.order != e.order) viol("swap_not_negation", "I(a,b)=" + mc::dec(v) + " I(b,a)=" + mc::dec(vs));
					Env e3;
					e3.memo = e.memo; e3.frozen = true;
					std::function<double(double)> f3 = [&e3](double x) { return e3(x); };
					double vn = Integrate(f3, iv.first, iv.second, -eps, depth);
					if(!mc::same_bits(vn, v) || e3.order != e.order) viol("epsilon_sign_matters", "I(eps)=" + mc::dec(v) + " I(-eps)=" + mc::dec(vn));
					execs += 2;
				}
				// reference recursion on the same answers
				{
					bool ok = true;
					ld a = iv.first, b = iv.second, c = (a + b) / 2;
					auto g	= [&](ld x) { auto it = e.memo.find((double)x); if(it == e.memo.end()) { ok = false; return (ld)0; } return (ld)it->second; };
					ld fa = g(a), fb = g(b), fc = g(c), S = ((b - a) / 6) * (fa + 4 * fc + fb);
					ld rv = ref_simpson(e.memo, a, b, eps, S, fa, fb, fc, depth, ok);
					ld mag = 0;
					for(auto& kv : e.memo) mag += fabsl(kv.second);
					double tol = K * mc::U_ * (depth + 2) * (double)(mag * (b - a)) + mc::ETA;
					// the reference must have found every abscissa it needed (same refinement decisions) unless a comparison was within rounding
					if(ok && !(std::fabs((double)(v - rv)) <= tol)) viol("differs_from_reference_recursion", "Integrate=" + mc::dec(v) + " textbook adaptive Simpson on the same answers " + mc::dec((double)rv));
					if(!ok) mc::count("reference_took_different_branch_within_rounding", 1);
				}
				// children: deviate at a later query
				if(cost >= bound) return;
				for(int i = (int)prefix.size(); i < std::min(e.newq, window); i++)
					for(int alt = 1; alt <= (int)DEV.size(); alt++)
					{
						std::vector<int> p(e.sched.begin(), e.sched.begin() + std::min(i, (int)e.sched.size()));
						p.resize(i, 0);
						p.push_back(alt);
						explore(p, cost + 1);
					}
			};
			if(!mc::mine(unit++)) continue;
			explore({}, 0);
			mc::sample("adversary on [" + mc::dec(iv.first) + "," + mc::dec(iv.second) + "] eps=" + mc::dec(eps) + ": all placements of <=" + std::to_string(bound) + " non-zero answers among the first " + std::to_string(window) + " queries", 2);
		}
	mc::count("adversary_executions", execs);
	mc::count("evaluations", execs);
	mc::count("transitions", evals);
	mc::count("states", cps);
	mc::count("distinct_nontrivial", outcomes.size());
}

// ---- call histories: result and abscissae of a request do not depend on the requests made before it ------------------------------------
static void histories(unsigned long long& unit)
{
	struct Req { const char* name; std::function<double(double)> f; double a, b, eps; int depth; };
	std::vector<Req> R = {
		{"exp on [0,1] eps 1e-10 depth 20", [](double x) { return std::exp(x); }, 0, 1, 1e-10, 20},
		{"exp on [0,1] eps 1e-3 depth 1", [](double x) { return std::exp(x); }, 0, 1, 1e-3, 1},
		{"exp on [1,0] eps -1e-6 depth 3", [](double x) { return std::exp(x); }, 1, 0, -1e-6, 3},
		{"x^5-x on [-1,2] eps 1e2 depth 0", [](double x) { return x * x * x * x * x - x; }, -1, 2, 1e2, 0},
		{"1/(x+1.5) on [0,25] eps 1e-12 depth 25", [](double x) { return 1 / (x + 1.5); }, 0, 25, 1e-12, 25},
		{"sqrt|x-1/3| on [0,1] eps 1e-9 depth 12", [](double x) { return std::sqrt(std::fabs(x - 1.0 / 3)); }, 0, 1, 1e-9, 12},
		{"cos on [1000,1000+1e-6] eps 1e-18 depth 5", [](double x) { return std::cos(x); }, 1000, 1000 + 1e-6, 1e-18, 5},
		{"equal limits", [](double x) { return x; }, 0.5, 0.5, 1e-6, 10},
		// other integrands that start exactly where an earlier letter ends (and end where another one starts)
		{"cos on [1,2.5] eps 1e-8 depth 10", [](double x) { return std::cos(x); }, 1, 2.5, 1e-8, 10},
		{"x^2+1 on [2,-1] eps 1e-6 depth 6", [](double x) { return x * x + 1; }, 2, -1, 1e-6, 6},
		{"1/(1+x^2) on [25,0] eps 1e-9 depth 14", [](double x) { return 1 / (1 + x * x); }, 25, 0, 1e-9, 14},
	};
	std::vector<mc::PureLetter> L;
	for(auto& r : R)
		L.push_back({r.name, [r]() { std::string q; long long n = 0; std::function<double(double)> fn = [&](double x) { if(n++ < 40) q += mc::hexd(x) + ","; return r.f(x); }; double v = Integrate(fn, r.a, r.b, r.eps, r.depth); return mc::hexd(v) + "|" + std::to_string(n) + "|" + q; }});
	L.push_back({"Find_Epsilon(exp,0,1,1e-9)", []() { return mc::hexd(Find_Epsilon([](double x) { return std::exp(x); }, 0, 1, 1e-9)); }});
	long long t = mc::purity("histories", L, mc::thorough() ? 4 : 3, unit);
	mc::count("evaluations", t);
	mc::count("distinct_nontrivial", t);
}

int main(int argc, char** argv)
{
	mc::init(argc, argv);
	if(mc::ctx().replay) { printf("%s\n(no single-case replay for this part; use ./vcheck --replay <file>, which re-runs the enumeration for this key)\n", mc::ctx().replay_case.c_str()); return 0; }
	silence();
	mc::bound("rule", "M3: complete products polynomial x interval x epsilon x depth, and estimator-regular families admitted by a closed-form filter max|f''''|/min|f''''|<=4; M2: executions of Integrate under harness-chosen answers (states = choice points, transitions = integrand evaluations); non-trivial = degree>=4 quintics, non-bottomed regular cases, distinct (result, evaluation count) outcomes");
	unsigned long long unit = 0;
	adversary(unit);
	special_structures(unit);
	histories(unit);
	regular_families(unit);
	quintics(unit);
	return mc::finish();
}
