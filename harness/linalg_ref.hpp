// Reference linear algebra for the C05/C15 harnesses: exact integer determinant (Bareiss, __int128), binary128
// Gauss-Jordan with complete pivoting, cyclic Jacobi in long double.
#pragma once
#include <vector>
#include <cmath>
#include <algorithm>
#include <quadmath.h>

namespace ref
{
typedef __float128 q;
typedef std::vector<std::vector<double>> Rows;
typedef std::vector<std::vector<q>> QRows;

inline bool is_integer_matrix(const Rows& a)
{
	for(auto& r : a)
		for(double x : r)
			if(x != std::floor(x) || std::fabs(x) > 1e6) return false;
	return true;
}
// exact determinant of an integer matrix (fraction-free elimination)
inline __int128 bareiss(const Rows& a)
{
	int n = a.size();
	std::vector<std::vector<__int128>> m(n, std::vector<__int128>(n));
	for(int i = 0; i < n; i++)
		for(int j = 0; j < n; j++) m[i][j] = (__int128)a[i][j];
	__int128 prev = 1;
	int sign	  = 1;
	for(int k = 0; k < n - 1; k++)
	{
		if(m[k][k] == 0)
		{
			int p = -1;
			for(int i = k + 1; i < n; i++)
				if(m[i][k] != 0) { p = i; break; }
			if(p < 0) return 0;
			std::swap(m[k], m[p]);
			sign = -sign;
		}
		for(int i = k + 1; i < n; i++)
			for(int j = k + 1; j < n; j++) m[i][j] = (m[i][j] * m[k][k] - m[i][k] * m[k][j]) / prev;
		prev = m[k][k];
	}
	return sign * m[n - 1][n - 1];
}
inline q qabs(q x) { return x < 0 ? -x : x; }
// determinant and inverse in binary128 with complete pivoting; returns false if numerically singular
inline bool inverse(const Rows& a, QRows& inv, q& det)
{
	int n = a.size();
	QRows m(n, std::vector<q>(2 * n, 0));
	for(int i = 0; i < n; i++)
	{
		for(int j = 0; j < n; j++) m[i][j] = a[i][j];
		m[i][n + i] = 1;
	}
	std::vector<int> colperm(n);
	for(int i = 0; i < n; i++) colperm[i] = i;
	det = 1;
	q big = 0;
	for(auto& r : a)
		for(double x : r) big = std::max(big, qabs((q)x));
	for(int k = 0; k < n; k++)
	{
		int pi = k, pj = k;
		q best = -1;
		for(int i = k; i < n; i++)
			for(int j = k; j < n; j++)
				if(qabs(m[i][j]) > best) { best = qabs(m[i][j]); pi = i; pj = j; }
		if(best <= big * (q)1e-30) { det = 0; return false; }
		if(pi != k) { std::swap(m[pi], m[k]); det = -det; }
		if(pj != k)
		{
			for(int i = 0; i < n; i++) std::swap(m[i][pj], m[i][k]);
			std::swap(colperm[pj], colperm[k]);
			det = -det;
		}
		det *= m[k][k];
		q piv = m[k][k];
		for(int j = 0; j < 2 * n; j++) m[k][j] /= piv;
		for(int i = 0; i < n; i++)
			if(i != k && m[i][k] != 0)
			{
				q f = m[i][k];
				for(int j = 0; j < 2 * n; j++) m[i][j] -= f * m[k][j];
			}
	}
	// undo column permutation: row k of the solution corresponds to original column colperm[k]
	inv.assign(n, std::vector<q>(n));
	for(int k = 0; k < n; k++)
		for(int j = 0; j < n; j++) inv[colperm[k]][j] = m[k][n + j];
	return true;
}
inline q norm_inf(const QRows& a)
{
	q r = 0;
	for(auto& row : a)
	{
		q s = 0;
		for(q x : row) s += qabs(x);
		r = std::max(r, s);
	}
	return r;
}
inline q norm_inf(const Rows& a)
{
	q r = 0;
	for(auto& row : a)
	{
		q s = 0;
		for(double x : row) s += qabs((q)x);
		r = std::max(r, s);
	}
	return r;
}
inline q norm_max(const QRows& a)
{
	q r = 0;
	for(auto& row : a)
		for(q x : row) r = std::max(r, qabs(x));
	return r;
}
// sum over permutations of products of |entries| (conditioning of the Laplace expansion)
inline long double permanent_abs(const Rows& a)
{
	int n = a.size();
	std::vector<int> p(n);
	for(int i = 0; i < n; i++) p[i] = i;
	long double s = 0;
	do
	{
		long double t = 1;
		for(int i = 0; i < n; i++) t *= std::fabs(a[i][p[i]]);
		s += t;
	} while(std::next_permutation(p.begin(), p.end()));
	return s;
}
// eigenvalues of a symmetric matrix by cyclic Jacobi (long double), sorted ascending; V columns = eigenvectors
inline std::vector<long double> jacobi(const Rows& a, std::vector<std::vector<long double>>* V = nullptr)
{
	int n = a.size();
	std::vector<std::vector<long double>> m(n, std::vector<long double>(n)), v(n, std::vector<long double>(n, 0));
	for(int i = 0; i < n; i++)
	{
		v[i][i] = 1;
		for(int j = 0; j < n; j++) m[i][j] = a[i][j];
	}
	long double fro2 = 0;
	for(int i = 0; i < n; i++)
		for(int j = 0; j < n; j++) fro2 += m[i][j] * m[i][j];
	for(int sweep = 0; sweep < 100; sweep++)
	{
		long double off = 0;
		for(int i = 0; i < n; i++)
			for(int j = i + 1; j < n; j++) off += m[i][j] * m[i][j];
		if(off <= 1e-42L * fro2) break;	// relative to the matrix: the reference must not depend on the overall scale
		for(int p = 0; p < n; p++)
			for(int r = p + 1; r < n; r++)
			{
				if(m[p][r] == 0) continue;
				long double th = (m[r][r] - m[p][p]) / (2 * m[p][r]);
				long double t  = (th >= 0 ? 1 : -1) / (fabsl(th) + sqrtl(th * th + 1));
				long double c = 1 / sqrtl(t * t + 1), s = t * c;
				for(int k = 0; k < n; k++)
				{
					long double x = m[k][p], y = m[k][r];
					m[k][p] = c * x - s * y;
					m[k][r] = s * x + c * y;
				}
				for(int k = 0; k < n; k++)
				{
					long double x = m[p][k], y = m[r][k];
					m[p][k] = c * x - s * y;
					m[r][k] = s * x + c * y;
				}
				for(int k = 0; k < n; k++)
				{
					long double x = v[k][p], y = v[k][r];
					v[k][p] = c * x - s * y;
					v[k][r] = s * x + c * y;
				}
			}
	}
	std::vector<long double> ev(n);
	for(int i = 0; i < n; i++) ev[i] = m[i][i];
	if(V) *V = v;
	return ev;
}
}	// namespace ref
