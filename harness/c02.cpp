// C02 — Find_Root returns a root of the bracketed function to the requested accuracy.
// M2: the harness plays the function (all answer sequences at the first D queries, default = piecewise-linear
//     interpolant of what was answered); M3: concrete families, complete product; M4: diagnostics in child processes.
#include "mc/mc.hpp"
#include "mc/purity.hpp"
#include "libphysica/Numerics.hpp"
#include <map>
using namespace libphysica;
typedef long double ld;

static const std::vector<double> ANS = {-1e6, -1, -1e-6, 0, 1e-6, 1, 1e6};
static std::vector<double> ANS_mut = ANS;   // the alphabet in force (a second pass uses values whose products underflow)

// ---- exit guard: a valid request must never terminate the process ---------------------------------------------
static std::string g_current;	// description of the execution in flight
static bool g_in_execution = false;
static void exit_guard()
{
	if(!g_in_execution) return;
	mc::violation("exit", "exit|" + g_current + "|valid_request_terminated_process", "the library called exit() on a valid request", g_current);
	mc::ctx().exhaustive = false;
	mc::cap("exploration of this shard stopped: library called exit() during " + g_current);
	mc::finish();
	_exit(0);
}

// ---- the environment -------------------------------------------------------------------------------------------
struct Env
{
	std::vector<std::pair<double, double>> pts;	  // sorted by abscissa: answered points
	std::vector<double> order;					  // abscissae in query order (with repeats)
	std::vector<int> sched;						  // choices to replay, then zeros
	int D		 = 0;							  // deviations allowed at the first D new queries (after the bracket ends)
	int used	 = 0;							  // choice points consumed
	int newq	 = 0;
	double lookup(double x, bool& found) const
	{
		auto it = std::lower_bound(pts.begin(), pts.end(), std::pair<double, double>(x, -INFINITY));
		if(it != pts.end() && it->first == x) { found = true; return it->second; }
		found = false;
		return 0;
	}
	double deflt(double x) const
	{
		auto it = std::lower_bound(pts.begin(), pts.end(), std::pair<double, double>(x, -INFINITY));
		if(it == pts.end()) return pts.back().second;
		if(it == pts.begin()) return it->second;
		auto lo = it - 1;
		ld t	= ((ld)x - lo->first) / ((ld)it->first - lo->first);
		return (double)(lo->second + t * ((ld)it->second - lo->second));
	}
	void put(double x, double v) { pts.insert(std::lower_bound(pts.begin(), pts.end(), std::pair<double, double>(x, -INFINITY)), {x, v}); }
	double operator()(double x)
	{
		order.push_back(x);
		bool f;
		double v = lookup(x, f);
		if(f) return v;
		if(newq < D)
		{
			int c = (newq < (int)sched.size()) ? sched[newq] : 0;
			if(newq >= (int)sched.size()) sched.push_back(0);
			v = ANS_mut[c];
			used = newq + 1;
		}
		else
			v = deflt(x);
		newq++;
		put(x, v);
		return v;
	}
};

struct Config
{
	double a, b, acc, fa, fb;
	std::string str() const { return "a=" + mc::hexd(a) + " b=" + mc::hexd(b) + " acc=" + mc::hexd(acc) + " fa=" + mc::hexd(fa) + " fb=" + mc::hexd(fb); }
	std::string key() const { return "a=" + mc::dec(a) + ",b=" + mc::dec(b) + ",acc=" + mc::dec(acc) + ",fa=" + mc::dec(fa) + ",fb=" + mc::dec(fb); }
};

static std::string sched_str(const std::vector<int>& s, int n)
{
	std::string r;
	for(int i = 0; i < n && i < (int)s.size(); i++) r += (i ? "," : "") + std::to_string(s[i]);
	return r.empty() ? "-" : r;
}

static bool opposite(double a, double b) { return (a < 0 && b > 0) || (a > 0 && b < 0); }   // (a*b < 0 would underflow for tiny values)
// certificate: every continuous function consistent with the answers changes sign or vanishes within acc of r
static bool certificate(const std::vector<std::pair<double, double>>& pts, double r, double acc)
{
	for(size_t i = 0; i < pts.size(); i++)
	{
		// "within acc" up to the rounding of the abscissae themselves (r + acc is not exactly representable)
		double slack = acc + 4 * mc::U_ * (std::fabs(r) + acc);
		if(pts[i].second == 0 && std::fabs(pts[i].first - r) <= slack) return true;
		if(i + 1 < pts.size() && opposite(pts[i].second, pts[i + 1].second) && std::fabs(pts[i].first - r) <= slack && std::fabs(pts[i + 1].first - r) <= slack) return true;
	}
	return false;
}

// piecewise-linear counter-example through the recorded answers, sign changes pushed to the far end of each gap
static std::vector<std::pair<double, double>> counterexample(const std::vector<std::pair<double, double>>& pts, double r)
{
	std::vector<std::pair<double, double>> f;
	for(size_t i = 0; i < pts.size(); i++)
	{
		f.push_back(pts[i]);
		if(i + 1 < pts.size() && opposite(pts[i].second, pts[i + 1].second))
		{
			double xa = pts[i].first, xb = pts[i + 1].first, w = (xb - xa) / 1024;
			bool far_is_left = std::fabs(xa - r) >= std::fabs(xb - r);
			if(far_is_left) f.push_back({xa + w, pts[i + 1].second});
			else f.push_back({xb - w, pts[i].second});
		}
	}
	return f;
}
static double pl_eval(const std::vector<std::pair<double, double>>& f, double x)
{
	auto it = std::lower_bound(f.begin(), f.end(), std::pair<double, double>(x, -INFINITY));
	if(it == f.end()) return f.back().second;
	if(it->first == x || it == f.begin()) return it->second;
	auto lo = it - 1;
	ld t	= ((ld)x - lo->first) / ((ld)it->first - lo->first);
	return (double)(lo->second + t * ((ld)it->second - lo->second));
}
static double pl_root_distance(const std::vector<std::pair<double, double>>& f, double r)
{
	double best = INFINITY;
	for(size_t i = 0; i < f.size(); i++)
	{
		if(f[i].second == 0) best = std::min(best, std::fabs(f[i].first - r));
		if(i + 1 < f.size() && opposite(f[i].second, f[i + 1].second))
		{
			ld t	  = (ld)f[i].second / ((ld)f[i].second - f[i + 1].second);
			double xr = (double)(f[i].first + t * ((ld)f[i + 1].first - f[i].first));
			best	  = std::min(best, std::fabs(xr - r));
		}
	}
	return best;
}

struct Stats
{
	long long executions = 0, choice_points = 0, queries = 0;
	std::set<uint64_t> outcomes;
};

// one execution under a schedule; returns number of choice points consumed
static int run_one(const Config& c, std::vector<int>& sched, int D, Stats& st, bool verbose = false)
{
	Env e;
	e.D		= D;
	e.sched = sched;
	e.put(std::min(c.a, c.b), c.a < c.b ? c.fa : c.fb);
	e.put(std::max(c.a, c.b), c.a < c.b ? c.fb : c.fa);
	g_current	   = c.str() + " sched=" + sched_str(sched, D);
	g_in_execution = true;
	std::function<double(double)> fn = [&e](double x) { return e(x); };
	double r = Find_Root(fn, c.a, c.b, c.acc);
	g_in_execution = false;
	sched		   = e.sched;
	st.executions++;
	st.choice_points += e.used;
	st.queries += e.order.size();
	st.outcomes.insert(mc::bits(r) * 31 + e.order.size());
	std::string sk = sched_str(e.sched, e.used);
	auto viol	   = [&](const std::string& cls, const std::string& text) {
		 std::string cx;
		 auto f = counterexample(e.pts, r);
		 for(auto& p : f) cx += mc::hexd(p.first) + ":" + mc::hexd(p.second) + ";";
		 mc::violation("adversary", "adversary|" + c.key() + "|sched=" + sk + "|" + cls, text, c.str() + " sched=" + sk + " D=" + std::to_string(D) + " class=" + cls + " f=" + cx);
	};
	double lo = std::min(c.a, c.b), hi = std::max(c.a, c.b);
	for(double q : e.order)
		if(!(q >= lo && q <= hi))
		{
			viol("evaluated_outside_bracket", "function evaluated at " + mc::dec(q) + " outside [" + mc::dec(lo) + "," + mc::dec(hi) + "]");
			break;
		}
	if(!(r >= lo && r <= hi)) viol("result_outside_bracket", "returned " + mc::dec(r));
	if(!certificate(e.pts, r, c.acc))
	{
		auto f = counterexample(e.pts, r);
		viol("no_sign_change_within_accuracy", "returned " + mc::dec(r) + " after " + std::to_string(e.order.size()) + " evaluations; a continuous function consistent with all answers has its nearest sign change " + mc::dec(pl_root_distance(f, r)) + " away (accuracy " + mc::dec(c.acc) + ")");
	}
	// order independence: same answers served by abscissa, new abscissae by the default environment
	{
		Env e2;
		e2.D   = 0;
		e2.pts = e.pts;
		std::function<double(double)> fn2 = [&e2](double x) { return e2(x); };
		g_in_execution = true;
		double r2	   = Find_Root(fn2, c.b, c.a, c.acc);
		g_in_execution = false;
		// the guarantee holds "whichever order the ends are given in": the reversed call is judged by the same three clauses
		// (the property does not promise the SAME point or the same evaluation order; differences are only counted)
		if(!mc::same_bits(r, r2) || e2.order != e.order) mc::count("reversed_bracket_took_a_different_path", 1);
		for(double q : e2.order)
			if(!(q >= lo && q <= hi))
			{
				viol("evaluated_outside_bracket", "reversed bracket: function evaluated at " + mc::dec(q) + " outside [" + mc::dec(lo) + "," + mc::dec(hi) + "]");
				break;
			}
		if(!(r2 >= lo && r2 <= hi)) viol("result_outside_bracket", "reversed bracket: returned " + mc::dec(r2));
		// only what the reversed call evaluated itself certifies it
		std::vector<std::pair<double, double>> own;
		for(auto& pv : e2.pts)
			if(std::find(e2.order.begin(), e2.order.end(), pv.first) != e2.order.end()) own.push_back(pv);
		if(!certificate(own, r2, c.acc)) viol("no_sign_change_within_accuracy", "reversed bracket: returned " + mc::dec(r2) + " after " + std::to_string(e2.order.size()) + " evaluations without a sign change within the accuracy among the answers it received");
		st.executions++;
	}
	if(verbose) printf("result %.17g after %zu evaluations, certificate %s\n", r, e.order.size(), certificate(e.pts, r, c.acc) ? "yes" : "NO");
	return e.used;
}

static void adversary(unsigned long long& unit)
{
	int D = mc::thorough() ? 7 : 6;
	std::vector<std::pair<double, double>> brackets = {{0, 1}, {-3, 5}, {1e-6, 1e6}};
	std::vector<std::pair<double, double>> ends;
	for(double n : {-1e6, -1.0, -1e-6})
		for(double p : {1e-6, 1.0, 1e6})
		{
			ends.push_back({n, p});
			ends.push_back({p, n});
		}
	mc::alphabet("answers", ANS.size());
	mc::alphabet("brackets", brackets.size());
	mc::alphabet("accuracies", 4);
	mc::alphabet("end_value_pairs", ends.size());
	mc::bound("adversary_depth", "all answer sequences over the 7-letter alphabet at the first " + std::to_string(D) + " new queries (" + std::to_string(D / 2) + " Ridder iterations); later queries answered by the piecewise-linear default environment" + (mc::thorough() ? "; depth 8 for all 72 configurations on [0,1]; depth 9 for four configurations on [-3,5]" : ""));
	Stats st;
	auto explore = [&](const Config& c, int depth) {
		std::vector<int> sched;
		long long n0 = st.executions;
		for(;;)
		{
			std::vector<int> s = sched;
			int used		   = run_one(c, s, depth, st);
			// odometer over the consumed choice points
			s.resize(used);
			int k = used;
			while(k > 0 && s[k - 1] == (int)ANS_mut.size() - 1) k--;
			if(k == 0) break;
			s[k - 1]++;
			s.resize(k);
			sched = s;
			if((st.executions & 0xfff) == 0 && mc::out_of_time("C02 adversary")) return;
		}
		if(st.executions - n0 > 1000) mc::sample("adversary " + c.str() + ": " + std::to_string((st.executions - n0) / 2) + " answer schedules explored, e.g. sched=" + sched_str(sched, depth) + " (indices into {-1e6,-1,-1e-6,0,1e-6,1,1e6})", 2);
	};
	for(auto& br : brackets)
		for(int ai = 0; ai < 4; ai++)
			for(auto& en : ends)
			{
				if(!mc::mine(unit++)) continue;
				double w   = br.second - br.first;
				double acc = ai == 0 ? 1e-12 * w : ai == 1 ? 1e-6 * w : ai == 2 ? 1e-2 * w : w / 4;
				explore(Config{br.first, br.second, acc, en.first, en.second}, D);
			}
	{
		// second answer alphabet with values whose pairwise products underflow: sign decisions must not be made through products
		const std::vector<double> TINY_ANS = {-1, -1e-200, 0, 1e-200, 1};
		std::vector<double> saved = ANS_mut;
		ANS_mut = TINY_ANS;
		for(auto& br : std::vector<std::pair<double, double>>{{0, 1}, {-3, 5}})
			for(double acc : {1e-6, 0.25})
				for(auto en : std::vector<std::pair<double, double>>{{-1e-200, 1e-200}, {1e-200, -1}, {-1, 1e-200}, {1, -1e-200}})
				{
					if(!mc::mine(unit++)) continue;
					explore(Config{br.first, br.second, acc * (br.second - br.first), en.first, en.second}, 6);
				}
		ANS_mut = saved;
	}
	if(mc::thorough())
	{
		// depth 8 for every end-value pair and accuracy on [0,1]; depth 9 for four configurations
		for(int ai = 0; ai < 4; ai++)
			for(size_t ei = 0; ei < ends.size(); ei++)
			{
				if(!mc::mine(unit++)) continue;
				double acc = ai == 0 ? 1e-12 : ai == 1 ? 1e-6 : ai == 2 ? 1e-2 : 0.25;
				explore(Config{0, 1, acc, ends[ei].first, ends[ei].second}, 8);
			}
		for(int ai = 2; ai < 4; ai++)
			for(size_t ei : {1u, 10u})
			{
				// split the depth-9 tree over the first answer so that it spreads over the shards
				double acc = ai == 2 ? 1e-2 : 0.25;
				if(mc::mine(unit++)) explore(Config{-3, 5, acc * 8, ends[ei].first, ends[ei].second}, 9);
			}
	}
	mc::count("executions", st.executions);
	mc::count("transitions", st.queries);
	mc::count("states", st.choice_points);
	mc::count("evaluations", st.executions);
	mc::count("distinct_nontrivial", st.outcomes.size());
	mc::count("distinct_outcomes_per_shard_sum", st.outcomes.size());
}

// ---- M3 concrete families ---------------------------------------------------------------------------------------
struct Fam
{
	std::string name;
	std::function<ld(ld)> f;
	double lo, hi;
	std::vector<ld> roots;	 // all roots inside [lo,hi]
};

static void check_family_case(const Fam& F, double acc, Stats& st)
{
	for(int rev = 0; rev < 2; rev++)
	{
		std::vector<double> q;
		std::function<double(double)> fn = [&](double x) { q.push_back(x); return (double)F.f(x); };
		g_current	   = "family " + F.name + " lo=" + mc::hexd(F.lo) + " hi=" + mc::hexd(F.hi) + " acc=" + mc::hexd(acc);
		g_in_execution = true;
		double r	   = rev ? Find_Root(fn, F.hi, F.lo, acc) : Find_Root(fn, F.lo, F.hi, acc);
		g_in_execution = false;
		st.executions++;
		st.queries += q.size();
		static double first_r;
		static std::vector<double> first_q;
		auto viol = [&](const std::string& cls, const std::string& text) {
			mc::violation("families", "families|" + F.name + "|lo=" + mc::dec(F.lo) + ",hi=" + mc::dec(F.hi) + ",acc=" + mc::dec(acc) + "|" + cls, text, g_current + " class=" + cls);
		};
		if(rev == 0) { first_r = r; first_q = q; }
		else if(!mc::same_bits(r, first_r) || q != first_q) mc::count("reversed_bracket_took_a_different_path", 1);	// not promised; each order is judged on its own below
		for(double x : q)
			if(!(x >= F.lo && x <= F.hi)) { viol("evaluated_outside_bracket", "evaluated at " + mc::dec(x)); break; }
		if(!(r >= F.lo && r <= F.hi)) viol("result_outside_bracket", "returned " + mc::dec(r));
		// distance to the nearest true root; a point where the double-valued function is exactly zero also counts
		ld best = INFINITY;
		for(ld z : F.roots) best = std::min(best, fabsl(z - r));
		if((double)F.f(r) == 0.0) best = 0;
		// resolution of the abscissa itself
		double res = 4 * mc::U_ * std::max(std::fabs(r), std::fabs((double)F.roots[0]));
		if(!(best <= (ld)acc + res)) viol("root_not_within_accuracy", "returned " + mc::dec(r) + " (" + std::to_string(q.size()) + " evaluations); nearest root " + mc::dec((double)F.roots[0]) + " is " + mc::dec((double)best) + " away, accuracy " + mc::dec(acc));
		else mc::maxi("family_error_over_accuracy", (double)(best / (acc + res)));
		st.outcomes.insert(mc::bits(r));
	}
}

static void families(unsigned long long& unit)
{
	Stats st;
	std::vector<Fam> fams;
	// x^p - c on brackets spanning many decades
	for(double p : {1.0, 2.0, 3.0, 5.0, 9.0, 20.0, 0.5, 0.1})
		for(int e = -12; e <= 0; e++)
			for(double hi : {10.0, 1e3, 1e6})
			{
				ld c	= powl(10.0L, e);
				ld root = powl(c, 1 / (ld)p);
				if(!(root < hi)) continue;
				fams.push_back({"pow_p" + mc::dec(p) + "_c1e" + std::to_string(e), [p, c](ld x) { return powl(x, p) - c; }, 0.0, hi, {root}});
			}
	// ... and on brackets [10^-k, 10^k] that do not start at the origin (values stay finite: p*k <= 300)
	for(double p : {0.5, 1.0, 2.0, 3.0, 5.0})
		for(int k : {8, 10, 15, 20, 30, 60, 100, 150, 300})
			for(int e : {0, -6, 6, -40})
			{
				if(p * k > 300) continue;
				ld c = powl(10.0L, e), root = powl(c, 1 / (ld)p), lo = powl(10.0L, -k), hi = powl(10.0L, k);
				if(!(root > lo * 10 && root < hi / 10)) continue;
				fams.push_back({"pow_p" + mc::dec(p) + "_c1e" + std::to_string(e) + "_decades" + std::to_string(2 * k), [p, c](ld x) { return powl(x, p) - c; }, (double)lo, (double)hi, {root}});
			}
	// linear
	for(double a : {1.0, -3.0, 1e-6, 1e6, -0.75})
		for(double b : {0.5, -2.0, 1e-3, 3.0})
		{
			ld root = -(ld)b / a;
			for(auto br : std::vector<std::pair<double, double>>{{-10, 10}, {-1e6, 1e6}, {(double)root - 1, (double)root + 3}})
				if(root > br.first && root < br.second) fams.push_back({"lin_a" + mc::dec(a) + "_b" + mc::dec(b), [a, b](ld x) { return (ld)a * x + b; }, br.first, br.second, {root}});
		}
	// exp, saturating functions (CDF-like), inflection at the root, several roots
	for(double s : {0.1, 1.0, 30.0})
		for(double lv : {-0.999, -0.5, 0.0, 0.3, 0.999})
		{
			fams.push_back({"tanh_s" + mc::dec(s) + "_l" + mc::dec(lv), [s, lv](ld x) { return tanhl(s * x) - lv; }, -50, 80, {atanhl((ld)lv) / s}});
			fams.push_back({"atan_s" + mc::dec(s) + "_l" + mc::dec(lv), [s, lv](ld x) { return atanl(s * x) * 2 / M_PIl - lv; }, -1e4, 3e4, {tanl((ld)lv * M_PIl / 2) / s}});
			if(lv > -0.9 && lv < 0.9)
			{
				// erf: root by bisection in long double
				ld a = -10 / s, b = 10 / s;
				for(int i = 0; i < 200; i++) { ld m = (a + b) / 2; if(erfl(s * m) - lv < 0) a = m; else b = m; }
				fams.push_back({"erf_s" + mc::dec(s) + "_l" + mc::dec(lv), [s, lv](ld x) { return erfl(s * x) - lv; }, -20, 35, {(a + b) / 2}});
			}
		}
	for(double k : {0.5, 1.0, 3.0})
		for(double c : {2.0, 1e3, 1e-3})
			fams.push_back({"exp_k" + mc::dec(k) + "_c" + mc::dec(c), [k, c](ld x) { return expl(k * x) - c; }, -20, 20, {logl((ld)c) / k}});
	for(double z : {0.0, 0.3, -2.0})
		for(double sc : {1.0, 1e-3, 1e3})
			fams.push_back({"cubic_inflection_z" + mc::dec(z) + "_s" + mc::dec(sc), [z, sc](ld x) { return sc * (x - z) * (x - z) * (x - z); }, -5, 7, {z}});
	// values so small (or large) that products of two of them leave the double range
	for(int p : {15, 21})
		for(auto br : std::vector<std::pair<double, double>>{{0, 3}, {-1, 2.5}, {0.5, 1.75}})
			fams.push_back({"shifted_pow_p" + std::to_string(p), [p](ld x) { return powl(x - 1, p); }, br.first, br.second, {1}});
	// (1e-310 and 3e-320: every value the function takes is a subnormal number)
	for(double sc : {1e-160, 1e-200, 1e150, 1e-310, 3e-320, 1e300})
	{
		fams.push_back({"scaled_cubic_s" + mc::dec(sc), [sc](ld x) { return sc * (x * x * x - 2); }, 0, 3, {cbrtl(2.0L)}});
		fams.push_back({"scaled_tanh_s" + mc::dec(sc), [sc](ld x) { return sc * (tanhl(x) - 0.3L); }, -5, 8, {atanhl(0.3L)}});
	}
	// brackets next to the ends of the double range (the sum of the two ends is not representable)
	for(auto br : std::vector<std::pair<double, double>>{{1e308, 1.7e308}, {-1.7e308, -1e308}, {-1.7e308, 1.7e308}, {8.9e307, 9.1e307}, {-1.5e308, 1e300}})
		for(double t : {0.3, 0.77})
		{
			ld root = (ld)br.first + t * ((ld)br.second - br.first);
			fams.push_back({"lin_huge_t" + mc::dec(t), [root](ld x) { return (x - root) / 1e308L; }, br.first, br.second, {root}});
			fams.push_back({"cubic_huge_t" + mc::dec(t), [root](ld x) { ld u = (x - root) / 1e308L; return u * u * u + 0.01L * u; }, br.first, br.second, {root}});
		}
	fams.push_back({"x3_minus_x", [](ld x) { return x * x * x - x; }, -1.5, 1.7, {-1, 0, 1}});
	fams.push_back({"x3_minus_x_b", [](ld x) { return x * x * x - x; }, -3, 1.5, {-1, 0, 1}});
	fams.push_back({"cos", [](ld x) { return cosl(x); }, 0, 8, {M_PIl / 2, 3 * M_PIl / 2, 5 * M_PIl / 2}});
	fams.push_back({"cos_b", [](ld x) { return cosl(x); }, 1, 10.5, {M_PIl / 2, 3 * M_PIl / 2, 5 * M_PIl / 2}});
	if(mc::shard0()) mc::alphabet("family_members", fams.size());
	for(auto& F : fams)
	{
		if(!mc::mine(unit++)) continue;
		ld r0 = fabsl(F.roots[0]);
		std::vector<double> accs = {(double)(1e-14L * r0), (double)(1e-10L * r0), (double)(1e-6L * r0), 1e-10, 1e-6, 1e-3, (F.hi - F.lo) / 100, (F.hi - F.lo) / 4, F.hi - F.lo};
		for(double acc : accs)
		{
			if(!(acc > 0)) continue;
			check_family_case(F, acc, st);
		}
		// linear functions are solved exactly (to rounding of the residual)
		if(F.name.rfind("lin_", 0) == 0)
		{
			std::function<double(double)> fn = [&](double x) { return (double)F.f(x); };
			double r = Find_Root(fn, F.lo, F.hi, 1e-3);
			double a = (double)(F.f(1) - F.f(0)), b = (double)F.f(0);
			// exact up to the rounding of abscissae of the size of the bracket
			if(!(std::fabs((double)(F.roots[0] - r)) <= 8 * mc::U_ * std::max(std::fabs(F.lo), std::fabs(F.hi)))) mc::violation("families", "families|" + F.name + "|lo=" + mc::dec(F.lo) + ",hi=" + mc::dec(F.hi) + "|linear_not_exact", "linear function: returned " + mc::dec(r) + " residual " + mc::dec((double)F.f(r)), g_current);
		}
	}
	// a bracket end that is itself a zero is returned as is, without further evaluations
	for(double z : {0.0, 1.0, -2.5, 1e-300})
		for(double other : {3.0, 1e6})
			for(int which = 0; which < 2; which++)
			{
				if(!mc::mine(unit++)) continue;
				double a = which ? z - other : z, b = which ? z : z + other;
				int calls = 0;
				std::function<double(double)> fn = [&](double x) { calls++; return x == z ? 0.0 : (x < z ? -1.0 : 2.0); };
				for(int rev = 0; rev < 2; rev++)
				{
					calls	 = 0;
					double r = rev ? Find_Root(fn, b, a, 1e-3) : Find_Root(fn, a, b, 1e-3);
					st.executions++;
					if(!mc::same_bits(r, z)) mc::violation("families", "families|zero_at_end|z=" + mc::dec(z) + ",other=" + mc::dec(other) + ",which=" + std::to_string(which) + "|end_zero_not_returned", "returned " + mc::dec(r) + " after " + std::to_string(calls) + " evaluations", "zero end z=" + mc::hexd(z));
					if(calls != 2) mc::count("zero_end_found_after_more_than_two_evaluations", 1);	// not promised either way
				}
			}
	// both ends are zeros: one of them is returned (either is "a bracket end that is itself a zero")
	for(auto ab : std::vector<std::pair<double, double>>{{0, 1}, {-1, 1}, {2, 5}, {-3.5, 1e6}})
	{
		if(!mc::mine(unit++)) continue;
		double a = ab.first, b = ab.second;
		std::function<double(double)> fn = [&](double x) { return (x - a) * (x - b); };
		for(int rev = 0; rev < 2; rev++)
		{
			double r = 0;
			st.executions++;
			std::string key = "families|both_ends_zero|a=" + mc::dec(a) + ",b=" + mc::dec(b) + ",rev=" + std::to_string(rev);
			if(mc::library_exits([&]() { r = rev ? Find_Root(fn, b, a, 1e-6) : Find_Root(fn, a, b, 1e-6); })) { mc::violation("families", key + "|valid_bracket_terminated_process", "both ends are zeros of the function and the call ended the process", "both ends zero"); continue; }
			if(!(r == a || r == b)) mc::violation("families", key + "|end_zero_not_returned", "returned " + mc::dec(r), "both ends zero");
		}
	}
	mc::count("family_executions", st.executions);
	mc::count("evaluations", st.executions);
	mc::count("transitions", st.queries);
	mc::count("distinct_nontrivial", st.outcomes.size());
}

// ---- M4 diagnostics -----------------------------------------------------------------------------------------------
static void diagnostics(unsigned long long& unit)
{
	struct Case { std::string name; double fa, fb; };
	std::vector<Case> cs = {{"both_positive", 1, 2}, {"both_negative", -3, -1e-300}, {"nan_left", NAN, 1}, {"nan_right", -1, NAN}, {"both_nan", NAN, NAN}, {"inf_same_sign", INFINITY, 1},
							{"nan_left_zero_right", NAN, 0}, {"zero_left_nan_right", 0, NAN}, {"nan_left_negative_zero_right", NAN, -0.0}, {"both_zero_is_fine_but_nan_is_not", NAN, 1e-300}};
	for(auto& c : cs)
		for(int rev = 0; rev < 2; rev++)
		{
			if(!mc::mine(unit++)) continue;
			auto o = mc::isolate([&](std::function<void(const std::string&)> out) {
				std::function<double(double)> fn = [&](double x) { return x < 0.5 ? c.fa : c.fb; };
				double r = rev ? Find_Root(fn, 1, 0, 1e-6) : Find_Root(fn, 0, 1, 1e-6);
				out(mc::dec(r));
			});
			mc::count("evaluations", 1);
			mc::count("diagnostic_requests", 1);
			if(!o.diagnostic()) mc::violation("diagnostics", "diagnostics|" + c.name + "|rev=" + std::to_string(rev) + "|no_diagnostic_exit", std::string("outcome ") + o.name() + " payload '" + o.payload + "'", c.name);
		}
}

static int replay()
{
	auto m = mc::parse_case(mc::ctx().replay_case);
	if(m.count("f"))
	{
		// plain call on the materialised piecewise-linear counter-example
		std::vector<std::pair<double, double>> f;
		std::stringstream ss(m["f"]);
		std::string t;
		while(std::getline(ss, t, ';'))
			if(!t.empty()) { auto p = t.find(':'); f.push_back({mc::parsed(t.substr(0, p)), mc::parsed(t.substr(p + 1))}); }
		double a = mc::parsed(m["a"]), b = mc::parsed(m["b"]), acc = mc::parsed(m["acc"]);
		std::vector<double> q;
		std::function<double(double)> fn = [&](double x) { q.push_back(x); return pl_eval(f, x); };
		double r = Find_Root(fn, a, b, acc);
		double d = pl_root_distance(f, r);
		printf("piecewise-linear function through %zu points; Find_Root(%g,%g,acc=%g) = %.17g after %zu evaluations; nearest sign change %.3g away\n", f.size(), a, b, acc, r, q.size(), d);
		bool bad = !(d <= acc);
		for(double x : q)
			if(x < std::min(a, b) || x > std::max(a, b)) { printf("evaluated outside the bracket at %.17g\n", x); bad = true; }
		if(bad) printf("REPRODUCED\n");
		return bad ? 1 : 0;
	}
	printf("%s\n", mc::ctx().replay_case.c_str());
	return 0;
}

// ---- re-entrancy: the function being solved solves another equation with Find_Root at every evaluation ---------------------------------
static void nested(unsigned long long& unit)
{
	for(double c : {0.5, -1.25, 3.0})
		for(double acc : {1e-6, 1e-12})
			for(int rev = 0; rev < 2; rev++)
			{
				if(!mc::mine(unit++)) continue;
				// inner: y with y^3 + y = x (one root, y = g(x)); outer: x with g(x) = c, i.e. x = c^3 + c
				long long outside = 0;
				std::function<double(double)> outer = [&](double x) {
					if(!(x >= -50 && x <= 60)) outside++;
					std::function<double(double)> inner = [x](double y) { return y * y * y + y - x; };
					return Find_Root(inner, -10, 10, 1e-13) - c;
				};
				double r = NAN;
				std::string key = "nested|c=" + mc::dec(c) + ",acc=" + mc::dec(acc) + ",rev=" + std::to_string(rev);
				if(mc::library_exits([&]() { r = rev ? Find_Root(outer, 60, -50, acc) : Find_Root(outer, -50, 60, acc); })) { mc::violation("families", "families|" + key + "|valid_bracket_terminated_process", "a nested Find_Root ended the process", key); continue; }
				double want = c * c * c + c;
				if(!(std::fabs(r - want) <= acc + 1e-9) || outside) mc::violation("families", "families|" + key + "|nested_call_disturbs_the_outer_one", "outer root " + mc::dec(r) + " expected " + mc::dec(want) + " (" + std::to_string(outside) + " evaluations outside the bracket)", key);
			}
}

// ---- call histories: a request does not depend on the requests made before it (accuracy, bracket, function) -------------------------------
static void histories(unsigned long long& unit)
{
	struct Req { const char* name; std::function<double(double)> f; double a, b, acc; };
	std::vector<Req> R = {
		{"x^2-2 on [0,2] acc 1e-3", [](double x) { return x * x - 2; }, 0, 2, 1e-3},
		{"x^2-2 on [0,2] acc 1e-12", [](double x) { return x * x - 2; }, 0, 2, 1e-12},
		{"x^2-2 on [2,0] acc 1e-8", [](double x) { return x * x - 2; }, 2, 0, 1e-8},
		{"cos on [3,1] acc 1e-10", [](double x) { return std::cos(x); }, 3, 1, 1e-10},
		{"atan(x-0.3) on [-5,40] acc 1e-6", [](double x) { return std::atan(x - 0.3); }, -5, 40, 1e-6},
		{"x^3-1e6 on [1e-20,1e20] acc 1e-6", [](double x) { return x * x * x - 1e6; }, 1e-20, 1e20, 1e-6},
		{"1e-200(x-0.3) on [0,1] acc 1e-9", [](double x) { return 1e-200 * (x - 0.3); }, 0, 1, 1e-9},
		{"tanh(30x)+0.999 on [-50,80] acc 1e-7", [](double x) { return std::tanh(30 * x) + 0.999; }, -50, 80, 1e-7},
		{"zero at the left end", [](double x) { return x - 1; }, 1, 4, 1e-3},
	};
	std::vector<mc::PureLetter> L;
	for(auto& r : R)
		L.push_back({r.name, [r]() { std::string q; std::function<double(double)> fn = [&](double x) { q += mc::hexd(x) + ","; return r.f(x); }; double v = Find_Root(fn, r.a, r.b, r.acc); return mc::hexd(v) + "|" + q; }});
	long long t = mc::purity("histories", L, mc::thorough() ? 4 : 3, unit);
	mc::count("evaluations", t);
}

int main(int argc, char** argv)
{
	mc::init(argc, argv);
	if(mc::ctx().replay) return replay();
	atexit(exit_guard);
	mc::bound("rule", "M2: the harness answers the function; an execution is one complete run of Find_Root under one answer schedule (plus the same call with the bracket reversed); states = choice points visited, transitions = function evaluations; distinct = distinct (result, evaluation count) outcomes. M3: complete product family x bracket x accuracy x order. Oracle = certificate over ALL continuous completions of the recorded answers");
	unsigned long long unit = 0;
	adversary(unit);
	families(unit);
	nested(unit);
	histories(unit);
	diagnostics(unit);
	return mc::finish();
}
