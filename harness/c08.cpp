// C08 — Interpolation integrals and extrema are those of the interpolated curve, under every prefactor history.
// M1 over the prefactor state (BFS over Set_Prefactor/Multiply sequences) x M3 over tables and limit pairs.
#include "mc/mc.hpp"
#include "harness/steffen_ref.hpp"
#include "libphysica/Numerics.hpp"
#include <deque>
using namespace libphysica;
using mc::U_;
typedef long double ld;
static const double K = 32;

static const std::vector<double> H_RED	= {1, 1e-3, 1e3};
static const std::vector<double> Y_RED	= {0, 1, -1, 2, 1e20};
static const std::vector<double> Y_RED4 = {0, 1, -1, 1e20};
static const std::vector<double> FACT	= {2, -1, -3.5, 0.5, 1e-30, 1e30};

static std::string tkey(const std::vector<double>& x, const std::vector<double>& y) { return "x=" + mc::decv(x) + ";y=" + mc::decv(y); }

struct Limit
{
	double x;
	bool knot;
};

static std::vector<Limit> limit_alphabet(const std::vector<double>& x)
{
	int N = x.size();
	std::vector<Limit> L;
	auto push = [&](double q, bool k) {
		if(q < x[0] && !(std::fabs(q - x[0]) < 1e-2 * (x[1] - x[0]))) return;
		if(q > x[N - 1] && !(std::fabs(q - x[N - 1]) < 1e-2 * (x[N - 1] - x[N - 2]))) return;
		if(L.empty() || q > L.back().x) L.push_back({q, k});
	};
	push(x[0] - 0.005 * (x[1] - x[0]), false);
	for(int i = 0; i < N; i++)
	{
		push(std::nextafter(x[i], -INFINITY), false);
		push(x[i], true);
		push(std::nextafter(x[i], INFINITY), false);
		if(i < N - 1)
			for(int k = 1; k <= 3; k++) push(x[i] + (x[i + 1] - x[i]) * 0.25 * k, false);
	}
	push(x[N - 1] + 0.005 * (x[N - 1] - x[N - 2]), false);
	return L;
}

struct TableCheck
{
	std::vector<double> x, y;
	int N;
	Interpolation I;
	ref::Steffen R;
	std::vector<Limit> L;
	std::vector<int> seg;			// reference segment of each limit
	std::vector<double> unit;		// Interpolate at the limits, prefactor 1
	std::vector<ld> refval;			// reference curve value at the limits
	std::vector<ld> cum, cumabs;	// reference integral from L[0] to L[i] and its conditioning sum
	std::vector<double> lat;		// lattice abscissae (16 per interval)
	std::vector<double> latunit;
	long long calls = 0;

	TableCheck(const std::vector<double>& xs, const std::vector<double>& ys) : x(xs), y(ys), N(xs.size()), I(xs, ys), R(xs, ys)
	{
		L = limit_alphabet(x);
		for(auto& l : L)
		{
			int j = R.segment(l.x);
			seg.push_back(j);
			pristine();
			unit.push_back(I.Interpolate(l.x));
			refval.push_back(R.value(j, l.x));
		}
		// reference integral by segments, anchored at the left knot of each segment; conditioning = sum of |terms|
		cum.assign(L.size(), 0);
		cumabs.assign(L.size(), 0);
		for(size_t i = 1; i < L.size(); i++)
		{
			ld acc = 0, aab = 0;
			double a = L[i - 1].x, b = L[i].x;
			int ja = R.segment(a), jb = R.segment(b);
			for(int j = ja; j <= jb; j++)
			{
				ld lo = (j == ja) ? (ld)a : R.x[j], hi = (j == jb) ? (ld)b : R.x[j + 1];
				acc += R.integral(j, lo, hi);
				ld tl = fabsl(lo - R.x[j]), th = fabsl(hi - R.x[j]);
				auto A = [&](ld t) { return ((fabsl(R.a[j]) / 4 * t + fabsl(R.b[j]) / 3) * t + fabsl(R.c[j]) / 2) * t * t + fabsl(R.y[j]) * t; };
				aab += A(tl) + A(th);
			}
			cum[i]	  = cum[i - 1] + acc;
			cumabs[i] = cumabs[i - 1] + aab;
		}
		for(int j = 0; j < N - 1; j++)
			for(int k = 0; k < 16; k++)
			{
				double q = x[j] + (x[j + 1] - x[j]) * k / 16.0;
				if(q >= x[j] && q < x[j + 1]) lat.push_back(q);
			}
		lat.push_back(x[N - 1]);
		for(double q : lat)
		{
			pristine();
			latunit.push_back(I.Interpolate(q));
		}
	}
	void pristine() { I.jLast = 0; I.correlated_calls = false; }
	// exact integral of the reference curve between limits i<k and the sum of the magnitudes of all antiderivative terms
	// (each segment's antiderivative anchored at its left knot) — the conditioning of the computation
	void pair_reference(size_t i, size_t k, ld& sum, ld& abssum)
	{
		double a = L[i].x, b = L[k].x;
		int ja = seg[i], jb = seg[k];
		sum = 0; abssum = 0;
		for(int j = ja; j <= jb; j++)
		{
			ld lo = (j == ja) ? (ld)a : R.x[j], hi = (j == jb) ? (ld)b : R.x[j + 1];
			sum += R.integral(j, lo, hi);
			ld tl = fabsl(lo - R.x[j]), th = fabsl(hi - R.x[j]);
			auto A = [&](ld t) { return ((fabsl(R.a[j]) / 4 * t + fabsl(R.b[j]) / 3) * t + fabsl(R.c[j]) / 2) * t * t + fabsl(R.y[j]) * t; };
			abssum += A(tl) + A(th);
		}
	}
	// extreme values of the reference curve on [L_i, L_k]: the ends, the knots inside, and stationary points of the
	// edge cubics in the extrapolation zones (inside the table every piece is monotone, outside it need not be)
	void pair_extrema(size_t i, size_t k, ld& mn, ld& mx)
	{
		mn = std::min(refval[i], refval[k]);
		mx = std::max(refval[i], refval[k]);
		for(int q = 0; q < N; q++)
			if(x[q] >= L[i].x && x[q] <= L[k].x) { mn = std::min(mn, (ld)y[q]); mx = std::max(mx, (ld)y[q]); }
		for(int side = 0; side < 2; side++)
		{
			int j = side ? N - 2 : 0;
			ld zlo = side ? R.x[N - 1] : (ld)L[i].x, zhi = side ? (ld)L[k].x : R.x[0];
			zlo = std::max(zlo, (ld)L[i].x); zhi = std::min(zhi, (ld)L[k].x);
			if(!(zlo < zhi)) continue;
			ld A = 3 * R.a[j], B = 2 * R.b[j], C = R.c[j];
			ld disc = B * B - 4 * A * C;
			if(A == 0 || disc < 0) continue;
			for(int sg = -1; sg <= 1; sg += 2)
			{
				ld t = (-B + sg * sqrtl(disc)) / (2 * A) + R.x[j];
				if(t > zlo && t < zhi) { ld v = R.value(j, t); mn = std::min(mn, v); mx = std::max(mx, v); stationary_in_zone = true; }
			}
		}
	}
	bool stationary_in_zone = false;
	void fail(const std::string& part, double p, const std::string& what, const std::string& cls, const std::string& detail)
	{
		mc::violation(part, part + "|" + tkey(x, y) + "|p=" + mc::dec(p) + "|" + what + "|" + cls, detail, "x=" + mc::hexv(x) + " y=" + mc::hexv(y) + " prefactor=" + mc::hexd(p) + " " + what);
	}
	double tolv(int j, double p) { return std::fabs(p) * ((double)(K * U_ * R.scale_value(j)) + K * mc::ETA); }

	// all oracles in one prefactor state
	void check_state(double p, const std::string& part, bool pairs_full)
	{
		I.prefactor = p;
		size_t n	= L.size();
		double ap	= std::fabs(p);
		// values scale exactly
		std::vector<double> F(n);
		for(size_t i = 0; i < n; i++)
		{
			pristine();
			F[i] = I.Interpolate(L[i].x);
			calls++;
			if(!mc::same_bits(F[i], p * unit[i]) && !(F[i] == 0 && p * unit[i] == 0)) fail(part, p, "Interpolate(" + mc::hexd(L[i].x) + ")", "value_not_scaled_exactly", "got " + mc::dec(F[i]) + " expected prefactor*unit value " + mc::dec(p * unit[i]));
		}
		std::vector<double> G(lat.size());
		for(size_t i = 0; i < lat.size(); i++) G[i] = p * latunit[i];
		// global extrema
		{
			double ymin = *std::min_element(y.begin(), y.end()), ymax = *std::max_element(y.begin(), y.end());
			double wmin = p < 0 ? p * ymax : p * ymin, wmax = p < 0 ? p * ymin : p * ymax;
			double gmin = I.Global_Minimum(), gmax = I.Global_Maximum();
			calls += 2;
			if(!mc::same_bits(gmin, wmin) && !(gmin == 0 && wmin == 0)) fail(part, p, "Global_Minimum()", "global_min_wrong", "got " + mc::dec(gmin) + " expected " + mc::dec(wmin));
			if(!mc::same_bits(gmax, wmax) && !(gmax == 0 && wmax == 0)) fail(part, p, "Global_Maximum()", "global_max_wrong", "got " + mc::dec(gmax) + " expected " + mc::dec(wmax));
			for(size_t i = 0; i < lat.size(); i++)
			{
				int j	  = std::min((int)(i / 16), N - 2);
				double tl = tolv(j, p);
				if(!(G[i] >= gmin - tl && G[i] <= gmax + tl)) fail(part, p, "Interpolate(" + mc::hexd(lat[i]) + ")", "evaluation_outside_global_extrema", "value " + mc::dec(G[i]) + " outside [" + mc::dec(gmin) + "," + mc::dec(gmax) + "]");
			}
		}
		// pairs
		std::vector<std::vector<double>> M(n, std::vector<double>(n, 0.0));
		size_t step = pairs_full ? 1 : 3;
		for(size_t i = 0; i < n; i += 1)
			for(size_t k = 0; k < n; k += 1)
			{
				if(!pairs_full && ((i + 2 * k) % step) && i != k) continue;
				pristine();
				M[i][k] = I.Integrate(L[i].x, L[k].x);
				calls++;
			}
		for(size_t i = 0; i < n; i++)
			for(size_t k = i; k < n; k++)
			{
				if(!pairs_full && ((i + 2 * k) % step) && i != k) continue;
				std::string lim = "limits=" + mc::hexd(L[i].x) + "," + mc::hexd(L[k].x);
				double m		= M[i][k];
				// antisymmetry / zero-length
				bool have_rev = pairs_full || !((k + 2 * i) % step) || i == k;
				if(have_rev && !(M[k][i] == -m)) fail(part, p, lim, "integral_not_antisymmetric", "I(a,b)=" + mc::dec(m) + " I(b,a)=" + mc::dec(M[k][i]));
				if(i == k && m != 0) fail(part, p, lim, "integral_equal_limits_nonzero", "I(a,a)=" + mc::dec(m));
				if(i == k) continue;
				// reference antiderivative, summed directly over the segments between the two limits
				ld rsum = 0, rabs = 0;
				pair_reference(i, k, rsum, rabs);
				ld rint	  = (ld)p * rsum;
				double tl = ap * (double)(K * U_ * rabs) + K * mc::ETA;
				if(!(std::fabs((double)(m - rint)) <= tl)) fail(part, p, lim, "integral_vs_reference", "Integrate=" + mc::dec(m) + " exact integral of the reference curve " + mc::dec((double)rint) + " tol " + mc::dec(tl));
				mc::maxi("integral_err_over_tol", std::fabs((double)(m - rint)) / tl);
				// extrema over [L_i, L_k]: ends and knots strictly inside (reference model)
				ld umin, umax;
				pair_extrema(i, k, umin, umax);
				ld rmin = p < 0 ? (ld)p * umax : (ld)p * umin, rmax = p < 0 ? (ld)p * umin : (ld)p * umax;
				double tv = tolv(seg[i], p) + tolv(seg[k], p);
				// a limit that is a tabulated abscissa may be located in the segment to its left by the calls inside Local_*/Integrate
				if(L[i].knot && seg[i] > 0) tv += tolv(seg[i] - 1, p);
				if(L[k].knot && seg[k] > 0) tv += tolv(seg[k] - 1, p);
				double len = L[k].x - L[i].x;
				if(!(m >= (double)rmin * len - tl - tv * len && m <= (double)rmax * len + tl + tv * len)) fail(part, p, lim, "integral_outside_min_max_times_length", "Integrate=" + mc::dec(m) + " not in [" + mc::dec((double)rmin * len) + "," + mc::dec((double)rmax * len) + "]");
				pristine();
				double lmin = I.Local_Minimum(L[i].x, L[k].x);
				pristine();
				double lmax = I.Local_Maximum(L[i].x, L[k].x);
				calls += 2;
				if(!(std::fabs(lmin - (double)rmin) <= tv)) fail(part, p, lim, "local_min_wrong", "Local_Minimum=" + mc::dec(lmin) + " smallest value of the curve on the interval " + mc::dec((double)rmin));
				if(!(std::fabs(lmax - (double)rmax) <= tv)) fail(part, p, lim, "local_max_wrong", "Local_Maximum=" + mc::dec(lmax) + " largest value of the curve on the interval " + mc::dec((double)rmax));
				// no evaluation of the lattice inside [a,b] falls outside
				for(size_t g = 0; g < lat.size(); g++)
					if(lat[g] >= L[i].x && lat[g] <= L[k].x)
					{
						int j	   = std::min((int)(g / 16), N - 2);
						double tg = tolv(j, p) + tv;
						if(!(G[g] >= lmin - tg && G[g] <= lmax + tg)) fail(part, p, lim, "evaluation_outside_local_extrema", "Interpolate(" + mc::dec(lat[g]) + ")=" + mc::dec(G[g]) + " outside [" + mc::dec(lmin) + "," + mc::dec(lmax) + "]");
					}
			}
		// additivity over every triple (arithmetic on the matrix of results)
		if(pairs_full)
			for(size_t i = 0; i < n; i++)
				for(size_t j = i + 1; j < n; j++)
					for(size_t k = j + 1; k < n; k++)
					{
						ld s1, a1, s2, a2, s3, a3;
						pair_reference(i, k, s1, a1); pair_reference(i, j, s2, a2); pair_reference(j, k, s3, a3);
						double tl = ap * (double)(K * U_ * (a1 + a2 + a3)) + K * mc::ETA;
						if(!(std::fabs(M[i][k] - (M[i][j] + M[j][k])) <= tl)) fail(part, p, "limits=" + mc::hexd(L[i].x) + "," + mc::hexd(L[j].x) + "," + mc::hexd(L[k].x), "integral_not_additive", "I(a,c)=" + mc::dec(M[i][k]) + " I(a,b)+I(b,c)=" + mc::dec(M[i][j] + M[j][k]));
					}
		// derivative with respect to the upper limit (symmetric difference quotient), at the quarter points
		for(size_t i = 0; i < n; i++)
		{
			if(L[i].knot || L[i].x <= x[0] || L[i].x >= x[N - 1]) continue;
			int j = seg[i];
			double h = x[j + 1] - x[j];
			if(!(L[i].x - x[j] > h / 8 && x[j + 1] - L[i].x > h / 8)) continue;
			double dl = std::ldexp(h, -12);
			double xp = L[i].x + dl, xm = L[i].x - dl;
			if(!(xp > L[i].x && xm < L[i].x)) continue;
			pristine();
			double ip = I.Integrate(x[0], xp);
			pristine();
			double im = I.Integrate(x[0], xm);
			calls += 2;
			double quo = (ip - im) / (xp - xm);
			// cubic: mean over [x-d,x+d] = f(x) + f''(x) d^2/6 exactly; |f''| <= 6|a|h+2|b|
			double trunc = ap * (double)((6 * fabsl(R.a[j]) * h + 2 * fabsl(R.b[j])) * dl * dl / 6) * 1.01;
			size_t lastk  = 0;
			for(size_t k = 0; k < n; k++) if(L[k].x <= xp) lastk = k;
			ld s0, a0;
			pair_reference(0, std::min(lastk + 1, n - 1), s0, a0);
			double round = ap * (double)(K * U_ * 4 * a0) / (xp - xm);
			if(!(std::fabs(quo - F[i]) <= trunc + round + tolv(j, p))) fail(part, p, "upper_limit=" + mc::hexd(L[i].x), "integral_derivative_not_interpolate", "difference quotient " + mc::dec(quo) + " Interpolate " + mc::dec(F[i]) + " tol " + mc::dec(trunc + round));
		}
		I.prefactor = 1.0;
	}
};

static bool build_x(double origin, const std::vector<double>& hs, std::vector<double>& x)
{
	x.assign(1, origin);
	for(double h : hs)
	{
		double nx = x.back() + h;
		if(!(nx > x.back())) return false;
		x.push_back(nx);
	}
	return true;
}

static std::vector<double> REP_STATES = {1, 2, -1, -3.5, 0.5, 1e-30, 1e30, -7, 1.75, -1e30, 2e-30, -0.5};

static void tables_part(int N, const std::vector<double>& H, const std::vector<double>& Y, const std::vector<double>& origins, int nstates, bool pairs_full, unsigned long long& unit, const char* label)
{
	std::vector<int> rh(N - 1, (int)H.size()), ry(N, (int)Y.size());
	long long tables = 0, cases = 0, nontriv = 0;
	for(double org : origins)
	{
		mc::Product ph(rh);
		do
		{
			std::vector<double> hs, x;
			for(int i : ph.idx) hs.push_back(H[i]);
			if(!build_x(org, hs, x)) continue;
			mc::Product py(ry);
			do
			{
				if(!mc::mine(unit++)) continue;
				if(mc::out_of_time(label)) return;
				std::vector<double> y(N);
				for(int i = 0; i < N; i++) y[i] = Y[py.idx[i]];
				TableCheck T(x, y);
				for(int s = 0; s < nstates; s++) T.check_state(REP_STATES[s], "integ", pairs_full);
				tables++;
				cases += T.calls;
				if(T.R.limiter_active || T.R.nonuniform) nontriv += nstates;
				if(tables == 99) mc::sample(std::string("table x=") + mc::hexv(x) + " y=" + mc::hexv(y) + ": " + std::to_string(T.L.size()) + " limits -> all ordered pairs x " + std::to_string(nstates) + " prefactor states (Integrate both orders, Local_Minimum, Local_Maximum, Global_*, lattice containment)");
			} while(py.next());
		} while(ph.next());
	}
	mc::count(std::string("tables_") + label, tables);
	mc::count("evaluations", cases);
	mc::count("transitions", cases);
	mc::count("distinct_nontrivial", nontriv);
}

// BFS over prefactor histories on the real object
static void prefactor_bfs(unsigned long long& unit)
{
	int depth = mc::thorough() ? 3 : 2;
	mc::bound("prefactor_bfs_depth", std::to_string(depth));
	std::vector<std::pair<std::vector<double>, std::vector<double>>> core = {
		{{0, 1, 2, 3, 4}, {0, 5, -3, 5, 0}},
		{{-2.5, -2.499, 997.501, 997.502}, {1, -2, 1e20, 1}},
		{{100, 101, 104, 104.001, 1104.001, 1104.5}, {2, 2, -1, 0, 7, 7}},
	};
	struct St { double model; int depth; std::string path; };
	std::vector<St> states{{1.0, 0, "-"}};
	std::map<uint64_t, int> seen{{mc::bits(1.0), 0}};
	Interpolation base(core[0].first, core[0].second);
	mc::Digest D0;
	D0.vec(base.x_values); D0.vec(base.function_values); D0.vec(base.a); D0.vec(base.b); D0.vec(base.c); D0.vec(base.d); D0.pod(base.jLast);
	long long tr = 0;
	for(size_t s = 0; s < states.size(); s++)
	{
		if(states[s].depth >= depth) continue;
		for(int op = 0; op < 2; op++)
			for(double f : FACT)
			{
				// real transition: replay the witness path through the public API, then apply the operation
				Interpolation O(base);
				if(states[s].path != "-")
				{
					std::stringstream ss(states[s].path);
					std::string t;
					while(std::getline(ss, t, ','))
					{
						double v = mc::parsed(t.substr(1));
						if(t[0] == 'S') O.Set_Prefactor(v); else O.Multiply(v);
					}
				}
				if(mc::bits(O.prefactor) != mc::bits(states[s].model)) { fprintf(stderr, "FATAL: witness path does not reproduce the prefactor state\n"); exit(3); }
				double model = op == 0 ? f : states[s].model * f;
				if(op == 0) O.Set_Prefactor(f); else O.Multiply(f);
				tr++;
				std::string step = std::string(op == 0 ? "S" : "M") + mc::hexd(f);
				std::string path = states[s].path == "-" ? step : states[s].path + "," + step;
				mc::Digest D1;
				D1.vec(O.x_values); D1.vec(O.function_values); D1.vec(O.a); D1.vec(O.b); D1.vec(O.c); D1.vec(O.d); D1.pod(O.jLast);
				if(mc::bits(O.prefactor) != mc::bits(model) || D1.key() != D0.key())
					mc::violation("prefactor_bfs", "prefactor_bfs|path=" + path + "|state_not_model", "object prefactor " + mc::dec(O.prefactor) + " model " + mc::dec(model), "path=" + path);
				if(!std::isfinite(model) || model == 0) continue;
				if(!seen.count(mc::bits(model)))
				{
					seen[mc::bits(model)] = states.size();
					states.push_back({model, states[s].depth + 1, path});
				}
			}
	}
	if(mc::shard0())
	{
		mc::count("states", states.size());
		mc::count("transitions", tr);
		mc::alphabet("prefactor_ops", 12);
		mc::sample("prefactor state " + mc::dec(states.back().model) + " reached by [" + states.back().path + "] (S=Set_Prefactor, M=Multiply); all table oracles evaluated in that state", 6);
	}
	// every reached state on the three core tables, all limit pairs
	for(size_t s = 0; s < states.size(); s++)
		for(auto& t : core)
		{
			if(!mc::mine(unit++)) continue;
			TableCheck T(t.first, t.second);
			T.check_state(states[s].model, "prefactor_bfs", true);
			mc::count("evaluations", T.calls);
			mc::count("transitions", T.calls);
			mc::count("distinct_nontrivial", 1);
		}
}

// 2D global extrema under prefactor states
static void global_2d(unsigned long long& unit)
{
	const std::vector<double> V = {0, 1, -1, 5, -3, 1e20, -1e20, 1e-20};
	for(int nx : {3, 4})
		for(int ny : {3, 4})
			for(int pat = 0; pat < 40; pat++)
			{
				if(!mc::mine(unit++)) continue;
				std::vector<double> x{-2.5}, y{10.0};
				for(int i = 0; i < nx - 1; i++) x.push_back(x.back() + H_RED[(i + pat) % 3]);
				for(int j = 0; j < ny - 1; j++) y.push_back(y.back() + H_RED[(2 * j + pat / 3) % 3]);
				std::vector<std::vector<double>> f(nx, std::vector<double>(ny));
				double fmin = INFINITY, fmax = -INFINITY, fabsmax = 0;
				for(int i = 0; i < nx; i++)
					for(int j = 0; j < ny; j++)
					{
						f[i][j] = V[(i * 7 + j * 3 + pat * (i + 1) + pat / 5 * j) % (pat % 2 ? 5 : V.size())];
						fmin = std::min(fmin, f[i][j]); fmax = std::max(fmax, f[i][j]); fabsmax = std::max(fabsmax, std::fabs(f[i][j]));
					}
				Interpolation_2D I(x, y, f);
				for(double p : REP_STATES)
				{
					// reach the state through the API in two different ways
					Interpolation_2D A(I), B(I);
					A.Set_Prefactor(p);
					B.Set_Prefactor(-1.0);
					B.Multiply(-p);
					double wmin = p < 0 ? p * fmax : p * fmin, wmax = p < 0 ? p * fmin : p * fmax;
					for(Interpolation_2D* O : {&A, &B})
					{
						double gmin = O->Global_Minimum(), gmax = O->Global_Maximum();
						auto fail = [&](const std::string& cls, const std::string& detail) {
							std::string fs;
							for(auto& r : f) fs += mc::decv(r) + "/";
							mc::violation("global2d", "global2d|x=" + mc::decv(x) + ";y=" + mc::decv(y) + ";f=" + fs + "|p=" + mc::dec(p) + "|" + cls, detail, "x=" + mc::hexv(x) + " y=" + mc::hexv(y) + " f=" + fs + " prefactor=" + mc::hexd(p));
						};
						if(!(gmin == wmin)) fail("global_min_wrong", "Global_Minimum=" + mc::dec(gmin) + " expected " + mc::dec(wmin));
						if(!(gmax == wmax)) fail("global_max_wrong", "Global_Maximum=" + mc::dec(gmax) + " expected " + mc::dec(wmax));
						double tl = std::fabs(p) * K * U_ * 4 * fabsmax;
						for(int a = 0; a <= 12; a++)
							for(int b = 0; b <= 12; b++)
							{
								double qx = std::min(x.front() + (x.back() - x.front()) * a / 12.0, x.back()), qy = std::min(y.front() + (y.back() - y.front()) * b / 12.0, y.back());
								double v = O->Interpolate(qx, qy);
								if(!(v >= gmin - tl && v <= gmax + tl)) fail("evaluation_outside_global_extrema", "Interpolate(" + mc::dec(qx) + "," + mc::dec(qy) + ")=" + mc::dec(v) + " outside [" + mc::dec(gmin) + "," + mc::dec(gmax) + "]");
							}
						mc::count("evaluations", 171);
						mc::count("transitions", 171);
					}
					mc::count("distinct_nontrivial", 1);
				}
			}
}

static int replay()
{
	auto m = mc::parse_case(mc::ctx().replay_case);
	if(!m.count("prefactor") || m.count("f")) { printf("see case text\n"); return 0; }
	TableCheck T(mc::parsev(m["x"]), mc::parsev(m["y"]));
	T.check_state(mc::parsed(m["prefactor"]), "integ", true);
	return mc::ctx().violation_total ? 1 : 0;
}

// ---- prefactors at the ends of the double range: every output is the prefactor times the output for prefactor 1 -------------------------
static void extreme_prefactors(unsigned long long& unit)
{
	std::vector<std::pair<std::vector<double>, std::vector<double>>> tabs = {
		{{0, 1, 2, 3, 4}, {0, 5, -3, 5, 0}},
		{{-2.5, -2.499, 0.5, 0.502, 7}, {1, -2, 0.25, 1, 3}},
		{{0, 1e7, 2.5e7, 2.6e7}, {1, 3, 2, -4}},
		{{1e-6, 2e-6, 2.5e-6, 4e-6, 4.1e-6, 9e-6}, {2, 2, -1, 0, 7, 7}},
	};
	for(size_t ti = 0; ti < tabs.size(); ti++)
		for(double p : {1e300, -1e300, 1e-300, -1e-300, 1e280, -3e-290})
		{
			if(!mc::mine(unit++)) continue;
			auto& x = tabs[ti].first;
			Interpolation A(x, tabs[ti].second), B(x, tabs[ti].second);
			B.Set_Prefactor(p);
			std::vector<double> L;
			for(size_t i = 0; i < x.size(); i++) { L.push_back(x[i]); if(i + 1 < x.size()) { L.push_back(x[i] + 0.3 * (x[i + 1] - x[i])); L.push_back(x[i] + 0.8 * (x[i + 1] - x[i])); } }
			double scale = 0;
			for(double y : tabs[ti].second) scale = std::max(scale, std::fabs(y));
			std::string key = "table#" + std::to_string(ti) + ",prefactor=" + mc::dec(p);
			auto cmp = [&](const std::string& what, double got, double base, double magnitude) {
				mc::count("evaluations", 1);
				mc::count("transitions", 1);
				double want = p * base, tol = 64 * U_ * std::fabs(p) * magnitude;
				if(!std::isfinite(got) || !(std::fabs(got - want) <= tol)) mc::violation("extreme_prefactor", "extreme_prefactor|" + key + "|" + what + "|not_prefactor_times_unit_result", what + " = " + mc::dec(got) + " but prefactor x (result for prefactor 1) = " + mc::dec(want), key + " " + what);
			};
			for(size_t i = 0; i < L.size(); i++)
			{
				cmp("Interpolate(" + mc::dec(L[i]) + ")", B.Interpolate(L[i]), A.Interpolate(L[i]), scale);
				for(size_t j = 0; j < L.size(); j += 3)
				{
					double len = std::fabs(L[i] - L[j]);
					cmp("Integrate(" + mc::dec(L[i]) + "," + mc::dec(L[j]) + ")", B.Integrate(L[i], L[j]), A.Integrate(L[i], L[j]), scale * (len + 0 * 1.0) * 4 + 1e-300 / std::fabs(p));
					if(L[i] <= L[j])
					{
						double mn = A.Local_Minimum(L[i], L[j]), mx = A.Local_Maximum(L[i], L[j]);
						cmp("Local_Minimum(" + mc::dec(L[i]) + "," + mc::dec(L[j]) + ")", B.Local_Minimum(L[i], L[j]), p > 0 ? mn : mx, scale);
						cmp("Local_Maximum(" + mc::dec(L[i]) + "," + mc::dec(L[j]) + ")", B.Local_Maximum(L[i], L[j]), p > 0 ? mx : mn, scale);
					}
				}
			}
			cmp("Global_Minimum", B.Global_Minimum(), p > 0 ? A.Global_Minimum() : A.Global_Maximum(), scale);
			cmp("Global_Maximum", B.Global_Maximum(), p > 0 ? A.Global_Maximum() : A.Global_Minimum(), scale);
		}
}

int main(int argc, char** argv)
{
	mc::init(argc, argv);
	if(mc::ctx().replay) return replay();
	mc::bound("rule", "BFS over Set_Prefactor/Multiply histories on the real object (state = prefactor bits, model = one double); in each state every ordered pair of a limit alphabet (knots, knot +- ulp, quarter points, extrapolation points) is submitted to Integrate (both orders), Local_Minimum, Local_Maximum and compared with the exact antiderivative / extrema of the independent long-double Steffen reference; a case is one library call; non-trivial = (table with active limiter or non-uniform spacing, state) pairs");
	mc::alphabet("H_reduced", 3);
	mc::alphabet("Y_reduced", 5);
	mc::alphabet("prefactor_factors", FACT.size());
	mc::alphabet("representative_states", REP_STATES.size());
	unsigned long long unit = 0;
	prefactor_bfs(unit);
	if(mc::quick())
	{
		mc::bound("tables", "N=3,4 over H'xY' at origins {0,-2.5,100} x 12 states, all pairs; N=5 over H'xY'' x 3 states, every third pair");
		tables_part(3, H_RED, Y_RED, {0.0, -2.5, 100.0}, 12, true, unit, "N3");
		tables_part(4, H_RED, Y_RED, {0.0, -2.5}, 12, true, unit, "N4");
		tables_part(5, H_RED, Y_RED4, {0.0}, 3, false, unit, "N5");
	}
	else
	{
		mc::bound("tables", "N=3,4 over H'xY' at origins {0,-2.5,100} x 12 states, all pairs; N=5 over H'xY' x 6 states all pairs; N=6 over H'xY'' x 3 states every third pair");
		tables_part(3, H_RED, Y_RED, {0.0, -2.5, 100.0}, 12, true, unit, "N3");
		tables_part(4, H_RED, Y_RED, {0.0, -2.5, 100.0}, 12, true, unit, "N4");
		tables_part(5, H_RED, Y_RED, {0.0}, 6, true, unit, "N5");
		tables_part(6, H_RED, Y_RED4, {-2.5}, 3, false, unit, "N6");
	}
	extreme_prefactors(unit);
	global_2d(unit);
	return mc::finish();
}
