// C20 — Exported data read back unchanged; units convert consistently in every build.
// M1 over file states (sequences of exports to one path followed by an import), M3 over shapes x value patterns x
// headers x units, and over the four build configurations g++/clang++ x -O0/-O2 of Natural_Units.cpp.
#include "mc/mc.hpp"
#include <locale>
#include "mc/exit_trap.hpp"
#include "libphysica/Utilities.hpp"
#include "libphysica/Natural_Units.hpp"
#include "libphysica/Special_Functions.hpp"
#include <fstream>
#include <regex>
using namespace libphysica;
using namespace libphysica::natural_units;
typedef long double ld;
typedef std::vector<double> V;
typedef std::vector<std::vector<double>> VV;

static void fail(const std::string& part, const std::string& key, const std::string& cls, const std::string& text) { mc::violation(part, part + "|" + key + "|" + cls, text, part + " " + key); }
static long long g_cases = 0, g_states = 0, g_trans = 0;
static std::string g_dir;

static double pattern_value(int pat, int i, int j)
{
	switch(pat)
	{
		case 0: return (double)((i * 7 + j * 3) % 19 - 9);									 // small integers incl. zero and negatives
		case 1: { int e = -300 + 25 * ((i * 5 + j * 11) % 25); long m = 100000 + ((i * 7919L + j * 104729L + 31) % 900000); char buf[64]; snprintf(buf, sizeof buf, "%s%ldE%d", ((i + j) % 3 == 0 ? "-" : ""), m, e - 5); return strtod(buf, nullptr); }	// the double nearest to the six-digit decimal	 // six-digit decimals over 600 decades
		case 2: return ((i + j) % 4 == 0) ? 0.0 : 1.0 / (1 + i + 2 * j);						 // fractions with more than six digits
		// the widest text a value can take: negative, six digits, three-digit negative exponent (14 characters per entry)
		case 4: { int e = -100 - ((i * 5 + j * 11) % 190); long m = 100000 + ((i * 7919L + j * 104729L + 77) % 900000); if(m % 10 == 0) m += 1; char buf[64]; snprintf(buf, sizeof buf, "-%ldE%d", m, e - 5); return strtod(buf, nullptr); }
		default: return (i % 2 ? -1 : 1) * std::ldexp(1.0 + (j % 5) * 0.125, (i * 13 + j * 7) % 200 - 100);
	}
}
// |back - v| within half a unit of the sixth significant digit of the number as written (v/dim)
static bool six_digits(double back, double v, double dim)
{
	if(v == 0) return back == 0;
	ld q = (ld)v / dim;
	ld e = floorl(log10l(fabsl(q)));
	if(powl(10.0L, e + 1) <= fabsl(q)) e += 1;
	ld half = 0.5L * powl(10.0L, e - 5) * fabsl((ld)dim);
	return fabsl((ld)back - v) <= half * (1 + 1e-9L) + 4 * (ld)mc::U_ * fabsl((ld)v);
}

static void tables(unsigned long long& unit)
{
	// (also headers that contain a blank line, a whitespace-only line, only a blank, and numeric tokens)
	// and header lines that consist of numbers only: a shape, a run number, column indices)
	const std::vector<std::string> headers = {"", "# one header line", "# first\n# second line of three\n# x\ty\tz", "# top\n\n# after a blank line", "# top\n \t \n# after a whitespace line", " ", "# 3 columns 12 rows 1e5 -7", "# rows columns\n3 2", "20260928\n# x\ty", "1\t2"};
	const int hlines[] = {0, 1, 3, 3, 3, 1, 1, 2, 2, 1};
	for(int rows : {1, 2, 3, 7, 200})
		for(int cols : {1, 2, 5, 12, 40})
			for(int pat = 0; pat < 5; pat++)
				for(int h = 0; h < (int)headers.size(); h++)
					for(int ua = 0; ua < 3; ua++)
					{
						if(h >= 3 && !(pat == 0 || (rows == 7 && cols == 5))) continue;	// the extra header shapes: one value pattern is enough
						if(!mc::mine(unit++)) continue;
						VV data(rows, V(cols));
						for(int i = 0; i < rows; i++)
							for(int j = 0; j < cols; j++) data[i][j] = pattern_value(pat, i, j);
						V dims;
						if(ua) for(int j = 0; j < cols; j++) dims.push_back(std::pow(10.0, 30 * (((j + ua) % 3) - 1)));
						// combinations whose quotient leaves the normal double range are outside the property
						bool representable = true;
						for(int i = 0; i < rows; i++)
							for(int j = 0; j < cols; j++)
							{
								ld q = fabsl((ld)data[i][j] / (ua ? (ld)dims[j] : 1.0L));
								if(q != 0 && (q < 1e-300L || q > 1e300L)) representable = false;
							}
						if(!representable) { mc::count("table_configurations_outside_normal_range_excluded", 1); continue; }
						std::string key = "rows=" + std::to_string(rows) + ",cols=" + std::to_string(cols) + ",pattern=" + std::to_string(pat) + ",header=" + std::to_string(hlines[h]) + ",units=" + std::to_string(ua);
						std::string path = g_dir + "/c20_table_" + std::to_string(getpid()) + ".txt";
						VV back;
						if(mc::library_exits([&]() { Export_Table(path, data, dims, headers[h]); back = Import_Table(path, dims, hlines[h]); })) { fail("table", key, "terminated_process", "a valid export/import ended the process"); continue; }
						g_cases++;
						g_trans += 2;
						bool shape = (int)back.size() == rows;
						for(auto& r : back) if((int)r.size() != cols) shape = false;
						if(!shape) { fail("table", key, "shape_changed", "read back " + std::to_string(back.size()) + " x " + std::to_string(back.empty() ? 0 : back[0].size())); continue; }
						for(int i = 0; i < rows; i++)
							for(int j = 0; j < cols; j++)
							{
								double dim = ua ? dims[j] : 1.0;
								if(!six_digits(back[i][j], data[i][j], dim)) { fail("table", key, "value_not_reproduced_to_six_digits", "entry (" + std::to_string(i) + "," + std::to_string(j) + ") " + mc::dec(data[i][j]) + " read back as " + mc::dec(back[i][j])); i = rows; break; }
								if(pat <= 1 && !ua && !mc::same_bits(back[i][j], data[i][j]) && !(back[i][j] == 0 && data[i][j] == 0)) { fail("table", key, "six_digit_decimal_not_reproduced_exactly", "entry (" + std::to_string(i) + "," + std::to_string(j) + ") " + mc::dec(data[i][j]) + " read back as " + mc::dec(back[i][j])); i = rows; break; }
							}
						unlink(path.c_str());
					}
}

static void lists_and_functions(unsigned long long& unit)
{
	for(int n : {1, 2, 7, 200})
		for(int pat = 0; pat < 4; pat++)
			for(int h = 0; h < 7; h++)
				for(double dim : {1.0, 1e-30, 1e30})
				{
					if(!mc::mine(unit++)) continue;
					static const char* LH[] = {"", "# header", "# top\n\n# after a blank line", " ", "# 5 values 1e3", "4", "# entries\n20260928"};
					static const int LHN[] = {0, 1, 3, 1, 1, 1, 2};
					V data(n);
					bool ok = true;
					for(int i = 0; i < n; i++) { data[i] = pattern_value(pat, i, 3); ld q = fabsl((ld)data[i] / dim); if(q != 0 && (q < 1e-300L || q > 1e300L)) ok = false; }
					if(!ok) continue;
					std::string key = "n=" + std::to_string(n) + ",pattern=" + std::to_string(pat) + ",header=" + std::to_string(h) + ",unit=" + mc::dec(dim);
					std::string path = g_dir + "/c20_list_" + std::to_string(getpid()) + ".txt";
					V back;
					if(mc::library_exits([&]() { Export_List(path, data, dim, LH[h]); back = Import_List(path, dim, LHN[h]); })) { fail("list", key, "terminated_process", "ended the process"); continue; }
					g_cases++;
					g_trans += 2;
					if(back.size() != data.size()) { fail("list", key, "length_changed", std::to_string(back.size()) + " values read back"); continue; }
					for(int i = 0; i < n; i++)
						if(!six_digits(back[i], data[i], dim)) { fail("list", key, "value_not_reproduced_to_six_digits", mc::dec(data[i]) + " read back as " + mc::dec(back[i])); break; }
					unlink(path.c_str());
				}
	// Export_Function, both overloads, linear and logarithmic
	// (lg = 2, 3: logarithmic ranges whose quotient hi/lo is not representable)
	for(int lg = 0; lg < 4; lg++)
		for(unsigned steps : {2u, 5u, 50u})
			for(int ua = 0; ua < 2; ua++)
			{
				if(!mc::mine(unit++)) continue;
				std::function<double(double)> f = [](double x) { return 3.5 * x * x - 1.0 / (1 + x); };
				if(lg >= 2) f = [](double x) { return std::log10(x) + 0.25; };
				double lo = lg == 2 ? 1e-160 : lg == 3 ? 1e-300 : lg ? 1e-3 : -2, hi = lg == 2 ? 1e160 : lg == 3 ? 1e300 : lg ? 1e5 : 6;
				V dims = ua ? V{1e-3, 1e6} : V{};
				std::string key = std::string(lg ? "log" : "linear") + (lg >= 2 ? ",range=" + mc::dec(lo) + ".." + mc::dec(hi) : std::string()) + ",steps=" + std::to_string(steps) + ",units=" + std::to_string(ua);
				std::string p1 = g_dir + "/c20_f1_" + std::to_string(getpid()), p2 = g_dir + "/c20_f2_" + std::to_string(getpid());
				VV b1, b2;
				V xs = lg ? Log_Space(lo, hi, steps) : Linear_Space(lo, hi, steps);
				if(mc::library_exits([&]() { Export_Function(p1, f, lo, hi, steps, dims, lg, "# x f"); Export_Function(p2, f, xs, dims, "# x f"); b1 = Import_Table(p1, dims, 1); b2 = Import_Table(p2, dims, 1); })) { fail("function", key, "terminated_process", "ended the process"); continue; }
				g_cases++;
				g_trans += 4;
				if(b1.size() != steps || b2.size() != steps) { fail("function", key, "shape_changed", std::to_string(b1.size()) + " rows"); continue; }
				for(unsigned i = 0; i < steps; i++)
				{
					if(b1[i].size() != 2 || b2[i].size() != 2 || !mc::same_bits(b1[i][0], b2[i][0]) || !mc::same_bits(b1[i][1], b2[i][1])) { fail("function", key, "overloads_differ", "row " + std::to_string(i)); break; }
					if(!six_digits(b1[i][0], xs[i], ua ? dims[0] : 1.0) || !six_digits(b1[i][1], f(xs[i]), ua ? dims[1] : 1.0)) { fail("function", key, "value_not_reproduced_to_six_digits", "row " + std::to_string(i) + ": x=" + mc::dec(xs[i]) + " f=" + mc::dec(f(xs[i])) + " read back " + mc::dec(b1[i][0]) + "," + mc::dec(b1[i][1])); break; }
				}
				unlink(p1.c_str());
				unlink(p2.c_str());
			}
}

// Export_Function on descending ranges and on abscissa lists with repeated entries: the file holds the points as given, in the order given
static void function_orders(unsigned long long& unit)
{
	auto f = [](double x) { return 3.5 * x * x - 1.0 / (1 + x); };
	for(int lg = 0; lg < 2; lg++)
		for(unsigned steps : {2u, 3u, 7u})
		{
			if(!mc::mine(unit++)) continue;
			double hi = lg ? 1e5 : 6, lo = lg ? 1e-3 : 0.5;	 // descending: from hi down to lo
			std::string key = std::string(lg ? "log" : "linear") + ",descending,steps=" + std::to_string(steps);
			std::string p1 = g_dir + "/c20_fo_" + std::to_string(getpid());
			VV b1;
			V xs = lg ? Log_Space(hi, lo, steps) : Linear_Space(hi, lo, steps);
			if(mc::library_exits([&]() { Export_Function(p1, f, hi, lo, steps, V{}, lg, "# x f"); b1 = Import_Table(p1, V{}, 1); })) { fail("function", key, "terminated_process", "ended the process"); continue; }
			g_cases++;
			g_trans += 2;
			bool ok = b1.size() == steps;
			for(unsigned i = 0; ok && i < steps; i++) ok = b1[i].size() == 2 && six_digits(b1[i][0], xs[i], 1.0) && six_digits(b1[i][1], f(xs[i]), 1.0);
			if(!ok) fail("function", key, "descending_range_not_reproduced", "rows read back: " + std::to_string(b1.size()) + (b1.size() ? ", first abscissa " + mc::dec(b1[0][0]) + " expected " + mc::dec(xs[0]) : ""));
			unlink(p1.c_str());
		}
	for(int pat = 0; pat < 4; pat++)
	{
		if(!mc::mine(unit++)) continue;
		// lists with repeated and unsorted abscissae (two segments sharing an end point; a point given twice; descending)
		V xs = pat == 0 ? V{0, 0.5, 1, 1, 1.5, 2} : pat == 1 ? V{2, 2} : pat == 2 ? V{3, 1, 2, 1, 3} : V{0.25, 0.25, 0.25, 4};
		std::string key = "list_overload,abscissae=" + mc::decv(xs);
		std::string p1 = g_dir + "/c20_fl_" + std::to_string(getpid());
		VV b1;
		if(mc::library_exits([&]() { Export_Function(p1, f, xs, V{}, "# x f"); b1 = Import_Table(p1, V{}, 1); })) { fail("function", key, "terminated_process", "ended the process"); continue; }
		g_cases++;
		g_trans += 2;
		bool ok = b1.size() == xs.size();
		for(size_t i = 0; ok && i < xs.size(); i++) ok = b1[i].size() == 2 && six_digits(b1[i][0], xs[i], 1.0) && six_digits(b1[i][1], f(xs[i]), 1.0);
		if(!ok) fail("function", key, "abscissa_list_not_reproduced", "rows read back: " + std::to_string(b1.size()) + " for " + std::to_string(xs.size()) + " abscissae");
		unlink(p1.c_str());
	}
}

// file state is part of the system: every sequence of two exports to the same path, then an import: the last export wins
static void file_states(unsigned long long& unit)
{
	struct W { int rows, cols, pat, h; };
	std::vector<W> ws = {{1, 1, 0, 0}, {3, 2, 1, 1}, {7, 5, 2, 3}, {200, 2, 0, 0}, {2, 12, 3, 1}, {2, 2, 1, 0}};
	const char* hd[] = {"", "# h", "", "# a\n# b\n# c"};
	auto write = [&](const std::string& path, const W& w, VV& data) {
		data.assign(w.rows, V(w.cols));
		for(int i = 0; i < w.rows; i++)
			for(int j = 0; j < w.cols; j++) data[i][j] = pattern_value(w.pat, i + 1, j + 2);
		Export_Table(path, data, {}, hd[w.h]);
	};
	for(size_t a = 0; a < ws.size(); a++)
		for(size_t b = 0; b < ws.size(); b++)
			for(int third = -1; third < (int)ws.size(); third += (mc::thorough() ? 1 : 3))
			{
				if(!mc::mine(unit++)) continue;
				std::string path = g_dir + "/c20_state_" + std::to_string(getpid()) + ".txt";
				VV d1, d2, d3, back;
				std::string key = "exports=" + std::to_string(a) + "," + std::to_string(b) + (third >= 0 ? "," + std::to_string(third) : "");
				const W& last = third >= 0 ? ws[third] : ws[b];
				if(mc::library_exits([&]() { write(path, ws[a], d1); write(path, ws[b], d2); if(third >= 0) write(path, ws[third], d3); back = Import_Table(path, {}, last.h); })) { fail("file_state", key, "terminated_process", "ended the process"); continue; }
				g_states++;
				g_trans += third >= 0 ? 4 : 3;
				g_cases++;
				const VV& want = third >= 0 ? d3 : d2;
				bool ok = back.size() == want.size();
				for(size_t i = 0; ok && i < want.size(); i++)
				{
					ok = back[i].size() == want[i].size();
					for(size_t j = 0; ok && j < want[i].size(); j++) ok = six_digits(back[i][j], want[i][j], 1.0);
				}
				if(!ok) fail("file_state", key, "last_export_does_not_win", "the import after a sequence of exports to one path does not return the last exported table");
				unlink(path.c_str());
			}
}

// ---- the ends of "any finite values": file entries below DBL_MIN (subnormal as written, six digits still representable), and the
// same round trips while the program runs under a global C++ locale with a decimal comma / with digit grouping ----------------------
struct CommaPunct : std::numpunct<char> { char do_decimal_point() const override { return ','; } };
struct GroupedPunct : std::numpunct<char> { char do_decimal_point() const override { return ','; } char do_thousands_sep() const override { return '.'; } std::string do_grouping() const override { return "\3"; } };
static void round_trips(const std::string& tag)
{
	std::string base = g_dir + "/c20_env_" + std::to_string(getpid());
	struct T { const char* name; VV data; V dims; std::string header; int hl; };
	std::vector<T> ts = {
		{"plain_3x2", {{1.5, -2.25}, {1234.5678, 0.000314159}, {-7.0e20, 200000.0}}, {}, "", 0},
		{"units_4x3_header", {{1.5e-7, -2.25e12, 3.0}, {9.87654e-8, 6.02214e13, -4.0}, {1.0e-6, 1.0e11, 0.5}, {2.5e-7, -3.3333333e12, 123456.0}}, {1e-6, 1e12, 1.0}, "# a\tb\tc\n# second line", 2},
		{"subnormal_as_written", {{4.5e-310, -6.75e-312}, {1.25e-308, -2.5e-309}, {1.0, 3.25e-312}}, {}, "# x y", 1},
		{"subnormal_through_unit", {{3.25e-300, 1.0e12}, {-7.5e-299, 2.0e12}, {1.125e-298, -4.0e12}}, {1e12, 1e12}, "", 0},
	};
	for(auto& t : ts)
	{
		std::string key = tag + "," + t.name;
		VV back;
		if(mc::library_exits([&]() { Export_Table(base + "_t.txt", t.data, t.dims, t.header); back = Import_Table(base + "_t.txt", t.dims, t.hl); })) { fail("environment", key, "terminated_process", "a valid export/import ended the process"); continue; }
		g_cases++;
		g_trans += 2;
		bool ok = back.size() == t.data.size();
		for(size_t i = 0; ok && i < t.data.size(); i++)
		{
			ok = back[i].size() == t.data[i].size();
			for(size_t j = 0; ok && j < t.data[i].size(); j++) ok = six_digits(back[i][j], t.data[i][j], t.dims.empty() ? 1.0 : t.dims[j]);
		}
		if(!ok) fail("environment", key, "table_not_reproduced", "shape or a value differs after the round trip (" + std::to_string(back.size()) + " rows read)");
	}
	for(double dim : {1.0, 1e12})
	{
		V data{1.5, -2.25e-3, 3.25e-300, 6.02214e23, -4.5e-299, 200000.0}, back;
		std::string key = tag + ",list,unit=" + mc::dec(dim);
		if(mc::library_exits([&]() { Export_List(base + "_l.txt", data, dim, "# list"); back = Import_List(base + "_l.txt", dim, 1); })) { fail("environment", key, "terminated_process", "a valid export/import ended the process"); continue; }
		g_cases++;
		g_trans += 2;
		bool ok = back.size() == data.size();
		for(size_t i = 0; ok && i < data.size(); i++) ok = six_digits(back[i], data[i], dim);
		if(!ok) fail("environment", key, "list_not_reproduced", std::to_string(back.size()) + " values read back");
	}
	{
		auto f = [](double x) { return 1234.5 * x - 0.001 / (1 + x * x); };
		VV back;
		std::string key = tag + ",function";
		V xs = Linear_Space(0.5, 3.5, 7);
		if(mc::library_exits([&]() { Export_Function(base + "_f.txt", f, xs, V{1e-3, 1e3}, "# x f"); back = Import_Table(base + "_f.txt", V{1e-3, 1e3}, 1); })) { fail("environment", key, "terminated_process", "a valid export/import ended the process"); }
		else
		{
			g_cases++;
			g_trans += 2;
			bool ok = back.size() == xs.size();
			for(size_t i = 0; ok && i < xs.size(); i++) ok = back[i].size() == 2 && six_digits(back[i][0], xs[i], 1e-3) && six_digits(back[i][1], f(xs[i]), 1e3);
			if(!ok) fail("environment", key, "function_not_reproduced", "rows differ after the round trip");
		}
	}
	unlink((base + "_t.txt").c_str()); unlink((base + "_l.txt").c_str()); unlink((base + "_f.txt").c_str());
}
static void environments()
{
	round_trips("locale=classic");
	std::locale before = std::locale::global(std::locale(std::locale::classic(), new CommaPunct));
	round_trips("locale=decimal_comma");
	std::locale::global(std::locale(std::locale::classic(), new GroupedPunct));
	round_trips("locale=decimal_comma_grouped");
	std::locale::global(before);
	round_trips("locale=classic_again");
}

static void in_units()
{
	// dyadic data: exact quotient
	for(double dim : {1.0, 0.5, 1024.0, std::ldexp(1.0, -40), -8.0})
	{
		V v{3.0, -0.75, 0.0, 1024.0, std::ldexp(5.0, 60)};
		VV t{{1.0, -2.0}, {0.5, 8.0}, {0.0, 3.0}};
		g_cases++;
		std::string key = "dim=" + mc::dec(dim);
		bool ok = true;
		V r = In_Units(v, dim);
		for(size_t i = 0; i < v.size(); i++) if(!mc::same_bits(r[i], v[i] / dim) || !mc::same_bits(In_Units(v[i], dim), v[i] / dim)) ok = false;
		VV rt = In_Units(t, dim), rc = In_Units(t, V{dim, 2 * dim});
		for(size_t i = 0; i < t.size(); i++)
			for(size_t j = 0; j < 2; j++) if(!mc::same_bits(rt[i][j], t[i][j] / dim) || !mc::same_bits(rc[i][j], t[i][j] / (j ? 2 * dim : dim))) ok = false;
		Vector vv(v), rv = In_Units(vv, dim);
		for(size_t i = 0; i < v.size(); i++) if(!mc::same_bits(rv[i], v[i] / dim)) ok = false;
		Matrix M(t), rm = In_Units(M, dim);
		for(size_t i = 0; i < t.size(); i++)
			for(size_t j = 0; j < 2; j++) if(!mc::same_bits(rm[i][j], t[i][j] / dim)) ok = false;
		if(!ok) fail("in_units", key, "quotient_wrong", "In_Units does not divide by the unit");
		// the rounding variants of every overload: entry-wise Round(q/d, digits), for every digits 1..7 (Round admits at most 7)
		// data set 0 spans many decades; data sets 1 and 2 hold neighbours of similar size on the two sides of a power of ten
		// (every entry is rounded to its own significant digits, whatever its neighbours are)
		for(int ds = 0; ds < 3; ds++)
		{
			V w{1.2345678, -98765.4321, 0.000314159265, 7.0e20, 0.0};
			VV tw{{1.2345678, -98765.4321}, {0.000314159265, 7.0e20}, {5.55555555, -0.0044444444}};
			if(ds == 1) { w = V{12.3456, 8.76543, 9.87654, 10.4321, -95.4321}; tw = VV{{12.3456, 8.76543}, {0.987654, 1.04321}, {-95.4321, 104.567}}; }
			if(ds == 2) { w = V{0.987654, 1.04321}; tw = VV{{104.567, -95.4321}, {8.76543, 12.3456}, {1.04321, 0.987654}}; }
			double d2 = 3.0 * dim;
			for(int dg = 1; dg <= 7; dg++)
			{
				g_cases++;
				std::string k2 = key + ",data=" + std::to_string(ds) + ",digits=" + std::to_string(dg);
				// independent of the library's Round: the result is within half a unit of the digits-th significant place of q/d
				{
					V rr0 = In_Units(w, dim, true, dg);
					for(size_t i = 0; i < w.size() && i < rr0.size(); i++)
					{
						long double q = (long double)w[i] / dim;
						if(q == 0) continue;
						long double half = 0.5L * powl(10.0L, floorl(log10l(fabsl(q))) - dg + 1);
						if(!(fabsl((long double)rr0[i] - q) <= half * (1 + 1e-9L))) fail("in_units", k2 + ",overload=list,i=" + std::to_string(i), "not_rounded_to_requested_digits", "In_Units(list,dim,true,digits)[i] = " + mc::dec(rr0[i]) + " for q/d = " + mc::dec((double)q));
					}
					VV r10 = In_Units(tw, dim, true, dg);
					for(size_t i = 0; i < tw.size() && i < r10.size(); i++)
						for(size_t j = 0; j < 2 && j < r10[i].size(); j++)
						{
							long double q = (long double)tw[i][j] / dim;
							long double half = 0.5L * powl(10.0L, floorl(log10l(fabsl(q))) - dg + 1);
							if(!(fabsl((long double)r10[i][j] - q) <= half * (1 + 1e-9L))) fail("in_units", k2 + ",overload=table,i=" + std::to_string(i) + ",j=" + std::to_string(j), "not_rounded_to_requested_digits", "In_Units(table,dim,true,digits)[i][j] = " + mc::dec(r10[i][j]) + " for q/d = " + mc::dec((double)q));
						}
				}
				V rr = In_Units(w, dim, true, dg);
				bool o1 = rr.size() == w.size();
				for(size_t i = 0; o1 && i < w.size(); i++) o1 = mc::same_bits(rr[i], Round(w[i] / dim, dg)) && mc::same_bits(In_Units(w[i], dim, true, dg), Round(w[i] / dim, dg));
				if(!o1) fail("in_units", k2 + ",overload=list", "rounded_variant_not_Round", "In_Units(list,dim,true,digits) is not Round(q/d,digits) entry by entry");
				VV r1 = In_Units(tw, dim, true, dg), r2 = In_Units(tw, V{dim, d2}, true, dg);
				bool o2 = r1.size() == tw.size(), o3 = r2.size() == tw.size();
				for(size_t i = 0; i < tw.size(); i++)
					for(size_t j = 0; j < 2; j++)
					{
						if(o2 && !(r1[i].size() == 2 && mc::same_bits(r1[i][j], Round(tw[i][j] / dim, dg)))) o2 = false;
						if(o3 && !(r2[i].size() == 2 && mc::same_bits(r2[i][j], Round(tw[i][j] / (j ? d2 : dim), dg)))) o3 = false;
					}
				if(!o2) fail("in_units", k2 + ",overload=table", "rounded_variant_not_Round", "In_Units(table,dim,true,digits) is not Round(q/d,digits) entry by entry");
				if(!o3) fail("in_units", k2 + ",overload=table_per_column", "rounded_variant_not_Round", "In_Units(table,{dims},true,digits) is not Round(q/d_j,digits) entry by entry");
				Vector wv(w), rwv = In_Units(wv, dim, true, dg);
				bool o4 = rwv.Size() == w.size();
				for(size_t i = 0; o4 && i < w.size(); i++) o4 = mc::same_bits(rwv[i], Round(w[i] / dim, dg));
				if(!o4) fail("in_units", k2 + ",overload=Vector", "rounded_variant_not_Round", "In_Units(Vector,dim,true,digits) is not Round(q/d,digits) entry by entry");
				Matrix wm(tw), rwm = In_Units(wm, dim, true, dg);
				bool o5 = rwm.Rows() == 3 && rwm.Columns() == 2;
				for(size_t i = 0; o5 && i < 3; i++)
					for(size_t j = 0; j < 2; j++) if(!mc::same_bits(rwm[i][j], Round(tw[i][j] / dim, dg))) o5 = false;
				if(!o5) fail("in_units", k2 + ",overload=Matrix", "rounded_variant_not_Round", "In_Units(Matrix,dim,true,digits) is not Round(q/d,digits) entry by entry");
			}
		}
		// per-column units on three and four columns (equal at the two ends, different in between), and matrices of every small shape
		{
			VV t3{{3.0, -0.75, 1024.0}, {0.5, 8.0, -2.0}}, t4{{1.0, 2.0, -4.0, 0.5}, {8.0, -0.25, 3.0, 16.0}, {0.0, 1.0, 2.0, -3.0}};
			V u3{dim, 4 * dim, dim}, u4{dim, 2 * dim, 8 * dim, dim};
			VV r3 = In_Units(t3, u3), r4 = In_Units(t4, u4);
			bool okc = r3.size() == t3.size() && r4.size() == t4.size();
			for(size_t i = 0; okc && i < t3.size(); i++) for(size_t j = 0; j < 3; j++) if(!(r3[i].size() == 3 && mc::same_bits(r3[i][j], t3[i][j] / u3[j]))) okc = false;
			for(size_t i = 0; okc && i < t4.size(); i++) for(size_t j = 0; j < 4; j++) if(!(r4[i].size() == 4 && mc::same_bits(r4[i][j], t4[i][j] / u4[j]))) okc = false;
			g_cases++;
			if(!okc) fail("in_units", key + ",per_column_units_3_and_4_columns", "quotient_wrong", "In_Units(table,{units}) does not divide every column by its own unit");
			for(unsigned rows = 1; rows <= 4; rows++)
				for(unsigned cols = 1; cols <= 4; cols++)
				{
					VV m(rows, V(cols));
					for(unsigned i = 0; i < rows; i++) for(unsigned j = 0; j < cols; j++) m[i][j] = std::ldexp(1.0 + 2 * i + j, (int)(i + 2 * j) - 3) * (((i + j) % 3) ? 1 : -1);
					Matrix M(m), R = In_Units(M, dim), RR = In_Units(M, dim, true, 3);
					bool okm = R.Rows() == rows && R.Columns() == cols && RR.Rows() == rows && RR.Columns() == cols;
					for(unsigned i = 0; okm && i < rows; i++) for(unsigned j = 0; j < cols; j++) if(!mc::same_bits(R[i][j], m[i][j] / dim) || !mc::same_bits(RR[i][j], Round(m[i][j] / dim, 3))) okm = false;
					g_cases++;
					if(!okm) fail("in_units", key + ",matrix=" + std::to_string(rows) + "x" + std::to_string(cols), "quotient_wrong", "In_Units(Matrix) does not divide (and round) every entry");
				}
		}
		// multiplication by a unit is undone (to rounding) and rounding to digits is Round(q/d, digits)
		for(double x : {1.2345678, -9.87654321e-5, 4.0e17})
			for(double u : {GeV, cm, sec, kg, Kelvin})
			{
				double q = In_Units(x * u, u);
				if(!(std::fabs(q - x) <= 2 * mc::U_ * std::fabs(x))) fail("in_units", "x=" + mc::dec(x) + ",unit=" + mc::dec(u), "multiplication_not_undone", "In_Units(x*u,u) = " + mc::dec(q));
				for(int dg : {1, 3, 4, 7})
					if(!mc::same_bits(In_Units(x * u, u, true, dg), Round(x * u / u, dg))) fail("in_units", "x=" + mc::dec(x) + ",unit=" + mc::dec(u) + ",digits=" + std::to_string(dg), "rounded_variant_not_Round", "In_Units(...,true,digits) is not Round(q/d,digits)");
				g_cases++;
			}
	}
}

// ---- the unit constants in four build configurations -----------------------------------------------------------------------
static std::vector<std::string> constant_names(const std::string& header)
{
	std::ifstream in(header);
	std::string all((std::istreambuf_iterator<char>(in)), std::istreambuf_iterator<char>()), names_part;
	std::vector<std::string> names;
	std::regex decl("extern\\s+const\\s+double\\s+([^;]+);");
	for(auto it = std::sregex_iterator(all.begin(), all.end(), decl); it != std::sregex_iterator(); ++it)
	{
		std::stringstream ss((*it)[1].str());
		std::string n;
		while(std::getline(ss, n, ','))
		{
			n.erase(std::remove_if(n.begin(), n.end(), ::isspace), n.end());
			if(!n.empty()) names.push_back(n);
		}
	}
	return names;
}

static void configurations()
{
	const char* repo = getenv("VERIF_REPO_DIR");
	const char* libd = getenv("VERIF_LIBDIR");
	if(!repo || !libd) { mc::note("configuration part skipped: VERIF_REPO_DIR / VERIF_LIBDIR not set"); mc::cap("unit-constant configurations not run"); return; }
	std::vector<std::string> names = constant_names(std::string(repo) + "/include/libphysica/Natural_Units.hpp");
	if(names.size() < 100) { fail("units", "header", "constants_not_found", "only " + std::to_string(names.size()) + " constants declared"); return; }
	mc::alphabet("unit_constants", names.size());
	std::string probe = g_dir + "/c20_probe.cpp";
	{
		std::ofstream o(probe);
		o << "#include <cstdio>\n#include \"libphysica/Natural_Units.hpp\"\nusing namespace libphysica::natural_units;\nint main(){\n";
		for(auto& n : names) o << "printf(\"" << n << " %a\\n\", " << n << ");\n";
		o << "return 0;}\n";
	}
	struct Cfg { std::string cxx, opt; };
	std::vector<Cfg> cfgs = {{"g++", "-O0"}, {"g++", "-O2"}, {"clang++", "-O0"}, {"clang++", "-O2"}};
	mc::alphabet("build_configurations", cfgs.size());
	std::vector<std::map<std::string, double>> vals(cfgs.size());
	for(size_t c = 0; c < cfgs.size(); c++)
	{
		std::string tag = cfgs[c].cxx + cfgs[c].opt, obj = g_dir + "/nu_" + std::to_string(c) + ".o", exe = g_dir + "/probe_" + std::to_string(c), out = g_dir + "/probe_" + std::to_string(c) + ".txt";
		std::string cmd = cfgs[c].cxx + " -std=c++14 -w " + cfgs[c].opt + " -I" + repo + "/include -I" + libd + " -c " + repo + "/src/Natural_Units.cpp -o " + obj + " 2>" + g_dir + "/cc.log && " + cfgs[c].cxx + " -std=c++14 -w " + cfgs[c].opt + " -I" + repo + "/include " + probe + " " + obj + " " + libd + "/libphysica.a -lconfig++ -o " + exe + " 2>>" + g_dir + "/cc.log && " + exe + " > " + out;
		int rc = system(cmd.c_str());
		g_cases++;
		g_states++;
		if(rc != 0) { fail("units", tag, "configuration_does_not_build_or_run", "compiling Natural_Units.cpp / running the probe failed in this configuration"); continue; }
		std::ifstream in(out);
		std::string n, v;
		while(in >> n >> v) vals[c][n] = strtod(v.c_str(), nullptr);
		// how many constants this build initialises dynamically (for the record)
		std::string nm = "nm -C " + obj + " | grep -c '_GLOBAL__sub_I\\|__cxx_global_var_init' > " + g_dir + "/nm.txt";
		if(system(nm.c_str()) >= 0) { std::ifstream f(g_dir + "/nm.txt"); int k = 0; f >> k; mc::note(tag + ": " + std::to_string(k) + " dynamic-initialisation symbol(s) in Natural_Units.o"); }
		for(auto& name : names)
		{
			g_trans++;
			if(!vals[c].count(name)) { fail("units", tag + "," + name, "constant_missing", "not printed"); continue; }
			double x = vals[c][name];
			if(!(std::isfinite(x) && x != 0)) fail("units", tag + "," + name, "constant_zero_or_not_finite", name + " = " + mc::dec(x) + " after start-up in this build");
		}
	}
	// defining relations, in every configuration
	struct Rel { const char* lhs; std::function<ld(std::map<std::string, double>&)> rhs; };
#define U(n) (ld) m[#n]
	std::vector<Rel> rels = {
		{"Joule", [](std::map<std::string, double>& m) { return U(kg) * U(meter) * U(meter) / U(sec) / U(sec); }},
		{"erg", [](std::map<std::string, double>& m) { return U(gram) * U(cm) * U(cm) / U(sec) / U(sec); }},
		{"Newton", [](std::map<std::string, double>& m) { return U(kg) * U(meter) / U(sec) / U(sec); }},
		{"dyne", [](std::map<std::string, double>& m) { return 1e-5L * U(Newton); }},
		{"Watt", [](std::map<std::string, double>& m) { return U(Joule) / U(sec); }},
		{"Pa", [](std::map<std::string, double>& m) { return U(Newton) / U(meter) / U(meter); }},
		{"barye", [](std::map<std::string, double>& m) { return U(dyne) / U(cm) / U(cm); }},
		{"bar", [](std::map<std::string, double>& m) { return 1e5L * U(Pa); }},
		{"Joule", [](std::map<std::string, double>& m) { return U(Volt) * U(Coulomb); }},
		{"Ohm", [](std::map<std::string, double>& m) { return U(Volt) / U(Ampere); }},
		{"Ampere", [](std::map<std::string, double>& m) { return U(Coulomb) / U(sec); }},
		{"Farad", [](std::map<std::string, double>& m) { return U(Coulomb) / U(Volt); }},
		{"Tesla", [](std::map<std::string, double>& m) { return U(Newton) * U(sec) / (U(Coulomb) * U(meter)); }},
		{"Gauss", [](std::map<std::string, double>& m) { return 1e-4L * U(Tesla); }},
		{"Weber", [](std::map<std::string, double>& m) { return U(Tesla) * U(meter) * U(meter); }},
		{"Siemens", [](std::map<std::string, double>& m) { return 1 / U(Ohm); }},
		{"Hz", [](std::map<std::string, double>& m) { return 1 / U(sec); }},
		{"kg", [](std::map<std::string, double>& m) { return 1e3L * U(gram); }},
		{"tonne", [](std::map<std::string, double>& m) { return 1e3L * U(kg); }},
		{"meter", [](std::map<std::string, double>& m) { return 1e2L * U(cm); }},
		{"km", [](std::map<std::string, double>& m) { return 1e3L * U(meter); }},
		{"mm", [](std::map<std::string, double>& m) { return 1e-1L * U(cm); }},
		{"sec", [](std::map<std::string, double>& m) { return 299792458.0L * U(meter); }},
		{"ms", [](std::map<std::string, double>& m) { return 1e-3L * U(sec); }},
		{"ns", [](std::map<std::string, double>& m) { return 1e-9L * U(sec); }},
		{"minute", [](std::map<std::string, double>& m) { return 60 * U(sec); }},
		{"hr", [](std::map<std::string, double>& m) { return 3600 * U(sec); }},
		{"day", [](std::map<std::string, double>& m) { return 86400 * U(sec); }},
		{"week", [](std::map<std::string, double>& m) { return 7 * 86400 * U(sec); }},
		{"year", [](std::map<std::string, double>& m) { return 365.25L * 86400 * U(sec); }},
		{"cal", [](std::map<std::string, double>& m) { return 4.184L * U(Joule); }},
		{"eV", [](std::map<std::string, double>& m) { return 1e-9L * U(GeV); }},
		{"MeV", [](std::map<std::string, double>& m) { return 1e-3L * U(GeV); }},
		{"barn", [](std::map<std::string, double>& m) { return 1e-24L * U(cm) * U(cm); }},
		{"hPa", [](std::map<std::string, double>& m) { return 1e2L * U(Pa); }},
		{"meV", [](std::map<std::string, double>& m) { return 1e-12L * U(GeV); }},
		{"keV", [](std::map<std::string, double>& m) { return 1e-6L * U(GeV); }},
		{"TeV", [](std::map<std::string, double>& m) { return 1e3L * U(GeV); }},
		{"PeV", [](std::map<std::string, double>& m) { return 1e6L * U(GeV); }},
		{"fm", [](std::map<std::string, double>& m) { return 1e-15L * U(meter); }},
		{"Angstrom", [](std::map<std::string, double>& m) { return 1e-10L * U(meter); }},
		{"inch", [](std::map<std::string, double>& m) { return 2.54L * U(cm); }},
		{"foot", [](std::map<std::string, double>& m) { return 12 * 2.54L * U(cm); }},
		{"yard", [](std::map<std::string, double>& m) { return 36 * 2.54L * U(cm); }},
		{"mile", [](std::map<std::string, double>& m) { return 1760 * 36 * 2.54L * U(cm); }},
		{"pb", [](std::map<std::string, double>& m) { return 1e-12L * U(barn); }},
		{"hectare", [](std::map<std::string, double>& m) { return 1e4L * U(meter) * U(meter); }},
		{"kPa", [](std::map<std::string, double>& m) { return 1e3L * U(Pa); }},
		{"Volt", [](std::map<std::string, double>& m) { return U(Joule) / U(Coulomb); }},
		{"Volt", [](std::map<std::string, double>& m) { return U(Watt) / U(Ampere); }},
		{"Coulomb", [](std::map<std::string, double>& m) { return U(Elementary_Charge) / 1.602176565e-19L; }},
		{"arcmin", [](std::map<std::string, double>& m) { return U(deg) / 60; }},
		{"arcsec", [](std::map<std::string, double>& m) { return U(deg) / 3600; }},
		{"deg", [](std::map<std::string, double>& m) { return 3.14159265358979323846264338327950288L / 180; }},
		{"kpc", [](std::map<std::string, double>& m) { return 1e3L * U(pc); }},
		{"Mpc", [](std::map<std::string, double>& m) { return 1e6L * U(pc); }},
		{"ly", [](std::map<std::string, double>& m) { return U(year); }},	// c = 1: the distance light travels in a Julian year
		{"ly", [](std::map<std::string, double>& m) { return 9460730472580800.0L * U(meter); }},
		{"mPlanck_reduced", [](std::map<std::string, double>& m) { return U(mPlanck) / sqrtl(8 * 3.14159265358979323846264338327950288L); }},
		{"kilo", [](std::map<std::string, double>& m) { return 1e3L; }},
		{"milli", [](std::map<std::string, double>& m) { return 1e-3L; }},
		{"mega", [](std::map<std::string, double>& m) { return 1e6L; }},
		{"micro", [](std::map<std::string, double>& m) { return 1e-6L; }},
		{"giga", [](std::map<std::string, double>& m) { return 1e9L; }},
		{"nano", [](std::map<std::string, double>& m) { return 1e-9L; }},
		{"tera", [](std::map<std::string, double>& m) { return 1e12L; }},
		{"pico", [](std::map<std::string, double>& m) { return 1e-12L; }},
		{"peta", [](std::map<std::string, double>& m) { return 1e15L; }},
		{"femto", [](std::map<std::string, double>& m) { return 1e-15L; }},
		{"exa", [](std::map<std::string, double>& m) { return 1e18L; }},
		{"atto", [](std::map<std::string, double>& m) { return 1e-18L; }},
		{"zetta", [](std::map<std::string, double>& m) { return 1e21L; }},
		{"zepto", [](std::map<std::string, double>& m) { return 1e-21L; }},
		{"yotta", [](std::map<std::string, double>& m) { return 1e24L; }},
		{"yocto", [](std::map<std::string, double>& m) { return 1e-24L; }},
		{"hecto", [](std::map<std::string, double>& m) { return 1e2L; }},
		{"centi", [](std::map<std::string, double>& m) { return 1e-2L; }},
		{"deca", [](std::map<std::string, double>& m) { return 1e1L; }},
		{"deci", [](std::map<std::string, double>& m) { return 1e-1L; }},
		{"AU", [](std::map<std::string, double>& m) { return 149597870700.0L * U(meter); }},
		{"G_Newton", [](std::map<std::string, double>& m) { return 1 / U(mPlanck) / U(mPlanck); }},
	};
	for(size_t c = 0; c < cfgs.size(); c++)
	{
		if(vals[c].empty()) continue;
		std::string tag = cfgs[c].cxx + cfgs[c].opt;
		for(auto& r : rels)
		{
			g_cases++;
			g_trans++;
			ld want = r.rhs(vals[c]);
			double got = vals[c][r.lhs];
			if(!(fabsl(got - want) <= 8 * (ld)mc::U_ * fabsl(want))) fail("units", tag + "," + r.lhs, "derived_unit_not_its_defining_product", std::string(r.lhs) + " = " + mc::dec(got) + " but its defining product of base constants is " + mc::dec((double)want) + " in this build");
		}
		// the four builds agree
		for(auto& n : names)
			if(vals[0].count(n) && vals[c].count(n) && !(std::fabs(vals[c][n] - vals[0][n]) <= 2 * mc::U_ * std::fabs(vals[0][n]))) fail("units", tag + "," + n, "builds_disagree", n + " = " + mc::dec(vals[c][n]) + " here but " + mc::dec(vals[0][n]) + " with g++ -O0");
	}
	mc::sample("Natural_Units.cpp built with g++/clang++ at -O0/-O2; a probe prints " + std::to_string(names.size()) + " constants as hex floats after start-up; " + std::to_string(rels.size()) + " defining relations (Joule=kg m^2/s^2, Volt*Coulomb=Joule, Ohm=Volt/Ampere, ...) within 8u in every build, all builds agree within 2u");
}

int main(int argc, char** argv)
{
	mc::init(argc, argv);
	if(mc::ctx().replay) { printf("%s\n(no single-case replay for this part; use ./vcheck --replay <file>, which re-runs the enumeration for this key)\n", mc::ctx().replay_case.c_str()); return 0; }
	g_dir = mc::ctx().tmp;
	mc::bound("rule", "round trip: shapes {1,2,3,7,200}x{1,2,5,12} x 4 value patterns (integers, six-digit decimals over 600 decades, long fractions, dyadics) x headers {0,1,3 lines} x 3 unit arrangements over 60 decades, lists, both Export_Function overloads; file states: every sequence of two (thorough: three) exports to one path followed by an import; In_Units overloads on dyadic data; unit constants in the four configurations g++/clang++ x -O0/-O2 read after start-up; state = file contents / build configuration, transition = one export, import or constant read");
	unsigned long long unit = 0;
	if(mc::shard0()) { in_units(); configurations(); environments(); }
	tables(unit);
	lists_and_functions(unit);
	function_orders(unit);
	file_states(unit);
	mc::count("evaluations", g_cases);
	mc::count("distinct_nontrivial", g_cases);
	mc::count("states", g_states + 1);
	mc::count("transitions", g_trans);
	return mc::finish();
}
