// C05 — Inverse and Determinant are correct for every square matrix.
// M3: complete products of small integer matrices and structured families, exact (Bareiss) and binary128 references.
#include "mc/mc.hpp"
#include "mc/exit_trap.hpp"
#include "harness/linalg_ref.hpp"
#include "libphysica/Linear_Algebra.hpp"
using namespace libphysica;
using ref::Rows;
typedef __float128 q;

static std::string mstr(const Rows& a)
{
	std::string s;
	for(auto& r : a) s += "[" + mc::decv(r) + "]";
	return s;
}
static std::string mhex(const Rows& a)
{
	std::string s;
	for(auto& r : a) s += mc::hexv(r) + ";";
	return s;
}
static void silence()
{
	int fd = open("/dev/null", O_WRONLY);
	dup2(fd, 1);
	dup2(fd, 2);
}
static long long g_cases = 0, g_nontrivial = 0, g_singular = 0, g_inverted = 0;

static void fail(const std::string& fam, const Rows& a, const std::string& cls, const std::string& text) { mc::violation(fam, fam + "|" + mstr(a) + "|" + cls, text, "family=" + fam + " M=" + mhex(a)); }

static void check_matrix(const Rows& a, const std::string& fam, double kappa_limit = 1e8)
{
	int n = a.size();
	g_cases++;
	Matrix M(a);
	bool integer = ref::is_integer_matrix(a);
	ref::QRows inv;
	q qdet;
	bool nonsingular = ref::inverse(a, inv, qdet);
	__int128 E		 = 0;
	if(integer)
	{
		E			= ref::bareiss(a);
		nonsingular = E != 0;
	}
	// Determinant
	double det = 0;
	if(mc::library_exits([&]() { det = M.Determinant(); })) { fail(fam, a, "determinant_terminated_process", "Determinant() of a square matrix ended the process"); return; }
	if(integer)
	{
		if(!(det == (double)E)) fail(fam, a, "determinant_wrong", "Determinant=" + mc::dec(det) + " exact " + mc::dec((double)E));
	}
	else
	{
		double tol = 8 * n * mc::U_ * (double)ref::permanent_abs(a) + mc::ETA;
		if(!(std::fabs((double)((q)det - qdet)) <= tol)) fail(fam, a, "determinant_wrong", "Determinant=" + mc::dec(det) + " reference " + mc::dec((double)qdet) + " tol " + mc::dec(tol));
	}
	// transpose invariance and sign change under a row swap
	{
		double dt = Matrix(a).Transpose().Determinant();
		double tol = integer ? 0.0 : 16 * n * mc::U_ * (double)ref::permanent_abs(a);
		if(!(std::fabs(dt - det) <= tol)) fail(fam, a, "determinant_not_transpose_invariant", "det(M)=" + mc::dec(det) + " det(M^T)=" + mc::dec(dt));
		if(n >= 2)
		{
			Rows b = a;
			std::swap(b[0], b[n - 1]);
			double ds = Matrix(b).Determinant();
			if(!(std::fabs(ds + det) <= tol)) fail(fam, a, "determinant_row_swap_sign", "det(M)=" + mc::dec(det) + " after swapping rows 0 and n-1: " + mc::dec(ds));
		}
	}
	bool invertible = M.Invertible();
	q kappa			= 0;
	if(nonsingular) kappa = ref::norm_inf(a) * ref::norm_inf(inv);
	if(integer || (nonsingular && kappa <= kappa_limit))
		if(invertible != nonsingular) fail(fam, a, "invertible_wrong", std::string("Invertible()=") + (invertible ? "true" : "false") + " but the determinant is " + (nonsingular ? "non-zero" : "zero"));
	if(!nonsingular)
	{
		g_singular++;
		if(!integer) return;   // numerically singular non-integer matrix: nothing decided
		Matrix X;
		if(!mc::library_exits([&]() { X = M.Inverse(); })) fail(fam, a, "singular_matrix_inverted", "Inverse() of a singular matrix returned numbers");
		return;
	}
	if(kappa > kappa_limit) { mc::count("skipped_condition_above_limit", 1); return; }
	g_nontrivial++;
	Matrix X;
	if(mc::library_exits([&]() { X = M.Inverse(); })) { fail(fam, a, "inverse_terminated_process", "Inverse() of an invertible matrix (condition " + mc::dec((double)kappa) + ") ended the process"); return; }
	g_inverted++;
	if(X.Rows() != (unsigned)n || X.Columns() != (unsigned)n) { fail(fam, a, "inverse_shape", "wrong shape"); return; }
	double xmax = (double)ref::norm_max(inv), err = 0;
	for(int i = 0; i < n; i++)
		for(int j = 0; j < n; j++) err = std::max(err, (double)ref::qabs((q)X[i][j] - inv[i][j]));
	double tol = 16 * n * (double)kappa * mc::U_ * xmax;
	if(!(err <= tol)) fail(fam, a, "inverse_inaccurate", "max |X - exact inverse| = " + mc::dec(err) + " > 16 n kappa u |X| = " + mc::dec(tol) + " (kappa=" + mc::dec((double)kappa) + ")");
	else mc::maxi("inverse_err_over_tol", err / tol, mstr(a));
	// X*M and M*X
	double e1 = 0, e2 = 0;
	for(int i = 0; i < n; i++)
		for(int j = 0; j < n; j++)
		{
			q s1 = 0, s2 = 0;
			for(int k = 0; k < n; k++) { s1 += (q)X[i][k] * a[k][j]; s2 += (q)a[i][k] * X[k][j]; }
			e1 = std::max(e1, (double)ref::qabs(s1 - (i == j)));
			e2 = std::max(e2, (double)ref::qabs(s2 - (i == j)));
		}
	double t1 = 16 * n * (double)kappa * mc::U_ * n, t2 = t1 * (double)kappa;
	if(!(e1 <= t1)) fail(fam, a, "X_times_M_not_identity", "max |X*M - I| = " + mc::dec(e1) + " tol " + mc::dec(t1));
	if(!(e2 <= t2)) fail(fam, a, "M_times_X_not_identity", "max |M*X - I| = " + mc::dec(e2) + " tol " + mc::dec(t2));
	// the returned object is a matrix like any other: the same answers as a fresh matrix with the same entries
	// (determinant, invertibility, its own inverse, products in both spellings, transpose)
	if(n <= 5 && kappa <= 1e4)
	{
		Rows xr(n, std::vector<double>(n));
		for(int i = 0; i < n; i++)
			for(int j = 0; j < n; j++) xr[i][j] = ((const Matrix&)X)[i][j];
		Matrix F(xr);
		auto obs = [&](Matrix& Z) {
			std::string o;
			double d = 0;
			Matrix I2, P1, T;
			bool inv2 = false;
			if(mc::library_exits([&]() { d = Z.Determinant(); })) o += "det:exit;"; else o += "det:" + mc::hexd(d) + ";";
			if(mc::library_exits([&]() { inv2 = Z.Invertible(); })) o += "invertible:exit;"; else o += std::string("invertible:") + (inv2 ? "1;" : "0;");
			if(mc::library_exits([&]() { I2 = Z.Inverse(); P1 = Z * M; T = Z.Transpose(); })) o += "inverse/product/transpose:exit;";
			else
				for(const Matrix* Y : {&I2, &P1, &T})
				{
					o += std::to_string(Y->Rows()) + "x" + std::to_string(Y->Columns()) + ":";
					for(unsigned i = 0; i < Y->Rows(); i++)
						for(unsigned j = 0; j < Y->Columns(); j++) o += mc::hexd((*Y)[i][j]) + ",";
				}
			return o;
		};
		std::string ox = obs(X), of = obs(F);
		if(ox != of) fail(fam, a, "returned_inverse_differs_from_fresh_matrix_with_same_entries", "X = M.Inverse() answers " + ox.substr(0, 100) + " but a fresh matrix with the entries of X answers " + of.substr(0, 100));
	}
}

static void all_over(int n, const std::vector<double>& al, unsigned long long& unit, const std::string& fam)
{
	std::vector<int> radix(n * n, (int)al.size());
	mc::Product p(radix);
	unsigned long long idx = 0;
	do
	{
		if(!mc::mine(unit + (idx++ >> 6))) continue;
		Rows a(n, std::vector<double>(n));
		for(int i = 0; i < n * n; i++) a[i / n][i % n] = al[p.idx[i]];
		check_matrix(a, fam);
		if((idx & 0xfff) == 0 && mc::out_of_time("C05 products")) return;
	} while(p.next());
	unit += (idx >> 6) + 1;
}

static void signed_permutations(int n, unsigned long long& unit)
{
	std::vector<int> p(n);
	for(int i = 0; i < n; i++) p[i] = i;
	do
	{
		if(!mc::mine(unit++)) continue;
		for(int signs = 0; signs < (1 << n); signs++)
		{
			Rows a(n, std::vector<double>(n, 0.0));
			for(int i = 0; i < n; i++) a[i][p[i]] = (signs >> i) & 1 ? -1.0 : 1.0;
			check_matrix(a, "signed_permutation");
		}
		if(mc::out_of_time("C05 signed permutations")) return;
	} while(std::next_permutation(p.begin(), p.end()));
}

static Rows matmul(const Rows& a, const Rows& b)
{
	int n = a.size();
	Rows c(n, std::vector<double>(n, 0.0));
	for(int i = 0; i < n; i++)
		for(int j = 0; j < n; j++)
		{
			long double s = 0;
			for(int k = 0; k < n; k++) s += (long double)a[i][k] * b[k][j];
			c[i][j] = (double)s;
		}
	return c;
}

static void plu_families(unsigned long long& unit)
{
	// n=4: M = P*L*U, L unit lower over {0,+-1} (all 3^6), U from three upper patterns, all 24 permutations:
	// zero leading principal minors in every position
	const double al[] = {0, 1, -1};
	const int n		  = 4;
	std::vector<Rows> Us;
	for(int v = 0; v < 3; v++)
	{
		Rows U(n, std::vector<double>(n, 0.0));
		for(int i = 0; i < n; i++)
			for(int j = i; j < n; j++) U[i][j] = i == j ? (v == 2 && i == 1 ? 2.0 : (i % 2 && v ? -1.0 : 1.0)) : al[(i * 3 + j * 2 + v) % 3];
		Us.push_back(U);
	}
	for(int l = 0; l < 729; l++)
	{
		if(!mc::mine(unit++)) continue;
		Rows L(n, std::vector<double>(n, 0.0));
		int t = l;
		for(int i = 0; i < n; i++)
		{
			L[i][i] = 1;
			for(int j = 0; j < i; j++) { L[i][j] = al[t % 3]; t /= 3; }
		}
		for(auto& U : Us)
		{
			Rows LU = matmul(L, U);
			std::vector<int> p{0, 1, 2, 3};
			do
			{
				Rows a(n);
				for(int i = 0; i < n; i++) a[i] = LU[p[i]];
				check_matrix(a, "PLU");
			} while(std::next_permutation(p.begin(), p.end()));
		}
	}
}

static void tiny_pivots(unsigned long long& unit)
{
	// well-conditioned dense matrices with one diagonal entry replaced by 2^-s: tiny leading principal minors
	const double off[] = {1, -1, 2, 1, -2, 1, 1};
	for(int n = 2; n <= 6; n++)
		for(int variant = 0; variant < 4; variant++)
			for(int pos = 0; pos < n; pos++)
				for(int s : {10, 14, 18, 22, 27, 40, 50, 0})
				{
					if(!mc::mine(unit++)) continue;
					Rows a(n, std::vector<double>(n));
					for(int i = 0; i < n; i++)
						for(int j = 0; j < n; j++) a[i][j] = i == j ? 3.0 + (i + variant) % 2 : off[(i * 2 + j * 3 + variant) % 7] * ((i + j + variant) % 3 == 0 ? 0.0 : 1.0);
					a[pos][pos] = s ? std::ldexp(1.0, -s) : 0.0;
					check_matrix(a, "tiny_pivot");
				}
}

static void structured(unsigned long long& unit)
{
	const double v[] = {1, -2, 3, 0.5, -1, 2, 4, -3, 1.5};
	for(int n = 1; n <= 7; n++)
		for(int pat = 0; pat < 6; pat++)
		{
			if(!mc::mine(unit++)) continue;
			Rows up(n, std::vector<double>(n, 0.0)), lo = up, di = up, sy = up, dense = up;
			for(int i = 0; i < n; i++)
				for(int j = 0; j < n; j++)
				{
					double x = v[(i * 4 + j * 7 + pat) % 9];
					dense[i][j] = (i == j ? 5.0 : 0.0) + (double)(int)(2 * x);
					if(j >= i) up[i][j] = x;
					if(j <= i) lo[i][j] = x;
					if(i == j) di[i][j] = x;
					sy[i][j] = sy[j][i] = (i == j ? 4.0 : 0.0) + (double)(int)(2 * v[(std::min(i, j) * 4 + std::max(i, j) * 7 + pat) % 9]);
				}
			check_matrix(up, "upper_triangular");
			check_matrix(lo, "lower_triangular");
			check_matrix(di, "diagonal");
			check_matrix(sy, "symmetric");
			check_matrix(dense, "dense_integer");
			// triangular: determinant is the product of the diagonal
			long double pd = 1;
			for(int i = 0; i < n; i++) pd *= up[i][i];
			double d = Matrix(up).Determinant();
			if(!(std::fabs(d - (double)pd) <= 8 * n * mc::U_ * std::fabs((double)pd))) fail("upper_triangular", up, "triangular_det_not_product_of_diagonal", "det=" + mc::dec(d) + " product " + mc::dec((double)pd));
			// rank-deficient: duplicate a row (rank n-1), zero a row, duplicate two (rank n-2)
			if(n >= 2)
			{
				Rows r1 = dense;
				r1[n - 1] = r1[0];
				check_matrix(r1, "rank_deficient");
				Rows r2 = dense;
				for(double& x : r2[n / 2]) x = 0;
				check_matrix(r2, "rank_deficient");
				if(n >= 3)
				{
					Rows r3 = dense;
					r3[1] = r3[0];
					for(int j = 0; j < n; j++) r3[2][j] = 2 * r3[0][j];
					check_matrix(r3, "rank_deficient");
				}
				Rows c1 = dense;
				for(int i = 0; i < n; i++) c1[i][n - 1] = c1[i][0];
				check_matrix(c1, "rank_deficient");
				if(n >= 3)
				{
					// singular through a combination with non-trivial coefficients: the elimination meets non-dyadic ratios, so a
					// floating-point pivot test alone does not see an exact zero
					Rows r4 = dense, r5 = dense, c2 = dense;
					for(int j = 0; j < n; j++) { r4[n - 1][j] = r4[0][j] + r4[1][j]; r5[n - 1][j] = 3 * r5[0][j] - 2 * r5[1][j] + r5[2 % (n - 1)][j]; }
					for(int i = 0; i < n; i++) c2[i][1] = 2 * c2[i][0] - 3 * c2[i][n - 1];
					check_matrix(r4, "rank_deficient");
					check_matrix(r5, "rank_deficient");
					check_matrix(c2, "rank_deficient");
				}
			}
			// graded scalings D1*A*D2 by powers of ten
			if(n >= 2 && n <= 5)
				for(int sc = 0; sc < 6; sc++)
				{
					Rows g = dense;
					for(int i = 0; i < n; i++)
						for(int j = 0; j < n; j++) g[i][j] *= std::pow(10.0, ((i * (sc + 1)) % 3 - 1) * (sc % 3 + 1)) * std::pow(10.0, ((j + sc) % 3 - 1) * (sc / 3 + 1));
					check_matrix(g, "graded_scaling");
				}
		}
	// the same well-conditioned matrices at very small and very large absolute scale (the inverse is scale covariant)
	for(int n = 1; n <= 5; n++)
		for(int pat = 0; pat < 4; pat++)
			for(double sc : {1e-13, 1e-20, 1e-40, 1e13, 1e40})
			{
				if(!mc::mine(unit++)) continue;
				Rows g(n, std::vector<double>(n));
				for(int i = 0; i < n; i++)
					for(int j = 0; j < n; j++) g[i][j] = sc * ((i == j ? 5.0 : 0.0) + (double)(int)(2 * v[(i * 4 + j * 7 + pat) % 9]));
				check_matrix(g, "global_scale");
			}
	// orthogonal matrices and their neighbours: identity, plane rotations, signed permutations, each perturbed entry-wise by
	// eps * pattern (the inverse of Q+E differs from Q^T by about |E|)
	for(int n = 2; n <= 5; n++)
		for(int kind = 0; kind < 4; kind++)
			for(double eps : {0.0, 1e-13, 1e-12, 1e-11, 1e-9, 1e-6})
			{
				if(!mc::mine(unit++)) continue;
				Rows q(n, std::vector<double>(n, 0.0));
				for(int i = 0; i < n; i++) q[i][i] = 1;
				if(kind == 1) { double th = 0.7; q[0][0] = std::cos(th); q[1][1] = std::cos(th); q[0][1] = -std::sin(th); q[1][0] = std::sin(th); }
				if(kind == 2) { for(int i = 0; i < n; i++) { q[i][i] = 0; q[i][(i + 1) % n] = (i % 2) ? -1 : 1; } }
				if(kind == 3) { double th = 2.1; int a = 0, b = n - 1; q[a][a] = std::cos(th); q[b][b] = std::cos(th); q[a][b] = -std::sin(th); q[b][a] = std::sin(th); q[n / 2][n / 2] = (n > 2 ? -1 : q[n / 2][n / 2]); }
				for(int i = 0; i < n; i++)
					for(int j = 0; j < n; j++) q[i][j] += eps * v[(i * 4 + j * 7 + kind) % 9];
				check_matrix(q, "near_orthogonal");
			}
	// multiplicativity on integer matrices (exact)
	for(int n = 2; n <= 4; n++)
		for(int pa = 0; pa < 9; pa++)
			for(int pb = 0; pb < 9; pb++)
			{
				if(!mc::mine(unit++)) continue;
				Rows a(n, std::vector<double>(n)), b = a;
				for(int i = 0; i < n; i++)
					for(int j = 0; j < n; j++) { a[i][j] = (double)(int)(2 * v[(i * 3 + j * 5 + pa) % 9]); b[i][j] = (double)(int)(2 * v[(i * 7 + j * 2 + pb) % 9]) - (i == j); }
				double da = Matrix(a).Determinant(), db = Matrix(b).Determinant(), dab = (Matrix(a) * Matrix(b)).Determinant();
				g_cases++;
				if(!(dab == da * db)) fail("multiplicativity", a, "determinant_not_multiplicative|B=" + mstr(b), "det(AB)=" + mc::dec(dab) + " det(A)det(B)=" + mc::dec(da * db));
			}
	// n=1
	if(mc::shard0())
		for(double x : {1.0, -1.0, 2.0, 0.5, 1e-3, 0.0, -1e20}) check_matrix({{x}}, "one_by_one", 1e300);
	// non-square: Determinant and Inverse must end the process
	for(int m = 1; m <= 4; m++)
		for(int n = 1; n <= 4; n++)
		{
			if(m == n || !mc::mine(unit++)) continue;
			Matrix R(m, n, 1.5);
			g_cases++;
			double d;
			Matrix X;
			std::string sh = std::to_string(m) + "x" + std::to_string(n);
			if(!mc::library_exits([&]() { d = R.Determinant(); })) mc::violation("non_square", "non_square|" + sh + "|determinant_returned", "Determinant of a non-square matrix returned", sh);
			if(!mc::library_exits([&]() { X = R.Inverse(); })) mc::violation("non_square", "non_square|" + sh + "|inverse_returned", "Inverse of a non-square matrix returned", sh);
			if(R.Invertible()) mc::violation("non_square", "non_square|" + sh + "|invertible_true", "Invertible() true for a non-square matrix", sh);
		}
}

// ---- dense ill-conditioned matrices (condition 1e2 ... 1e8): Hilbert matrices and rotated graded spectra; every inversion first in a
// child with a time limit (an iteration that cannot reach its goal at this conditioning must not take the shard with it)
static void ill_conditioned(unsigned long long& unit)
{
	auto guarded = [](const Rows& a, const std::string& fam) {
		auto o = mc::isolate([&](std::function<void(const std::string&)> out) { Matrix M(a); Matrix X = M.Inverse(); out(std::to_string(X.Rows())); double d = M.Determinant(); out(mc::dec(d)); }, 20.0);
		if(o.kind == mc::Outcome::TIMEOUT) { fail(fam, a, "inverse_does_not_return", "Inverse()/Determinant() of an invertible matrix did not return within 20 s"); return; }
		check_matrix(a, fam);
	};
	for(int n = 2; n <= 6; n++)
	{
		if(!mc::mine(unit++)) continue;
		Rows h(n, std::vector<double>(n));
		for(int i = 0; i < n; i++)
			for(int j = 0; j < n; j++) h[i][j] = 1.0 / (i + j + 1);
		guarded(h, "hilbert");
		for(int i = 0; i < n; i++)
			for(int j = 0; j < n; j++) h[i][j] = 1.0 / (i + j + 2.5);
		guarded(h, "hilbert_shifted");
	}
	for(int n = 2; n <= 6; n++)
		for(double c : {1e2, 1e4, 1e6, 1e7, 3e7, 8e7})
			for(int variant = 0; variant < 3; variant++)
			{
				if(!mc::mine(unit++)) continue;
				// M = U diag(1 ... 1/c) V with U, V products of plane rotations by fixed angles
				Rows m(n, std::vector<double>(n, 0.0));
				for(int i = 0; i < n; i++) m[i][i] = variant == 2 ? (i == n - 1 ? 1 / c : 1.0) : std::pow(c, -(double)i / (n - 1));
				auto rotate = [&](int p, int q2, double ang, bool left) {
					double cs = std::cos(ang), sn = std::sin(ang);
					for(int k = 0; k < n; k++)
					{
						double& x = left ? m[p][k] : m[k][p];
						double& y = left ? m[q2][k] : m[k][q2];
						double x0 = x, y0 = y;
						x = cs * x0 - sn * y0; y = sn * x0 + cs * y0;
					}
				};
				int t = 0;
				for(int p = 0; p < n; p++)
					for(int q2 = p + 1; q2 < n; q2++) { rotate(p, q2, 0.3 + 0.37 * (t + variant), true); rotate(p, q2, 1.1 - 0.23 * (t + 2 * variant), false); t++; }
				guarded(m, "rotated_graded_spectrum");
			}
}

// ---- one object, mutated in place: every answer is that of the current contents -------------------------------------------------
static std::string answers(Matrix& M)
{
	std::string o;
	double d = 0;
	bool inv = false;
	Matrix X;
	if(mc::library_exits([&]() { d = M.Determinant(); })) o += "det:exit;"; else o += "det:" + mc::hexd(d) + ";";
	if(mc::library_exits([&]() { inv = M.Invertible(); })) o += "invertible:exit;"; else o += std::string("invertible:") + (inv ? "1" : "0") + ";";
	if(mc::library_exits([&]() { X = M.Inverse(); })) o += "inverse:exit;";
	else
	{
		o += "inverse:";
		for(unsigned i = 0; i < X.Rows(); i++)
			for(unsigned j = 0; j < X.Columns(); j++) o += mc::hexd(X[i][j]) + ",";
	}
	return o;
}
static void object_histories(unsigned long long& unit)
{
	const double v[] = {1, -2, 3, 0.5, -1, 2, 4, -3, 1.5};
	const char* MUT[] = {"+=", "-=", "operator[] assignment", "assignment from another matrix", "+= then -= (restored)", "row write through operator[]"};
	for(int n = 1; n <= 4; n++)
		for(int pa = 0; pa < 4; pa++)
			for(int pb = 0; pb < 4; pb++)
				for(int mut = 0; mut < 6; mut++)
					for(int pre = 0; pre < 4; pre++)	// which queries precede the mutation: none, Determinant, Invertible, Inverse
					{
						if(!mc::mine(unit++)) continue;
						Rows a(n, std::vector<double>(n)), b = a;
						for(int i = 0; i < n; i++)
							for(int j = 0; j < n; j++) { a[i][j] = (i == j ? 5.0 : 0.0) + (double)(int)(2 * v[(i * 4 + j * 7 + pa) % 9]); b[i][j] = (double)(int)(2 * v[(i * 3 + j * 5 + pb) % 9]); }
						if(pb == 3 && n >= 2) { b = a; for(int j = 0; j < n; j++) b[n - 1][j] = a[0][j] - a[n - 1][j]; for(int i = 0; i + 1 < n; i++) for(int j = 0; j < n; j++) b[i][j] = 0; }	// A+B has two equal rows
						Matrix M(a), B(b);
						g_cases++;
						if(pre == 1) mc::library_exits([&]() { volatile double d = M.Determinant(); (void)d; });
						if(pre == 2) mc::library_exits([&]() { volatile bool d = M.Invertible(); (void)d; });
						if(pre == 3) mc::library_exits([&]() { Matrix X = M.Inverse(); });
						Rows now = a;
						switch(mut)
						{
							case 0: M += B; for(int i = 0; i < n; i++) for(int j = 0; j < n; j++) now[i][j] = a[i][j] + b[i][j]; break;
							case 1: M -= B; for(int i = 0; i < n; i++) for(int j = 0; j < n; j++) now[i][j] = a[i][j] - b[i][j]; break;
							case 2: M[n - 1][0] = 7.0; now[n - 1][0] = 7.0; break;
							case 3: M = B; now = b; break;
							case 4: M += B; M -= B; break;
							default: for(int j = 0; j < n; j++) { M[0][j] = b[0][j]; now[0][j] = b[0][j]; } break;
						}
						Matrix F(now);
						std::string got = answers(M), want = answers(F);
						if(got != want)
						{
							std::string key = "n=" + std::to_string(n) + ",A=" + std::to_string(pa) + ",B=" + std::to_string(pb) + ",mutation=" + MUT[mut] + ",queried_before=" + std::to_string(pre);
							std::replace(key.begin(), key.end(), ' ', '_');
							mc::violation("object_histories", "object_histories|" + key + "|answers_of_stale_contents", "after " + std::string(MUT[mut]) + " the object answers " + got.substr(0, 120) + " but a fresh matrix with the same entries answers " + want.substr(0, 120), key);
						}
					}
}

int main(int argc, char** argv)
{
	mc::init(argc, argv);
	if(mc::ctx().replay)
	{
		auto m = mc::parse_case(mc::ctx().replay_case);
		Rows a;
		std::stringstream ss(m["M"]);
		std::string t;
		while(std::getline(ss, t, ';'))
			if(!t.empty()) a.push_back(mc::parsev(t));
		check_matrix(a, m["family"], 1e300);
		return mc::ctx().violation_total ? 1 : 0;
	}
	silence();
	mc::bound("rule", "complete products of integer matrices (all 2x2 over {-2..2}, all 3x3 over {-1,0,1} / {-1,0,1,2}), all signed permutation matrices, P*L*U with every permutation, tiny-pivot, triangular/diagonal/symmetric, rank-deficient (duplicates and non-trivial combinations), near-orthogonal, graded-scaling families; object histories (query, in-place mutation, query) against a fresh object; exact Bareiss determinant, binary128 inverse with complete pivoting; non-trivial = invertible matrices whose inverse was compared");
	unsigned long long unit = 0;
	all_over(2, {-2, -1, 0, 1, 2}, unit, "all_2x2");
	if(mc::thorough()) all_over(3, {-1, 0, 1, 2}, unit, "all_3x3");
	else all_over(3, {-1, 0, 1}, unit, "all_3x3");
	for(int n = 1; n <= (mc::thorough() ? 7 : 5); n++) signed_permutations(n, unit);
	plu_families(unit);
	tiny_pivots(unit);
	structured(unit);
	ill_conditioned(unit);
	object_histories(unit);
	mc::alphabet("entries_2x2", 5);
	mc::alphabet("entries_3x3", mc::thorough() ? 4 : 3);
	mc::bound("signed_permutations", std::string("all of size n<=") + (mc::thorough() ? "7" : "5"));
	mc::count("evaluations", g_cases);
	mc::count("distinct_nontrivial", g_nontrivial);
	mc::count("singular_or_rejected", g_singular);
	mc::count("inverses_compared", g_inverted);
	if(mc::shard0()) mc::sample("signed permutation [[0,-1,0],[0,0,1],[1,0,0]]: Determinant vs exact Bareiss, Inverse vs binary128 reference within 16 n kappa u, X*M and M*X vs I");
	return mc::finish();
}
