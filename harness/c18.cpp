// C18 — Samplers are reproducible from the generator state and draw from the stated law.
// M2: the caller's generator is the environment; its outputs are scripted (mc/scripted_rng.hpp) and enumerated.
// M1: all interleavings of sampler calls on one generator up to a depth bound; each transition is compared with the
//     same call made first in a pristine process that loads the serialised generator state.
#include "mc/mc.hpp"
#include "mc/exit_trap.hpp"
#include "mc/scripted_rng.hpp"
#include "libphysica/Statistics.hpp"
#include "libphysica/Special_Functions.hpp"
using namespace libphysica;
typedef long double ld;
typedef std::vector<double> V;

// ---- every other entropy source is owned and must stay untouched ------------------------------------------------------
static unsigned long g_foreign_entropy = 0;
unsigned int std::random_device::_M_getval() { g_foreign_entropy++; return 4u; }
extern "C" int rand(void) noexcept { g_foreign_entropy++; return 4; }
extern "C" long random(void) noexcept { g_foreign_entropy++; return 4; }
extern "C" ssize_t getrandom(void* buf, size_t len, unsigned) noexcept { g_foreign_entropy++; memset(buf, 4, len); return len; }

static void fail(const std::string& part, const std::string& key, const std::string& cls, const std::string& text) { mc::violation(part, part + "|" + key + "|" + cls, text, part + " " + key); }
static long long g_cases = 0;

static double pdf1(double x) { return std::exp(-2 * (x - 0.3) * (x - 0.3)) + 0.2; }
static double pdf2(double x, double y) { return std::exp(-(x - 0.2) * (x - 0.2) - 2 * (y + 0.1) * (y + 0.1)) + 0.1; }
static double cdf_exp(double x) { return 1 - std::exp(-0.5 * x); }

// ---- the sampler alphabet ------------------------------------------------------------------------------------------------
static const int NLETTERS = 10;
static const char* LETTER_NAMES[NLETTERS] = {"Sample_Uniform(-1,3)", "Sample_Gauss(1,2)", "Sample_Poisson(3)", "Sample_Poisson(600)", "Sample_Poisson({0.5,2,40})", "Inverse_Transform_Sampling(exp cdf)", "Rejection_Sampling", "Rejection_Sampling_2D", "Sample_Metropolis(bounded)", "Sample_Metropolis_2D(unbounded)"};
static std::string apply_letter(int l, std::mt19937& g)
{
	std::string out;
	auto add = [&](double v) { out += mc::hexd(v) + ","; };
	switch(l)
	{
		case 0: add(Sample_Uniform(g, -1, 3)); break;
		case 1: add(Sample_Gauss(g, 1, 2)); break;
		case 2: add(Sample_Poisson(g, 3.0)); break;
		case 3: add(Sample_Poisson(g, 600.0)); break;
		case 4: for(unsigned k : Sample_Poisson(g, V{0.5, 2, 40})) add(k); break;
		case 5: add(Inverse_Transform_Sampling(cdf_exp, 0, 20, g)); break;
		case 6: add(Rejection_Sampling(pdf1, 0, 2, 1.25, g)); break;
		case 7: { std::function<double(double, double)> f = pdf2; auto p = Rejection_Sampling_2D(g, f, -1, 1, -1, 1, 1.15); add(p.first); add(p.second); break; }
		case 8: for(double v : Sample_Metropolis(g, pdf1, 0.5, 5, 2, 3, V{-1, 1})) add(v); break;
		default: for(auto& p : Sample_Metropolis_2D(g, pdf2, {0.5, 0.5}, 4, 2, 2)) { add(p.first); add(p.second); } break;
	}
	return out;
}
static uint64_t fnv(const std::string& s)
{
	uint64_t h = 1469598103934665603ULL;
	for(unsigned char c : s) h = (h ^ c) * 1099511628211ULL;
	return h;
}

// ---- pristine zygote: answers "load this generator state, call this letter first" in a fresh grandchild -----------------
static int z_req = -1, z_rsp = -1;
static void start_zygote()
{
	int rq[2], rs[2];
	if(pipe(rq) || pipe(rs)) exit(3);
	pid_t pid = fork();
	if(pid == 0)
	{
		close(rq[1]);
		close(rs[0]);
		FILE* in = fdopen(rq[0], "r");
		char* line = nullptr;
		size_t cap = 0;
		while(getline(&line, &cap, in) > 0)
		{
			pid_t g = fork();
			if(g == 0)
			{
				int letter = atoi(line);
				std::stringstream ss(strchr(line, ' ') + 1);
				std::mt19937 gen;
				ss >> gen;
				std::string out = apply_letter(letter, gen);
				char buf[128];
				snprintf(buf, sizeof buf, "%016llx %016llx %lu\n", (unsigned long long)fnv(out), (unsigned long long)fnv(mc::state_of(gen)), g_foreign_entropy);
				ssize_t w = write(rs[1], buf, strlen(buf));
				(void)w;
				_exit(0);
			}
			int st;
			waitpid(g, &st, 0);
			if(!(WIFEXITED(st) && WEXITSTATUS(st) == 0)) { ssize_t w = write(rs[1], "died\n", 5); (void)w; }
		}
		_exit(0);
	}
	close(rq[0]);
	close(rs[1]);
	z_req = rq[1];
	z_rsp = rs[0];
}
static std::string ask_zygote(int letter, const std::string& state)
{
	std::string req = std::to_string(letter) + " " + state + "\n";
	size_t off = 0;
	while(off < req.size()) { ssize_t w = write(z_req, req.data() + off, req.size() - off); if(w <= 0) return "pipe"; off += w; }
	std::string rsp;
	char c;
	while(read(z_rsp, &c, 1) == 1 && c != '\n') rsp += c;
	return rsp;
}

static void interleavings(unsigned long long& unit)
{
	int depth = mc::thorough() ? 4 : 3;
	mc::bound("interleaving_depth", "all sequences of sampler calls of length <= " + std::to_string(depth) + " over " + std::to_string(NLETTERS) + " letters from 2 seeds; every further letter compared with a pristine process");
	mc::alphabet("sampler_letters", NLETTERS);
	long long states = 0, trans = 0;
	std::set<uint64_t> distinct;
	for(unsigned seed : {0u, 12345u})
		for(int len = 0; len < depth; len++)
		{
			mc::Product P(std::vector<int>(std::max(len, 1), len ? NLETTERS : 1));
			do
			{
				if(!mc::mine(unit++)) continue;
				if(mc::out_of_time("C18 interleavings")) return;
				std::mt19937 g(seed);
				std::string hist;
				if(len) for(int l : P.idx) { apply_letter(l, g); hist += std::to_string(l); }
				std::string S = mc::state_of(g);
				states++;
				distinct.insert(fnv(S));
				for(int a = 0; a < NLETTERS; a++)
				{
					std::mt19937 h = g;
					unsigned long before = g_foreign_entropy;
					std::string out = apply_letter(a, h);
					char buf[128];
					snprintf(buf, sizeof buf, "%016llx %016llx %lu", (unsigned long long)fnv(out), (unsigned long long)fnv(mc::state_of(h)), 0UL);
					std::string rsp = ask_zygote(a, S);
					trans++;
					std::string key = "seed=" + std::to_string(seed) + ",history=" + (hist.empty() ? "-" : hist) + ",then=" + LETTER_NAMES[a];
					if(g_foreign_entropy != before) fail("interleave", key, "foreign_entropy_used", "random_device/rand/random/getrandom was called");
					if(rsp != buf) fail("interleave", key, "depends_on_more_than_generator_state", "in this process after the history: " + std::string(buf) + "; first call in a pristine process from the same generator state: " + rsp);
					// reproducibility: equal generator states give identical outputs and leave equal states
					std::mt19937 h2 = g;
					std::string out2 = apply_letter(a, h2);
					if(out2 != out || !(h2 == h)) fail("interleave", key, "not_reproducible", "two runs from equal generator states differ");
				}
				if(states == 5) mc::sample("history of sampler letters [" + hist + "] from seed " + std::to_string(seed) + ", then each of the 10 letters: output and final generator state equal those of the same call made first in a pristine process loading the serialised state", 3);
			} while(len && P.next());
		}
	mc::count("states", states);
	mc::count("transitions", trans);
	mc::count("evaluations", trans);
	mc::count("distinct_nontrivial", distinct.size());
}

// ---- laws, exactly, with scripted uniforms ----------------------------------------------------------------------------
static ld Phi(ld z) { return 0.5L * erfcl(-z / sqrtl(2.0L)); }

static void laws(unsigned long long& unit)
{
	// uniform and Gauss on a stratified grid
	int m = mc::thorough() ? 4096 : 512;
	// How do the two elementary samplers use the generator? If one call consumes one uniform, the sample is a deterministic map of it and the law
	// is right exactly when that map is the quantile function of u or of 1-u (checked sharply below). Any other scheme (Box-Muller, polar, ratio of
	// uniforms ...) is judged by the distribution of its outputs over the complete grid of its first two uniforms (coarser, but independent of the scheme).
	int gauss_words = 0, uniform_words = 0;
	bool gauss_increasing = true, uniform_increasing = true;
	{
		std::mt19937 g = mc::scripted_uniforms({0.3L, 0.6L, 0.2L, 0.9L, 0.55L, 0.45L});
		double z = Sample_Gauss(g, 0.0, 1.0);
		gauss_words		 = mc::position_of(g);
		gauss_increasing = z < 0;
		std::mt19937 h = mc::scripted_uniforms({0.3L, 0.6L, 0.2L, 0.9L, 0.55L, 0.45L});
		double x = Sample_Uniform(h, 0.0, 1.0);
		uniform_words	   = mc::position_of(h);
		uniform_increasing = x < 0.5;
		if(mc::shard0()) mc::note("Sample_Gauss consumes " + std::to_string(gauss_words) + " generator words per sample, Sample_Uniform " + std::to_string(uniform_words) + (gauss_words == 2 ? " (one uniform each: sharp quantile oracle)" : " (not a map of one uniform: law judged on the enumerated output distribution)"));
	}
	if(mc::mine(unit++))
		for(auto ab : std::vector<std::pair<double, double>>{{0, 1}, {-1, 3}, {5, 5.001}})
			for(int i = 0; i < m; i++)
			{
				ld u = (i + 0.5L) / m;
				std::mt19937 g = mc::scripted_uniforms({u});
				double x = Sample_Uniform(g, ab.first, ab.second), uc = mc::canonical_of(u);
				g_cases++;
				double ue = uniform_increasing ? uc : 1 - uc, want = ue * (ab.second - ab.first) + ab.first;
				if(uniform_words == 2 && !(std::fabs(x - want) <= 4 * mc::U_ * (std::fabs(ab.first) + std::fabs(ab.second)))) fail("laws", "Sample_Uniform(" + mc::dec(ab.first) + "," + mc::dec(ab.second) + "),u=" + mc::dec((double)u), "uniform_not_affine_in_u", "returned " + mc::dec(x) + ", the affine image of the uniform is " + mc::dec(want));
				if(!(x >= ab.first && x <= ab.second) || mc::position_of(g) != uniform_words) fail("laws", "Sample_Uniform(" + mc::dec(ab.first) + "," + mc::dec(ab.second) + "),u=" + mc::dec((double)u), "outside_support_or_wrong_consumption", "x = " + mc::dec(x) + ", words consumed " + std::to_string(mc::position_of(g)));
			}
	if(gauss_words != 2 && mc::mine(unit++))
	{
		// scheme-independent: the outputs over the complete m2 x m2 grid of the first two uniforms, as a distribution
		const int m2 = 64;
		for(auto ms : std::vector<std::pair<double, double>>{{0, 1}, {1, 2}, {-40, 1e-3}})
		{
			std::vector<double> zs;
			bool died = false;
			for(int i = 0; i < m2 && !died; i++)
				for(int j = 0; j < m2; j++)
				{
					std::mt19937 g = mc::scripted_uniforms({(i + 0.5L) / m2, (j + 0.5L) / m2, 0.41L, 0.73L, 0.17L, 0.89L, 0.31L, 0.67L});
					double z = 0;
					if(mc::library_exits([&]() { z = Sample_Gauss(g, ms.first, ms.second); })) { fail("laws", "Sample_Gauss(" + mc::dec(ms.first) + "," + mc::dec(ms.second) + "),grid", "terminated_process", "ended the process"); died = true; break; }
					zs.push_back(z);
					g_cases++;
				}
			if(died) continue;
			std::sort(zs.begin(), zs.end());
			double D = 0;
			for(size_t k = 0; k < zs.size(); k++)
			{
				double F = (double)Phi(((ld)zs[k] - ms.first) / ms.second);
				D = std::max({D, std::fabs(F - (double)k / zs.size()), std::fabs(F - (double)(k + 1) / zs.size())});
			}
			if(!(D <= 4.0 / m2)) fail("laws", "Sample_Gauss(" + mc::dec(ms.first) + "," + mc::dec(ms.second) + "),grid", "enumerated_law_differs", "Kolmogorov distance " + mc::dec(D) + " between the outputs over the " + std::to_string(m2) + "x" + std::to_string(m2) + " grid of the first two uniforms and the normal law");
			else mc::maxi("gauss_enumerated_law_distance_over_allowed", D / (4.0 / m2));
		}
	}
	if(gauss_words == 2 && mc::mine(unit++))
		for(auto ms : std::vector<std::pair<double, double>>{{0, 1}, {1, 2}, {-40, 1e-3}})
			for(int i = 0; i < m; i++)
			{
				ld u = gauss_increasing ? (i + 0.5L) / m : 1 - (i + 0.5L) / m;
				std::mt19937 g = mc::scripted_uniforms({u});
				double z = 0;
				std::string key = "Sample_Gauss(" + mc::dec(ms.first) + "," + mc::dec(ms.second) + "),u=" + mc::dec((double)u);
				if(mc::library_exits([&]() { z = Sample_Gauss(g, ms.first, ms.second); })) { fail("laws", key, "terminated_process", "ended the process"); continue; }
				g_cases++;
				ld p = Phi(((ld)z - ms.first) / ms.second);
				if(!gauss_increasing) p = 1 - p;	// the map u -> quantile(1-u) is as good a sampler as u -> quantile(u)
				// Kolmogorov distance between the law induced by the grid and the target: quantile accurate to sqrt(2)*1e-4 standard deviations
				if(!(fabsl(p - u) <= 0.3989423L * sqrtl(2.0L) * 1e-4L * 1.001L)) fail("laws", key, "gauss_quantile_off", "Phi((z-mu)/sigma) = " + mc::dec((double)p) + " for u = " + mc::dec((double)u));
				else mc::maxi("gauss_cdf_error_over_allowed", (double)(fabsl(p - u) / (0.3989423L * sqrtl(2.0L) * 1e-4L)), key);
			}
	// Gaussian tails, down to the smallest uniforms a generator can deliver (2^-53, and 0 itself): judged in z, against the quantile of the
	// probability the sampler actually forms, p = 2u-1 in binary64 (1+p is exact there), within the sqrt(2)*1e-4 of Inv_Erf
	if(gauss_words == 2 && gauss_increasing && mc::mine(unit++))
		for(ld u : {0.0L, 1.1102230246251565e-16L, 1e-15L, 1e-12L, 1e-9L, 1e-7L, 3e-7L, 1e-6L, 3e-6L, 1e-5L, 1e-4L, 1 - 1e-4L, 1 - 1e-5L, 1 - 3e-6L, 1 - 1e-6L, 1 - 3e-7L, 1 - 1e-7L, 1 - 1e-9L, 1 - 1e-12L, 1 - 1e-15L, 1 - 1.1102230246251565e-16L})
		{
			std::mt19937 g = mc::scripted_uniforms({u});
			double z = 0, uc = mc::canonical_of(u);
			std::string key = "Sample_Gauss(0,1),tail,u=" + mc::dec((double)u);
			if(mc::library_exits([&]() { z = Sample_Gauss(g, 0.0, 1.0); })) { fail("laws", key, "terminated_process", "a generator state (uniform " + mc::dec(uc) + ") ended the process"); continue; }
			g_cases++;
			if(!std::isfinite(z)) { fail("laws", key, "not_finite", "returned " + mc::dec(z)); continue; }
			double pd = 2.0 * uc - 1.0;
			// within 2e-12 of the ends one ulp of p moves the quantile by more than the stated accuracy: sign and size only
			if(std::fabs(pd) > 1 - 2e-12) { if(!(std::fabs(z) >= 6.9 && (z < 0) == (pd < 0))) fail("laws", key, "gauss_quantile_off", "uniform " + mc::dec(uc) + " next to the end of the unit interval gave z = " + mc::dec(z)); continue; }
			// solve erf(x) = pd, i.e. erfc(-x) = 1+pd (lower half) or erfc(x) = 1-pd (upper half), by bisection in long double
			ld q = pd < 0 ? (ld)(1.0 + pd) : (ld)(1.0 - pd), lo = 0, hi = 10;
			for(int it = 0; it < 200; it++) { ld mid = (lo + hi) / 2; if(erfcl(mid) > q) lo = mid; else hi = mid; }
			ld zref = sqrtl(2.0L) * (pd < 0 ? -lo : lo);
			if(!(fabsl(z - zref) <= sqrtl(2.0L) * 1e-4L * 1.001L)) fail("laws", key, "gauss_quantile_off", "z = " + mc::dec(z) + " but the normal quantile of u is " + mc::dec((double)zref));
			else mc::maxi("gauss_tail_z_error_over_allowed", (double)(fabsl(z - zref) / (sqrtl(2.0L) * 1e-4L)), key);
		}
	// inverse transform
	if(mc::mine(unit++))
	{
		struct Cf { const char* name; std::function<double(double)> cdf; double lo, hi, pdfmax; };
		std::vector<Cf> cfs = {{"uniform02", [](double x) { return x / 2; }, 0, 2, 0.5}, {"exp", cdf_exp, 0, 60, 0.5}, {"logistic", [](double x) { return 1 / (1 + std::exp(-x)); }, -40, 40, 0.25},
								   // domains far narrower than any absolute tolerance, with a non-linear CDF (the accuracy is relative to the domain)
								   {"square_on_2e-10", [](double x) { return (x / 2e-10) * (x / 2e-10); }, 0, 2e-10, 2 / 2e-10},
								   {"square_on_1e-13_at_5", [](double x) { double t = (x - 5) / 9.0594198809412774e-14; return t * t; }, 5, 5 + 9.0594198809412774e-14, 2 / 9.0594198809412774e-14},
								   {"cubic_on_3e-9", [](double x) { double t = x / 3e-9; return t * t * t; }, 0, 3e-9, 3 / 3e-9}};
		for(auto& c : cfs)
			for(int i = 0; i < 256; i++)
			{
				ld u = (i + 0.5L) / 256;
				std::mt19937 g = mc::scripted_uniforms({u});
				double x = 0;
				std::string key = std::string("Inverse_Transform_Sampling(") + c.name + "),u=" + mc::dec((double)u);
				if(mc::library_exits([&]() { x = Inverse_Transform_Sampling(c.cdf, c.lo, c.hi, g); })) { fail("laws", key, "terminated_process", "ended the process"); continue; }
				g_cases++;
				double acc = 1e-10 * (c.hi - c.lo);
				if(!(x >= c.lo && x <= c.hi)) fail("laws", key, "outside_domain", "x = " + mc::dec(x));
				double res = 2 * mc::U_ * 2 * std::max(std::fabs(c.lo), std::fabs(c.hi));	// resolution of the abscissa itself
				if(!(std::fabs(c.cdf(x) - mc::canonical_of(u)) <= c.pdfmax * (acc + res) * 1.01 + 4 * mc::U_)) fail("laws", key, "cdf_of_sample_not_u", "cdf(x) = " + mc::dec(c.cdf(x)) + " u = " + mc::dec(mc::canonical_of(u)));
			}
	}
	// rejection sampling: first trial on an m x m grid, second trial forced to accept
	// (two envelopes: a loose one, and one 0.4 % below the maximum of the density, which the sampler tolerates up to 1 %:
	//  candidates under the part of the density that sticks out are accepted like any other)
	// the same rule for a density with an interior dip far below its values at the two ends (V shape with a zero in the middle)
	if(mc::mine(unit++))
	{
		std::function<double(double)> vee = [](double x) { return std::fabs(x - 0.8) * 1.2 + 0.0; };
		for(int i = 0; i < 48; i++)
			for(int j = 0; j < 48; j++)
			{
				ld ux = (i + 0.5L) / 48, uy = (j + 0.5L) / 48, ux2 = 0.9876L;
				std::mt19937 g = mc::scripted_uniforms({ux, uy, ux2, 0.0L});
				double x = Rejection_Sampling(vee, 0, 2, 1.5, g);
				g_cases++;
				double x1 = mc::canonical_of(ux) * 2 + 0, y1 = mc::canonical_of(uy) * 1.5 + 0, x2 = mc::canonical_of(ux2) * 2;
				double want = y1 <= vee(x1) ? x1 : x2;
				std::string key = "Rejection_Sampling(V-shaped density),ux=" + mc::dec((double)ux) + ",uy=" + mc::dec((double)uy);
				if(!mc::same_bits(x, want)) fail("laws", key, "acceptance_rule_wrong", "returned " + mc::dec(x) + " expected " + mc::dec(want) + (y1 <= vee(x1) ? " (first pair lies under the density)" : " (first pair lies above the density)"));
			}
	}
	if(mc::mine(unit++))
		for(double yMax : {1.25, 1.195})
		for(int i = 0; i < 48; i++)
			for(int j = 0; j < 48; j++)
			{
				ld ux = (i + 0.5L) / 48, uy = (j + 0.5L) / 48, ux2 = 0.4321L;
				std::mt19937 g = mc::scripted_uniforms({ux, uy, ux2, 0.0L});
				double x = Rejection_Sampling(pdf1, 0, 2, yMax, g);
				g_cases++;
				double x1 = mc::canonical_of(ux) * 2 + 0, y1 = mc::canonical_of(uy) * yMax + 0, x2 = mc::canonical_of(ux2) * 2;
				double want = y1 <= pdf1(x1) ? x1 : x2;
				int used	= y1 <= pdf1(x1) ? 4 : 8;
				std::string key = "Rejection_Sampling,yMax=" + mc::dec(yMax) + ",ux=" + mc::dec((double)ux) + ",uy=" + mc::dec((double)uy);
				if(!mc::same_bits(x, want)) fail("laws", key, "acceptance_rule_wrong", "returned " + mc::dec(x) + " expected " + mc::dec(want) + (y1 <= pdf1(x1) ? " (first pair lies under the density)" : " (first pair lies above the density)"));
				if(mc::position_of(g) != used) fail("laws", key, "wrong_consumption", std::to_string(mc::position_of(g)) + " words consumed, expected " + std::to_string(used));
			}
	if(mc::mine(unit++))
		for(int i = 0; i < 12; i++)
			for(int j = 0; j < 12; j++)
				for(int k = 0; k < 24; k++)
				{
					ld ux = (i + 0.5L) / 12, uy = (j + 0.5L) / 12, uz = (k + 0.5L) / 24;
					for(double zMax : {1.15, 1.096})
					{
					std::mt19937 g = mc::scripted_uniforms({ux, uy, uz, 0.77L, 0.21L, 0.0L});
					std::function<double(double, double)> f = pdf2;
					auto p = Rejection_Sampling_2D(g, f, -1, 1, -1, 1, zMax);
					g_cases++;
					double x1 = mc::canonical_of(ux) * 2 - 1, y1 = mc::canonical_of(uy) * 2 - 1, z1 = mc::canonical_of(uz) * zMax, x2 = mc::canonical_of(0.77L) * 2 - 1, y2 = mc::canonical_of(0.21L) * 2 - 1;
					bool acc = z1 <= pdf2(x1, y1);
					std::string key = "Rejection_Sampling_2D,u=" + mc::dec((double)ux) + "," + mc::dec((double)uy) + "," + mc::dec((double)uz);
					if(!mc::same_bits(p.first, acc ? x1 : x2) || !mc::same_bits(p.second, acc ? y1 : y2)) fail("laws", key + ",zMax=" + mc::dec(zMax), "acceptance_rule_wrong", "returned (" + mc::dec(p.first) + "," + mc::dec(p.second) + ")");
					}
				}
	// Poisson: Knuth's product rule, all uniform sequences over a 12-grid up to length 6
	// (for small means the decisive uniforms lie within `mean` of 0 and 1: three letters relative to the mean join the grid,
	//  so that both sides of every comparison are taken at every position)
	for(double mean : {0.01, 0.03, 0.049, 0.5, 2.0})
		for(int first = 0; first < 15; first++)
		{
			if(!mc::mine(unit++)) continue;
			int L = mc::thorough() ? 6 : 5;
			auto letter = [&](int i) -> ld { return i < 12 ? (i + 0.5L) / 12 : i == 12 ? (ld)mean / 2 : i == 13 ? 1 - (ld)mean / 2 : 1 - (ld)mean / 4; };
			mc::Product P(std::vector<int>(L - 1, mean < 0.1 ? 15 : 12));
			if(first >= 12 && !(mean < 0.1)) continue;
			do
			{
				std::vector<ld> u{letter(first)};
				for(int i : P.idx) u.push_back(letter(i));
				for(int i = 0; i < 40; i++) u.push_back(1e-6L);   // forces termination after the scripted prefix
				std::mt19937 g = mc::scripted_uniforms(u);
				unsigned k = Sample_Poisson(g, mean);
				g_cases++;
				// reference: smallest k with prod_{i<=k+1} u_i <= exp(-mean)   (the library's loop runs while p > 1 after rescaling by exp(mean))
				ld s = 0;
				unsigned kr = 0;
				bool tie = false;
				for(size_t i = 0; i < u.size(); i++)
				{
					s += logl((ld)mc::canonical_of(u[i]));
					if(fabsl(s + mean) < 1e-12L) tie = true;
					if(s + mean <= 0) { kr = i; break; }
				}
				if(tie) { mc::count("poisson_sequences_at_a_tie_skipped", 1); continue; }
				if(k != kr)
				{
					std::string us;
					for(int i = 0; i < L; i++) us += mc::dec((double)u[i]) + ";";
					fail("laws", "Sample_Poisson(" + mc::dec(mean) + "),u=" + us, "poisson_product_rule_violated", "returned " + std::to_string(k) + ", Knuth's rule gives " + std::to_string(kr));
				}
			} while(P.next());
		}
	// the vector overload is the scalar sampler applied in order on the same generator
	if(mc::mine(unit++))
		for(unsigned seed = 0; seed < 32; seed++)
		{
			std::mt19937 g1(seed), g2(seed);
			V means{0.01, 3.5, 0.0, 620.0, 40.0, 1200.0};
			std::vector<unsigned> a = Sample_Poisson(g1, means), b;
			for(double mu : means) b.push_back(Sample_Poisson(g2, mu));
			g_cases++;
			if(a != b || !(g1 == g2)) fail("laws", "Sample_Poisson(vector),seed=" + std::to_string(seed), "vector_overload_differs_from_scalar_sequence", "the vector overload does not equal successive scalar calls on the same generator");
		}
	// Poisson with means above the rescaling step: constant and two-level sequences
	// (also the means around 708.4 and 745.13, where exp(-mean) becomes subnormal and then zero)
	for(double mean : {600.0, 1500.0, 5000.0, 500.5, 708.0, 708.5, 710.0, 730.0, 740.0, 744.0, 744.9, 745.0, 745.1, 745.2, 746.0, 1000.5})
	{
		if(!mc::mine(unit++)) continue;
		for(ld a : {5.4210108624275222e-20L, 2.3283064365386963e-10L, 1e-5L, 1e-3L, 0.02L})
			for(ld b : {5.4210108624275222e-20L, 1e-5L, 0.5L, 0.9L})
				for(int period : {1, 2, 3})
				{
					std::vector<ld> u;
					for(int i = 0; i < 300; i++) u.push_back(i % (period + 1) == period ? b : a);	// (one generator state scripts 312 uniforms)
					ld s = 0;
					int kr = -1;
					bool tie = false;
					for(size_t i = 0; i < u.size(); i++)
					{
						s += logl((ld)mc::canonical_of(u[i]));
						if(fabsl(s + mean) < 1e-9L) tie = true;
						if(s + mean <= 0) { kr = i; break; }
					}
					if(kr < 0 || tie) { mc::count("poisson_large_mean_sequences_skipped", 1); continue; }
					std::mt19937 g = mc::scripted_uniforms(u);
					unsigned k = Sample_Poisson(g, mean);
					g_cases++;
					if((int)k != kr) fail("laws", "Sample_Poisson(" + mc::dec(mean) + "),a=" + mc::dec((double)a) + ",b=" + mc::dec((double)b) + ",period=" + std::to_string(period), "poisson_product_rule_violated", "returned " + std::to_string(k) + ", Knuth's rule gives " + std::to_string(kr));
				}
	}
}

// ---- Metropolis: kernel rule by rule, and the burn-in / thinning bookkeeping -----------------------------------------------
static void metropolis(unsigned long long& unit)
{
	// one step: sample=1, thinning=1, burn_in=0 -> start, proposal, acceptance
	std::vector<ld> us = {0.03L, 0.2L, 0.5L, 0.77L, 0.999L}, up, ua;
	for(int i = 0; i < 16; i++) { up.push_back((i + 0.5L) / 16); ua.push_back((i + 0.5L) / 16); }
	ua.push_back(0.0L);
	ua.push_back(0.999999L);
	for(int bounded = 0; bounded < 2; bounded++)
		for(double sigma : {0.3, 2.0})
		{
			if(!mc::mine(unit++)) continue;
			V dom = bounded ? V{-1, 1} : V{};
			for(ld s : us)
				for(ld p : up)
					for(ld a : ua)
					{
						std::mt19937 g = mc::scripted_uniforms({s, p, a}), r = g;
						std::vector<double> out;
						std::string key = std::string("Metropolis1D,") + (bounded ? "bounded" : "unbounded") + ",sigma=" + mc::dec(sigma) + ",u=" + mc::dec((double)s) + "," + mc::dec((double)p) + "," + mc::dec((double)a);
						if(mc::library_exits([&]() { out = Sample_Metropolis(g, pdf1, sigma, 1, 1, 0, dom); })) { fail("metropolis", key, "terminated_process", "ended the process"); continue; }
						g_cases++;
						// reference kernel on an identical copy of the generator, using the library's own elementary samplers
						double x = bounded ? Sample_Uniform(r, dom[0], dom[1]) : Sample_Gauss(r, 0.0, sigma);
						double c = Sample_Gauss(r, x, sigma);
						double accp = (bounded && (c < dom[0] || c > dom[1])) ? 0.0 : std::min(1.0, pdf1(c) / pdf1(x));
						double nx	= Sample_Uniform(r, 0.0, 1.0) < accp ? c : x;
						if(out.size() != 1 || !mc::same_bits(out[0], nx)) fail("metropolis", key, "kernel_rule_violated", "next state " + (out.size() ? mc::dec(out[0]) : std::string("-")) + ", reference kernel (symmetric proposal, accept iff u < min(1,pi(c)/pi(x)), reject outside the domain) gives " + mc::dec(nx) + " from x=" + mc::dec(x) + " candidate " + mc::dec(c));
						if(!(g == r)) fail("metropolis", key, "generator_consumption_differs", "the library consumed a different number of generator words than the reference kernel");
						if(bounded && out.size() && !(out[0] >= -1 && out[0] <= 1)) fail("metropolis", key, "sample_outside_domain", mc::dec(out[0]));
					}
		}
	for(int bounded = 0; bounded < 2; bounded++)
	{
		if(!mc::mine(unit++)) continue;
		V dom = bounded ? V{-1, 1, -0.5, 0.5} : V{};
		std::vector<ld> g8;
		for(int i = 0; i < 6; i++) g8.push_back((i + 0.5L) / 6);
		for(ld s1 : {0.1L, 0.6L})
			for(ld s2 : {0.3L, 0.9L})
				for(ld p1 : g8)
					for(ld p2 : g8)
						for(ld a : {0.0L, 0.1L, 0.3L, 0.5L, 0.7L, 0.9L, 0.999999L})
						{
							std::mt19937 g = mc::scripted_uniforms({s1, s2, p1, p2, a}), r = g;
							std::vector<std::pair<double, double>> out;
							std::string key = std::string("Metropolis2D,") + (bounded ? "bounded" : "unbounded") + ",u=" + mc::dec((double)s1) + "," + mc::dec((double)s2) + "," + mc::dec((double)p1) + "," + mc::dec((double)p2) + "," + mc::dec((double)a);
							if(mc::library_exits([&]() { out = Sample_Metropolis_2D(g, pdf2, {0.4, 0.7}, 1, 1, 0, dom); })) { fail("metropolis", key, "terminated_process", "ended the process"); continue; }
							g_cases++;
							std::pair<double, double> x;
							if(bounded) { x.first = Sample_Uniform(r, dom[0], dom[1]); x.second = Sample_Uniform(r, dom[2], dom[3]); }
							else { x.first = Sample_Gauss(r, 0.0, 0.4); x.second = Sample_Gauss(r, 0.0, 0.7); }
							std::pair<double, double> c;
							c.first	 = Sample_Gauss(r, x.first, 0.4);
							c.second = Sample_Gauss(r, x.second, 0.7);
							bool outside = bounded && (c.first < dom[0] || c.first > dom[1] || c.second < dom[2] || c.second > dom[3]);
							double accp	 = outside ? 0.0 : std::min(1.0, pdf2(c.first, c.second) / pdf2(x.first, x.second));
							auto nx		 = Sample_Uniform(r, 0.0, 1.0) < accp ? c : x;
							if(out.size() != 1 || !mc::same_bits(out[0].first, nx.first) || !mc::same_bits(out[0].second, nx.second)) fail("metropolis", key, "kernel_rule_violated", "2D next state differs from the reference kernel");
							if(!(g == r)) fail("metropolis", key, "generator_consumption_differs", "different generator consumption");
						}
	}
	// bookkeeping: all (sample, thinning, burn_in)
	std::vector<unsigned> samples = {0, 1, 2, 3, 5, 8}, thin, burn;
	for(unsigned t = 1; t <= 12; t++) thin.push_back(t);
	for(unsigned b = 0; b <= 12; b++) burn.push_back(b);
	for(unsigned x : {50u, 200u}) { thin.push_back(x); burn.push_back(x); }
	for(unsigned n : samples)
		for(unsigned t : thin)
		{
			if(!mc::mine(unit++)) continue;
			for(unsigned b : burn)
				for(int variant = 0; variant < 2; variant++)
				{
					std::mt19937 g(777 + variant), r = g;
					std::string key = std::string(variant ? "2D" : "1D") + ",sample=" + std::to_string(n) + ",thinning=" + std::to_string(t) + ",burn_in=" + std::to_string(b);
					size_t total = (size_t)b + (size_t)t * n + 2 * t + 2;
					std::vector<std::pair<double, double>> chain, got;
					if(variant == 0)
					{
						for(double v : Sample_Metropolis(g, pdf1, 0.5, n, t, b, V{-1, 1})) got.push_back({v, 0});
						double x = Sample_Uniform(r, -1, 1);
						for(size_t i = 0; i < total; i++)
						{
							double c	= Sample_Gauss(r, x, 0.5);
							double accp = (c < -1 || c > 1) ? 0.0 : std::min(1.0, pdf1(c) / pdf1(x));
							if(Sample_Uniform(r, 0.0, 1.0) < accp) x = c;
							chain.push_back({x, 0});
						}
					}
					else
					{
						got = Sample_Metropolis_2D(g, pdf2, {0.4, 0.7}, n, t, b);
						std::pair<double, double> x{Sample_Gauss(r, 0.0, 0.4), 0};
						x.second = Sample_Gauss(r, 0.0, 0.7);
						for(size_t i = 0; i < total; i++)
						{
							std::pair<double, double> c;
							c.first		= Sample_Gauss(r, x.first, 0.4);
							c.second	= Sample_Gauss(r, x.second, 0.7);
							double accp = std::min(1.0, pdf2(c.first, c.second) / pdf2(x.first, x.second));
							if(Sample_Uniform(r, 0.0, 1.0) < accp) x = c;
							chain.push_back(x);
						}
					}
					g_cases++;
					if(got.size() != n) { fail("metropolis", key, "wrong_number_of_samples", std::to_string(got.size()) + " samples returned"); continue; }
					if(n == 0) continue;
					// the samples are the reference chain's states at iterations i0, i0+t, ... with i0 >= burn_in
					bool found = false;
					for(size_t i0 = b; i0 < (size_t)b + t + 1 && !found; i0++)
					{
						bool all = true;
						for(unsigned k = 0; k < n && all; k++)
						{
							size_t i = i0 + (size_t)k * t;
							all = i < chain.size() && mc::same_bits(chain[i].first, got[k].first) && mc::same_bits(chain[i].second, got[k].second);
						}
						found = all;
					}
					if(!found) fail("metropolis", key, "samples_not_thinned_chain_states_after_burn_in", "the returned values are not the chain's states at iterations >= burn_in spaced by thinning");
					if(variant == 0)
						for(auto& v : got)
							if(!(v.first >= -1 && v.first <= 1)) { fail("metropolis", key, "sample_outside_domain", mc::dec(v.first)); break; }
				}
		}
}

// ---- targets with bounded support, plateaus and zero-density regions: reproducibility, purity, containment ---------------------
static void targets(unsigned long long& unit)
{
	struct T1 { const char* name; std::function<double(double)> pdf; double slo, shi; };	// support [slo,shi]
	std::vector<T1> t1 = {
		{"positive_bump", pdf1, -INFINITY, INFINITY},
		{"triangle", [](double x) { return std::max(0.0, 1.0 - std::fabs(x)); }, -1, 1},
		{"box_1_2", [](double x) { return (x > 1 && x < 2) ? 1.0 : 0.0; }, 1, 2},
		{"half_exponential", [](double x) { return x > 0 ? std::exp(-x) : 0.0; }, 0, INFINITY},
	};
	std::vector<V> domains = {V{}, V{-3, 4}, V{0.5, 2.5}};
	unsigned nseeds = mc::thorough() ? 32 : 8;
	for(auto& t : t1)
		for(auto& dom : domains)
			for(double sigma : {0.3, 1.5})
			{
				if(!mc::mine(unit++)) continue;
				for(unsigned seed = 0; seed < nseeds; seed++)
				{
					std::string key = std::string("Sample_Metropolis,target=") + t.name + ",domain=" + (dom.empty() ? "unbounded" : mc::decv(dom)) + ",sigma=" + mc::dec(sigma) + ",seed=" + std::to_string(seed);
					std::mt19937 g1(seed), g2(seed);
					unsigned long before = g_foreign_entropy;
					V a, b;
					if(mc::library_exits([&]() { a = Sample_Metropolis(g1, t.pdf, sigma, 40, 3, 50, dom); b = Sample_Metropolis(g2, t.pdf, sigma, 40, 3, 50, dom); })) { fail("targets", key, "terminated_process", "ended the process"); continue; }
					g_cases++;
					if(g_foreign_entropy != before) { fail("targets", key, "foreign_entropy_used", "random_device/rand/random/getrandom consulted"); g_foreign_entropy = before; }
					bool same = a.size() == b.size() && g1 == g2;
					for(size_t i = 0; same && i < a.size(); i++) same = mc::same_bits(a[i], b[i]);
					if(!same) fail("targets", key, "not_reproducible", "equal generator states gave different chains or left different states");
					if(a.size() != 40) fail("targets", key, "wrong_number_of_samples", std::to_string(a.size()) + " samples for sample=40");
					bool inside = false;
					for(double x : a)
					{
						if(!dom.empty() && !(x >= dom[0] && x <= dom[1])) { fail("targets", key, "outside_domain", "x = " + mc::dec(x)); break; }
						bool in = x >= t.slo && x <= t.shi && t.pdf(x) > 0;
						if(inside && !in) { fail("targets", key, "left_the_support", "a chain that had reached the support returned x = " + mc::dec(x) + " where the density vanishes"); break; }
						inside = inside || in;
					}
				}
			}
	// 2D
	struct T2 { const char* name; std::function<double(double, double)> pdf; };
	std::vector<T2> t2 = {
		{"positive_bump", pdf2},
		{"disc", [](double x, double y) { return x * x + y * y < 1 ? 1.0 : 0.0; }},
		{"half_plane_gauss", [](double x, double y) { return x > 0 ? std::exp(-x * x - y * y) : 0.0; }},
	};
	std::vector<V> dom2 = {V{}, V{-2, 3, -1, 1.5}, V{-0.5, 0.5, -3, 3}};
	for(auto& t : t2)
		for(auto& dom : dom2)
		{
			if(!mc::mine(unit++)) continue;
			for(unsigned seed = 0; seed < nseeds; seed++)
			{
				std::string key = std::string("Sample_Metropolis_2D,target=") + t.name + ",domain=" + (dom.empty() ? "unbounded" : mc::decv(dom)) + ",seed=" + std::to_string(seed);
				std::mt19937 g1(seed), g2(seed);
				unsigned long before = g_foreign_entropy;
				std::vector<std::pair<double, double>> a, b;
				if(mc::library_exits([&]() { a = Sample_Metropolis_2D(g1, t.pdf, {0.4, 0.7}, 30, 2, 40, dom); b = Sample_Metropolis_2D(g2, t.pdf, {0.4, 0.7}, 30, 2, 40, dom); })) { fail("targets", key, "terminated_process", "ended the process"); continue; }
				g_cases++;
				if(g_foreign_entropy != before) { fail("targets", key, "foreign_entropy_used", "random_device/rand/random/getrandom consulted"); g_foreign_entropy = before; }
				bool same = a.size() == b.size() && g1 == g2;
				for(size_t i = 0; same && i < a.size(); i++) same = mc::same_bits(a[i].first, b[i].first) && mc::same_bits(a[i].second, b[i].second);
				if(!same) fail("targets", key, "not_reproducible", "equal generator states gave different chains or left different states");
				if(a.size() != 30) fail("targets", key, "wrong_number_of_samples", std::to_string(a.size()) + " samples for sample=30");
				bool inside = false;
				for(auto& q : a)
				{
					if(!dom.empty() && !(q.first >= dom[0] && q.first <= dom[1] && q.second >= dom[2] && q.second <= dom[3])) { fail("targets", key, "outside_domain", "(" + mc::dec(q.first) + "," + mc::dec(q.second) + ")"); break; }
					bool in = t.pdf(q.first, q.second) > 0;
					if(inside && !in) { fail("targets", key, "left_the_support", "a chain that had reached the support returned a point where the density vanishes"); break; }
					inside = inside || in;
				}
			}
		}
	// targets that vanish at and around the internally drawn start (unbounded domain): after a burn-in that is long for the
	// walk through the empty region (steps of width 0.3 against a half width of 2: a direct jump into the support is a 5-sigma
	// event, a free walk stays inside for 1600 steps in 1D / 800 steps in 2D with probability below 1e-19),
	// every returned value lies in the support
	{
		std::function<double(double)> gap = [](double x) { return std::fabs(x) < 2 ? 0.0 : std::exp(-(std::fabs(x) - 2)); };
		std::function<double(double, double)> ring = [](double x, double y) { double r = std::sqrt(x * x + y * y); return (r < 2 || r > 4) ? 0.0 : 1.0; };
		std::function<double(double, double)> shell = [](double x, double y) { double r = std::sqrt(x * x + y * y); return r < 2 ? 0.0 : std::exp(-(r - 2)); };
		for(unsigned seed = 0; seed < nseeds; seed++)
		{
			if(!mc::mine(unit++)) continue;
			std::string key = "start_outside_support,seed=" + std::to_string(seed);
			std::mt19937 g(seed);
			V a;
			std::vector<std::pair<double, double>> b, c;
			if(mc::library_exits([&]() { a = Sample_Metropolis(g, gap, 0.3, 20, 1, 1600); b = Sample_Metropolis_2D(g, ring, {0.3, 0.3}, 20, 1, 800); c = Sample_Metropolis_2D(g, shell, {0.4, 0.3}, 20, 2, 800); })) { fail("targets", key, "terminated_process", "ended the process"); continue; }
			g_cases++;
			if(a.size() != 20 || b.size() != 20 || c.size() != 20) fail("targets", key, "wrong_number_of_samples", std::to_string(a.size()) + "/" + std::to_string(b.size()) + "/" + std::to_string(c.size()) + " samples for sample=20");
			for(double x : a) if(!(gap(x) > 0)) { fail("targets", key + ",sampler=Sample_Metropolis", "value_outside_support_after_burn_in", "x = " + mc::dec(x) + " where the density vanishes"); break; }
			for(auto& q : b) if(!(ring(q.first, q.second) > 0)) { fail("targets", key + ",sampler=Sample_Metropolis_2D,target=ring", "value_outside_support_after_burn_in", "(" + mc::dec(q.first) + "," + mc::dec(q.second) + ") where the density vanishes"); break; }
			for(auto& q : c) if(!(shell(q.first, q.second) > 0)) { fail("targets", key + ",sampler=Sample_Metropolis_2D,target=shell", "value_outside_support_after_burn_in", "(" + mc::dec(q.first) + "," + mc::dec(q.second) + ") where the density vanishes"); break; }
		}
	}
	// rejection and inverse-transform sampling with targets that vanish on part of the domain
	for(unsigned seed = 0; seed < nseeds; seed++)
	{
		if(!mc::mine(unit++)) continue;
		std::string key = "rejection_and_inverse_transform,seed=" + std::to_string(seed);
		std::mt19937 g1(seed), g2(seed);
		unsigned long before = g_foreign_entropy;
		auto tri = [](double x) { return std::max(0.0, 1.0 - std::fabs(x)); };
		std::function<double(double, double)> disc = [](double x, double y) { return x * x + y * y < 1 ? 1.0 : 0.0; };
		auto cdf_plateau = [](double x) { return x < 1 ? 0.5 * x : x < 2 ? 0.5 : 0.5 + 0.5 * (x - 2); };	// no mass on (1,2)
		V a, b;
		auto run = [&](std::mt19937& g, V& o) {
			for(int i = 0; i < 20; i++)
			{
				o.push_back(Rejection_Sampling(tri, -3, 3, 1.0, g));
				auto q = Rejection_Sampling_2D(g, disc, -2, 2, -1.5, 1.5, 1.0);
				o.push_back(q.first);
				o.push_back(q.second);
				o.push_back(Inverse_Transform_Sampling(cdf_plateau, 0, 3, g));
			}
		};
		if(mc::library_exits([&]() { run(g1, a); run(g2, b); })) { fail("targets", key, "terminated_process", "ended the process"); continue; }
		g_cases++;
		if(g_foreign_entropy != before) { fail("targets", key, "foreign_entropy_used", "random_device/rand/random/getrandom consulted"); g_foreign_entropy = before; }
		bool same = a.size() == b.size() && g1 == g2;
		for(size_t i = 0; same && i < a.size(); i++) same = mc::same_bits(a[i], b[i]);
		if(!same) fail("targets", key, "not_reproducible", "equal generator states gave different outputs or left different states");
		for(size_t i = 0; i + 3 < a.size(); i += 4)
		{
			if(!(std::fabs(a[i]) < 1)) fail("targets", key, "outside_support", "Rejection_Sampling(triangle) returned " + mc::dec(a[i]));
			if(!(a[i + 1] * a[i + 1] + a[i + 2] * a[i + 2] < 1)) fail("targets", key, "outside_support", "Rejection_Sampling_2D(disc) returned a point outside the disc");
			if(!(a[i + 3] >= 0 && a[i + 3] <= 3) || (a[i + 3] > 1 + 1e-6 && a[i + 3] < 2 - 1e-6)) fail("targets", key, "outside_support", "Inverse_Transform_Sampling returned " + mc::dec(a[i + 3]) + " where the CDF is flat");
		}
	}
}

// supplementary (deterministic, not exhaustive): Kolmogorov-Smirnov on real mt19937 streams
static void supplementary(unsigned long long& unit)
{
	for(unsigned seed = 0; seed < 8; seed++)
	{
		if(!mc::mine(unit++)) continue;
		int N = 20000;
		std::mt19937 g(seed);
		std::vector<double> a(N), b(N);
		for(int i = 0; i < N; i++) { a[i] = Sample_Uniform(g, 2, 5); b[i] = Sample_Gauss(g, -1, 3); }
		std::sort(a.begin(), a.end());
		std::sort(b.begin(), b.end());
		double da = 0, db = 0;
		for(int i = 0; i < N; i++)
		{
			double fa = (a[i] - 2) / 3, fb = (double)Phi(((ld)b[i] + 1) / 3);
			da = std::max({da, std::fabs(fa - (double)i / N), std::fabs(fa - (double)(i + 1) / N)});
			db = std::max({db, std::fabs(fb - (double)i / N), std::fabs(fb - (double)(i + 1) / N)});
		}
		// P(D > d) ~ 2 exp(-2 N d^2) = 1e-9 at d = sqrt(ln(2e9)/(2N))
		double crit = std::sqrt(std::log(2e9) / (2.0 * N));
		g_cases += 2;
		if(!(da <= crit)) fail("supplementary", "KS,Sample_Uniform,seed=" + std::to_string(seed), "ks_rejects_at_1e-9", "D = " + mc::dec(da));
		if(!(db <= crit + 6e-5)) fail("supplementary", "KS,Sample_Gauss,seed=" + std::to_string(seed), "ks_rejects_at_1e-9", "D = " + mc::dec(db));
	}
}

int main(int argc, char** argv)
{
	mc::init(argc, argv);
	if(mc::ctx().replay) { printf("%s\n(no single-case replay for this part; use ./vcheck --replay <file>, which re-runs the enumeration for this key)\n", mc::ctx().replay_case.c_str()); return 0; }
	start_zygote();	  // before anything else touches the library
	int fd = open("/dev/null", O_WRONLY);
	dup2(fd, 1);
	dup2(fd, 2);
	// self-test of the scripting device
	for(uint32_t w : {0u, 1u, 0x80000000u, 0xdeadbeefu, 0xffffffffu})
		if(mc::mt_temper(mc::mt_untemper(w)) != w) { fprintf(stderr, "FATAL: tempering inverse wrong\n"); return 3; }
	{
		std::mt19937 g = mc::scripted_uniforms({0.25L, 0.123456789L});
		if(Sample_Uniform(g, 0, 1) != 0.25 || std::fabs(Sample_Uniform(g, 0, 1) - 0.123456789) > 1e-15) { fprintf(stderr, "FATAL: scripted generator does not deliver the scripted uniforms\n"); return 3; }
	}
	mc::bound("rule", "the caller's std::mt19937 is scripted (state loaded through operator>> with inverted tempering) so that the uniforms each sampler sees are enumerated on complete grids; interleavings: every sequence of sampler letters up to the depth bound from two seeds, every further letter compared with a pristine process; Metropolis: kernel checked rule by rule on a grid of (start, proposal, acceptance) uniforms and all (sample,thinning,burn_in) triples of the stated grid; state = generator state after a history, transition = one sampler call");
	mc::bound("assumptions", "the rule-by-rule law oracles assume the algorithm families in the code: Knuth's product rule for Sample_Poisson, accept-the-first-pair-under-the-density for rejection sampling, inversion of the CDF for Inverse_Transform_Sampling, random-walk Metropolis with Gaussian proposals (start, proposal, acceptance drawn in that order); a change of family needs a new oracle ;; Sample_Uniform and Sample_Gauss are classified at run time by the generator words one sample consumes (one uniform: sharp quantile oracle for u or 1-u; otherwise the enumerated output distribution over the grid of the first two uniforms)");
	unsigned long long unit = 0;
	interleavings(unit);
	laws(unit);
	metropolis(unit);
	targets(unit);
	supplementary(unit);
	if(g_foreign_entropy) fail("purity", "whole_run", "foreign_entropy_used", std::to_string(g_foreign_entropy) + " calls to random_device/rand/random/getrandom");
	mc::count("evaluations", g_cases);
	mc::count("distinct_nontrivial", g_cases);
	close(z_req);
	return mc::finish();
}
