// C19 — Partition, grid, search, list and summary-statistics helpers meet their specs.
// M3: the finite parts are enumerated completely.
#include "mc/mc.hpp"
#include <climits>
#include "mc/exit_trap.hpp"
#include "mc/purity.hpp"
#include <iostream>
#include <vector>
#include <string>
#include "libphysica/Utilities.hpp"
#include "libphysica/List_Manipulations.hpp"
#include "libphysica/Statistics.hpp"
using namespace libphysica;
typedef long double ld;

static long long g_cases = 0;
static void fail(const std::string& part, const std::string& key, const std::string& cls, const std::string& text) { mc::violation(part, part + "|" + key + "|" + cls, text, part + " " + key); }

static void workload(unsigned long long& unit)
{
	unsigned W = mc::thorough() ? 128 : 32, T = mc::thorough() ? 1024 : 256;
	mc::bound("workload", "all (workers,tasks) in [1," + std::to_string(W) + "]x[0," + std::to_string(T) + "]");
	for(unsigned w = 1; w <= W; w++)
	{
		if(!mc::mine(unit++)) continue;
		for(unsigned t = 0; t <= T; t++)
		{
			std::string key = "workers=" + std::to_string(w) + ",tasks=" + std::to_string(t);
			std::vector<int> v;
			if(mc::library_exits([&]() { v = Workload_Distribution(w, t); })) { fail("workload", key, "terminated_process", "ended the process"); continue; }
			g_cases++;
			if(v.size() != w + 1) { fail("workload", key, "wrong_length", std::to_string(v.size()) + " indices"); continue; }
			if(v.front() != 0 || v.back() != (int)t) fail("workload", key, "does_not_span_0_to_tasks", "first " + std::to_string(v.front()) + " last " + std::to_string(v.back()));
			int lo = INT32_MAX, hi = INT32_MIN;
			for(unsigned i = 0; i < w; i++) { int d = v[i + 1] - v[i]; lo = std::min(lo, d); hi = std::max(hi, d); }
			if(lo < 0) fail("workload", key, "not_non_decreasing", "a negative share");
			if(hi - lo > 1) fail("workload", key, "shares_differ_by_more_than_one", "smallest share " + std::to_string(lo) + " largest " + std::to_string(hi));
		}
	}
}

static void ranges(unsigned long long& unit)
{
	for(int mn = -40; mn <= 40; mn++)
	{
		if(!mc::mine(unit++)) continue;
		for(int mx = -40; mx <= 40; mx++)
			for(int st = 1; st <= 40; st++)
			{
				std::vector<int> v = Range(mn, mx, st), e;
				g_cases++;
				if(mn < mx) for(int i = mn; i < mx; i += st) e.push_back(i);
				else for(int i = mn; i > mx; i -= st) e.push_back(i);
				if(v != e) fail("range", "min=" + std::to_string(mn) + ",max=" + std::to_string(mx) + ",step=" + std::to_string(st), "wrong_elements", std::to_string(v.size()) + " elements, expected " + std::to_string(e.size()));
			}
		std::vector<int> v = Range(mn), e;
		if(mn >= 0) for(int i = 0; i < mn; i++) e.push_back(i);
		else for(int i = 0; i > mn; i--) e.push_back(i);
		if(v != e) fail("range", "Range(" + std::to_string(mn) + ")", "wrong_elements", "Range(max) is not the half-open range from 0 towards max");
	}
}

static void spaces(unsigned long long& unit)
{
	unsigned S = mc::thorough() ? 2000 : 200;
	mc::bound("spaces", "all steps 0.." + std::to_string(S) + " x (min,max) alphabet incl. reversed and equal ends");
	std::vector<std::pair<double, double>> lin = {{0, 1}, {-3, 5}, {1e-3, 2e-3}, {5, -3}, {1e6, 1e6 + 1}, {2, 2}, {-1e-9, 1e9}};
	std::vector<std::pair<double, double>> lg = {{1, 10}, {1e-6, 1e6}, {3, 3.0001}, {1e6, 1e-6}, {2, 2}, {1e-300, 1e300}};
	for(unsigned st = 0; st <= S; st++)
	{
		if(!mc::mine(unit++)) continue;
		for(int which = 0; which < 2; which++)
			for(auto& mm : (which ? lg : lin))
			{
				double mn = mm.first, mx = mm.second;
				std::vector<double> v = which ? Log_Space(mn, mx, st) : Linear_Space(mn, mx, st);
				g_cases++;
				std::string key = std::string(which ? "Log_Space" : "Linear_Space") + "(" + mc::dec(mn) + "," + mc::dec(mx) + "," + std::to_string(st) + ")";
				if(st < 2 || mn == mx)
				{
					if(v.size() != 1 || v[0] != mn) fail("spaces", key, "degenerate_request", "expected {min}");
					continue;
				}
				if(v.size() != st) { fail("spaces", key, "wrong_number_of_points", std::to_string(v.size()) + " points"); continue; }
				double scale = std::max(std::fabs(mn), std::fabs(mx));
				if(which == 0 ? v[0] != mn : !(std::fabs(v[0] - mn) <= 4 * mc::U_ * std::fabs(mn) * (1 + std::fabs(std::log(mn))))) fail("spaces", key, "does_not_start_at_min", "first point " + mc::dec(v[0]));
				double endtol = which == 0 ? 2 * mc::U_ * scale * 2 : 4 * mc::U_ * std::fabs(mx) * (2 + std::fabs(std::log(mn)) + std::fabs(std::log(mx)));
				if(!(std::fabs(v.back() - mx) <= endtol)) fail("spaces", key, "does_not_end_at_max", "last point " + mc::dec(v.back()) + " max " + mc::dec(mx));
				double dir = mx > mn ? 1 : -1;
				ld step = which ? (logl((ld)mx) - logl((ld)mn)) / (st - 1.0L) : ((ld)mx - mn) / (st - 1.0L);
				bool mono = true;
				double worst = 0;
				for(unsigned i = 1; i < st; i++)
				{
					if(!((v[i] - v[i - 1]) * dir > 0)) mono = false;
					ld d = which ? logl((ld)v[i]) - logl((ld)v[i - 1]) : (ld)v[i] - v[i - 1];
					ld tol = which ? 16 * mc::U_ * (2 + fabsl(logl((ld)mn)) + fabsl(logl((ld)mx))) : 8 * mc::U_ * scale;   // rounding of the exponent logmin + i*dlog
					worst = std::max(worst, (double)(fabsl(d - step) / tol));
				}
				// strict monotonicity can only be asked when the spacing is resolvable
				bool resolvable = which ? fabsl(step) > 8 * mc::U_ * (2 + std::fabs(std::log(scale))) : fabsl(step) > 8 * mc::U_ * scale;
				if(!mono && resolvable) fail("spaces", key, "not_strictly_monotone", "points are not strictly monotone");
				if(!(worst <= 1)) fail("spaces", key, "not_equally_spaced", "largest deviation of a spacing from (max-min)/(steps-1): " + mc::dec(worst) + " tolerances");
			}
	}
}

static void closest(unsigned long long& unit)
{
	auto check = [&](const std::vector<double>& L, const std::string& lname) {
		std::vector<double> targets;
		for(size_t i = 0; i < L.size(); i++)
		{
			targets.push_back(L[i]);
			targets.push_back(std::nextafter(L[i], -INFINITY));
			targets.push_back(std::nextafter(L[i], INFINITY));
			if(i + 1 < L.size()) { targets.push_back(0.5 * (L[i] + L[i + 1])); targets.push_back(L[i] + 0.25 * (L[i + 1] - L[i])); }
		}
		targets.push_back(L.front() - 1);
		targets.push_back(L.back() + 1);
		targets.push_back(-1e300);
		targets.push_back(1e300);
		for(double t : targets)
		{
			unsigned idx = 0;
			std::string key = "list=" + lname + ",target=" + mc::dec(t);
			if(mc::library_exits([&]() { idx = Locate_Closest_Location(L, t); })) { fail("closest", key, "terminated_process", "sorted list rejected"); continue; }
			g_cases++;
			if(idx >= L.size()) { fail("closest", key, "index_out_of_range", "index " + std::to_string(idx)); continue; }
			double best = INFINITY;
			for(double x : L) best = std::min(best, std::fabs(x - t));
			if(!(std::fabs(L[idx] - t) == best)) fail("closest", key, "not_a_nearest_element", "returned element " + mc::dec(L[idx]) + " at distance " + mc::dec(std::fabs(L[idx] - t)) + ", nearest is at distance " + mc::dec(best));
		}
	};
	// all non-decreasing lists over {0,1,2,3} of length 1..6
	for(int len = 1; len <= 6; len++)
	{
		mc::Product P(std::vector<int>(len, 4));
		do
		{
			bool sorted = true;
			for(int i = 1; i < len; i++) if(P.idx[i] < P.idx[i - 1]) sorted = false;
			if(!sorted) continue;
			if(!mc::mine(unit++)) continue;
			std::vector<double> L(P.idx.begin(), P.idx.end());
			check(L, mc::decv(L));
		} while(P.next());
	}
	for(int len : {7, 16, 33, 64})
		for(int pat = 0; pat < 4; pat++)
		{
			if(!mc::mine(unit++)) continue;
			std::vector<double> L;
			double x = -3;
			for(int i = 0; i < len; i++)
			{
				L.push_back(x);
				x += pat == 0 ? 1 : pat == 1 ? ((i % 3) ? 0 : 0.5) : pat == 2 ? std::pow(2.0, i % 11) * 1e-3 : ((i * i) % 5 == 0 ? 0 : 1e-9 * (i + 1));
			}
			check(L, "pattern" + std::to_string(pat) + "_len" + std::to_string(len));
		}
}

template <class T> static void list_templates(const std::vector<T>& A, const std::string& tname, unsigned long long& unit)
{
	// all lists of length 0..4 over the alphabet
	std::vector<std::vector<T>> all;
	for(int len = 0; len <= 4; len++)
	{
		if(len == 0) { all.push_back({}); continue; }
		mc::Product P(std::vector<int>(len, (int)A.size()));
		do
		{
			std::vector<T> v;
			for(int i : P.idx) v.push_back(A[i]);
			all.push_back(v);
		} while(P.next());
	}
	for(size_t a = 0; a < all.size(); a++)
	{
		if(!mc::mine(unit++)) continue;
		const auto& v = all[a];
		int n = v.size();
		std::string key = tname + ",list#" + std::to_string(a);
		// Sub_List: all i1 in [-2,n+1], i2 in [0,n+2]
		// ... and the extreme index values of both parameter types ("until the end" markers)
		std::vector<int> i1s;
		std::vector<unsigned> i2s;
		for(int i1 = -2; i1 <= n + 1; i1++) i1s.push_back(i1);
		for(unsigned i2 = 0; i2 <= (unsigned)n + 2; i2++) i2s.push_back(i2);
		for(int x : {INT_MIN, INT_MIN + 1, -1000000, INT_MAX - 1, INT_MAX}) i1s.push_back(x);
		for(unsigned x : {(unsigned)INT_MAX - 1, (unsigned)INT_MAX, (unsigned)INT_MAX + 1u, UINT_MAX - 1, UINT_MAX, 1000000u}) i2s.push_back(x);
		for(int i1 : i1s)
			for(unsigned i2 : i2s)
			{
				std::vector<T> e;
				for(long long i = std::max<long long>(i1, 0); i <= std::min<long long>((long long)i2, n - 1); i++) e.push_back(v[i]);
				std::vector<T> s = Sub_List(v, i1, i2);
				g_cases++;
				if(s != e) fail("lists", key + ",Sub_List(" + std::to_string(i1) + "," + std::to_string(i2) + ")", "sub_list_wrong", std::to_string(s.size()) + " elements, expected " + std::to_string(e.size()));
			}
		for(const T& x : A)
		{
			bool c = false;
			std::vector<int> idx;
			for(int i = 0; i < n; i++) if(v[i] == x) { c = true; idx.push_back(i); }
			g_cases++;
			if(List_Contains(v, x) != c) fail("lists", key, "list_contains_wrong", "List_Contains disagrees with the definition");
			if(Find_Indices(v, x) != idx) fail("lists", key, "find_indices_wrong", "Find_Indices disagrees with the definition");
		}
		// pairs: only against a stride of partners to keep it quadratic-light but complete for short lists
		for(size_t b = 0; b < all.size(); b += (all.size() > 200 ? 7 : 1))
		{
			const auto& w = all[b];
			g_cases++;
			if(Lists_Equal(v, w) != (v == w)) fail("lists", key + ",vs#" + std::to_string(b), "lists_equal_wrong", "Lists_Equal disagrees with ==");
			std::vector<T> c = v;
			c.insert(c.end(), w.begin(), w.end());
			if(Combine_Lists(v, w) != c) fail("lists", key + ",vs#" + std::to_string(b), "combine_wrong", "Combine_Lists is not concatenation");
			std::vector<std::vector<T>> vv{v, w}, ww{w, v};
			if(Lists_Equal(vv, ww) != (vv == ww) || !Lists_Equal(vv, vv)) fail("lists", key + ",vs#" + std::to_string(b), "nested_lists_equal_wrong", "nested Lists_Equal disagrees with ==");
			std::vector<T> fl = Flatten_List(vv);
			if(fl != c) fail("lists", key + ",vs#" + std::to_string(b), "flatten_wrong", "Flatten_List is not concatenation");
			if(v.size() == w.size() && !v.empty())
			{
				auto t = Transpose_Lists(v, w);
				bool ok = t.size() == v.size();
				for(size_t i = 0; ok && i < v.size(); i++) ok = t[i].size() == 2 && t[i][0] == v[i] && t[i][1] == w[i];
				if(!ok) fail("lists", key + ",vs#" + std::to_string(b), "transpose_wrong", "Transpose_Lists(v1,v2) wrong");
				auto tt = Transpose_Lists(t);
				if(tt.size() != 2 || tt[0] != v || tt[1] != w) fail("lists", key + ",vs#" + std::to_string(b), "transpose_not_involution", "transposing twice does not give the original lists");
			}
		}
	}
}

static void summary_statistics(unsigned long long& unit)
{
	// dyadic data: all arithmetic exact
	const double al[] = {0, 1, -2, 0.5, 3, -0.25, 8};
	for(int n = 2; n <= 6; n++)
		for(int pat = 0; pat < 5; pat++)
		{
			if(!mc::mine(unit++)) continue;
			std::vector<double> base;
			for(int i = 0; i < n; i++) base.push_back(al[(i * (pat + 2) + pat) % 7] + (pat == 4 ? i : 0));
			std::vector<double> sorted = base;
			std::sort(sorted.begin(), sorted.end());
			ld mean = 0, var = 0;
			for(double x : base) mean += x;
			mean /= n;
			for(double x : base) var += (x - mean) * (x - mean);
			var /= (n - 1);
			double med = n % 2 ? sorted[n / 2] : (sorted[n / 2 - 1] + sorted[n / 2]) / 2;
			std::vector<int> p(n);
			for(int i = 0; i < n; i++) p[i] = i;
			double m0 = 0, v0 = 0;
			bool first = true;
			do
			{
				std::vector<double> d(n);
				for(int i = 0; i < n; i++) d[i] = base[p[i]];
				std::string key = "data=" + mc::decv(d);
				g_cases++;
				double m = Arithmetic_Mean(d), v = Variance(d), s = Standard_Deviation(d);
				std::vector<double> dm = d;
				double md = Median(dm);
				if(!(std::fabs(m - (double)mean) <= 4 * mc::U_ * (std::fabs((double)mean) + 8))) fail("summary", key, "mean_wrong", "mean " + mc::dec(m) + " expected " + mc::dec((double)mean));
				if(!(std::fabs(v - (double)var) <= 16 * n * mc::U_ * ((double)var + 64))) fail("summary", key, "variance_wrong", "variance " + mc::dec(v) + " two-pass reference " + mc::dec((double)var));
				if(!(std::fabs(s - std::sqrt(v)) <= 2 * mc::U_ * s)) fail("summary", key, "standard_deviation_not_sqrt_variance", "sd " + mc::dec(s));
				if(md != med) fail("summary", key, "median_wrong", "median " + mc::dec(md) + " expected " + mc::dec(med));
				if(first) { m0 = m; v0 = v; first = false; }
				if(!(std::fabs(m - m0) <= 4 * mc::U_ * (std::fabs(m0) + 8)) || !(std::fabs(v - v0) <= 16 * n * mc::U_ * (v0 + 64))) fail("summary", key, "not_permutation_invariant", "mean/variance change under permutation beyond rounding");
				// translation and scaling by powers of two (exact)
				for(double sc : {4.0, 0.125, -2.0, std::ldexp(1.0, -60), std::ldexp(-1.0, -200), std::ldexp(1.0, 60), std::ldexp(1.0, 300)})
				{
					std::vector<double> t(n);
					for(int i = 0; i < n; i++) t[i] = sc * d[i];
					if(!mc::same_bits(Arithmetic_Mean(t), sc * m) && !(m == 0)) fail("summary", key, "mean_not_scale_equivariant", "scale " + mc::dec(sc));
					if(!mc::same_bits(Variance(t), sc * sc * v)) fail("summary", key, "variance_not_scale_equivariant", "scale " + mc::dec(sc));
					// the standard deviation scales with |scale| (a power of two: exactly), at every magnitude of the data
					double st = Standard_Deviation(t);
					if(!mc::same_bits(st, std::fabs(sc) * s)) fail("summary", key, "standard_deviation_not_scale_equivariant", "scale " + mc::dec(sc) + ": " + mc::dec(st) + " instead of " + mc::dec(std::fabs(sc) * s));
					std::vector<DataPoint> dp;
					for(double x : t) dp.push_back(DataPoint(x, 1.0));
					std::vector<double> wa = Weighted_Average(dp);
					double se = std::sqrt((double)var / n) * std::fabs(sc);
					if(wa.size() != 2 || !(std::fabs(wa[1] - se) <= 64 * n * mc::U_ * (se + 8 * std::fabs(sc)))) fail("summary", key, "equal_weights_do_not_reduce_to_mean", "scale " + mc::dec(sc) + ": standard error " + (wa.size() == 2 ? mc::dec(wa[1]) : "?") + " expected " + mc::dec(se));
				}
				{
					std::vector<double> t(n);
					for(int i = 0; i < n; i++) t[i] = d[i] + 16.0;
					if(!(std::fabs(Arithmetic_Mean(t) - (m + 16)) <= 8 * mc::U_ * 32) || !(std::fabs(Variance(t) - v) <= 32 * n * mc::U_ * (v + 64))) fail("summary", key, "translation_law_violated", "shift by 16");
				}
				// large translations (powers of two, the shifted data are exact): the variance may lose (u*shift)^2 through the
				// rounded mean, never u*shift^2 (that is the cancellation of a sum-of-squares formula)
				for(double sh : {1048576.0, -134217728.0, 8589934592.0, 1099511627776.0})
				{
					std::vector<double> t(n);
					for(int i = 0; i < n; i++) t[i] = d[i] + sh;
					double us = mc::U_ * std::fabs(sh);
					double vt = Variance(t), mt = Arithmetic_Mean(t), st = Standard_Deviation(t);
					if(!(std::fabs(mt - (m + sh)) <= 8 * us)) fail("summary", key, "translation_law_violated", "mean after shift by " + mc::dec(sh) + " = " + mc::dec(mt));
					if(!(std::fabs(vt - v) <= 32 * n * mc::U_ * (v + 64) + 8 * n * us * us)) fail("summary", key, "translation_law_violated", "variance after shift by " + mc::dec(sh) + " = " + mc::dec(vt) + ", before " + mc::dec(v));
					if(!(std::fabs(st - std::sqrt(vt)) <= 2 * mc::U_ * st) && !(vt == 0 && st == 0)) fail("summary", key, "standard_deviation_not_sqrt_variance", "sd " + mc::dec(st) + " after shift by " + mc::dec(sh));
				}
				// equal weights: plain mean, standard error s/sqrt(N)
				for(double w : {1.0, 0.25, 4.0})
				{
					std::vector<DataPoint> dp;
					for(double x : d) dp.push_back(DataPoint(x, w));
					std::vector<double> wa = Weighted_Average(dp);
					double se = std::sqrt((double)var / n);
					if(wa.size() != 2 || !(std::fabs(wa[0] - (double)mean) <= 8 * mc::U_ * (std::fabs((double)mean) + 8)) || !(std::fabs(wa[1] - se) <= 64 * n * mc::U_ * (se + 8))) fail("summary", key, "equal_weights_do_not_reduce_to_mean", "Weighted_Average = " + (wa.size() == 2 ? mc::dec(wa[0]) + " +- " + mc::dec(wa[1]) : "?") + " expected " + mc::dec((double)mean) + " +- " + mc::dec(se));
				}
			} while(std::next_permutation(p.begin(), p.end()));
		}
	// unequal weights: translation, scaling, permutation and weight-scaling laws, and Cochran's ratio-variance formula
	for(int n = 2; n <= 7; n++)
		for(int pat = 0; pat < 6; pat++)
		{
			if(!mc::mine(unit++)) continue;
			std::vector<double> xs, ws;
			for(int i = 0; i < n; i++) { xs.push_back(al[(i * (pat + 3) + 1) % 7] + 0.5 * i); ws.push_back(0.25 * (1 + (i * (pat + 2) + pat) % 5)); }
			// pattern 5: unequal weights whose sum is exactly the number of points (mean weight exactly one)
			if(pat == 5) { for(int i = 0; i < n; i++) ws[i] = 1.0; ws[0] = 0.5; ws[n - 1] = 1.5; if(n >= 4) { ws[1] = 1.75; ws[2] = 0.25; } }
			auto wa = [&](const std::vector<double>& x, const std::vector<double>& w) { std::vector<DataPoint> d; for(size_t i = 0; i < x.size(); i++) d.push_back(DataPoint(x[i], w[i])); return Weighted_Average(d); };
			std::vector<double> r = wa(xs, ws);
			std::string key = "weighted,x=" + mc::decv(xs) + ",w=" + mc::decv(ws);
			g_cases++;
			ld sw = 0, swx = 0;
			for(int i = 0; i < n; i++) { sw += ws[i]; swx += (ld)ws[i] * xs[i]; }
			ld xb = swx / sw, wb = sw / n, s1 = 0, s2 = 0, s3 = 0;
			for(int i = 0; i < n; i++) { ld a = (ld)ws[i] * xs[i] - wb * xb, b = ws[i] - wb; s1 += a * a; s2 += b * a; s3 += b * b; }
			ld se = sqrtl((ld)n / (n - 1) / (sw * sw) * (s1 - 2 * xb * s2 + xb * xb * s3));
			double scale = 64 * n * mc::U_ * (std::fabs((double)xb) + 16);
			if(r.size() != 2 || !(std::fabs(r[0] - (double)xb) <= scale)) fail("summary", key, "weighted_mean_wrong", "weighted mean " + (r.size() ? mc::dec(r[0]) : std::string("?")) + " expected " + mc::dec((double)xb));
			else if(!(std::fabs(r[1] - (double)se) <= 1e-12 * ((double)se + 1))) fail("summary", key, "weighted_standard_error_wrong", "standard error " + mc::dec(r[1]) + ", Cochran's ratio-variance formula gives " + mc::dec((double)se));
			if(r.size() == 2)
			{
				// translation by a dyadic constant: mean shifts, standard error unchanged
				std::vector<double> xt = xs;
				for(double& x : xt) x += 16.0;
				std::vector<double> t = wa(xt, ws);
				if(!(std::fabs(t[0] - (r[0] + 16)) <= scale) || !(std::fabs(t[1] - r[1]) <= 1e-11 * (r[1] + 1))) fail("summary", key, "weighted_translation_law_violated", "after x -> x+16: " + mc::dec(t[0]) + " +- " + mc::dec(t[1]) + ", before: " + mc::dec(r[0]) + " +- " + mc::dec(r[1]));
				// scaling of the data by powers of two (exact), scaling of all weights (no effect)
				for(double sc : {4.0, -0.5})
				{
					std::vector<double> xsx = xs;
					for(double& x : xsx) x *= sc;
					std::vector<double> u = wa(xsx, ws);
					if(!(std::fabs(u[0] - sc * r[0]) <= scale * std::fabs(sc)) || !(std::fabs(u[1] - std::fabs(sc) * r[1]) <= 1e-12 * (std::fabs(sc) * r[1] + 1))) fail("summary", key, "weighted_scaling_law_violated", "scale " + mc::dec(sc));
					std::vector<double> wsx = ws;
					for(double& w : wsx) w *= std::fabs(sc);
					std::vector<double> v = wa(xs, wsx);
					if(!(std::fabs(v[0] - r[0]) <= scale) || !(std::fabs(v[1] - r[1]) <= 1e-12 * (r[1] + 1))) fail("summary", key, "weight_scaling_changes_result", "all weights multiplied by " + mc::dec(std::fabs(sc)));
				}
				// permutation (reverse and rotate)
				std::vector<double> xr(xs.rbegin(), xs.rend()), wr(ws.rbegin(), ws.rend());
				std::vector<double> q = wa(xr, wr);
				if(!(std::fabs(q[0] - r[0]) <= scale) || !(std::fabs(q[1] - r[1]) <= 1e-12 * (r[1] + 1))) fail("summary", key, "weighted_not_permutation_invariant", "reversed order gives " + mc::dec(q[0]) + " +- " + mc::dec(q[1]));
			}
		}
	// longer data sets: rotations and reversal, median against sorting
	for(int n : {7, 20, 63, 200})
	{
		if(!mc::mine(unit++)) continue;
		std::vector<double> base;
		for(int i = 0; i < n; i++) base.push_back(((i * i * 7 + 3 * i) % 64) / 8.0 - 3);
		std::vector<double> sorted = base;
		std::sort(sorted.begin(), sorted.end());
		double med = n % 2 ? sorted[n / 2] : (sorted[n / 2 - 1] + sorted[n / 2]) / 2;
		double m0 = Arithmetic_Mean(base), v0 = Variance(base);
		for(int r = 0; r < n; r++)
		{
			std::vector<double> d(n);
			for(int i = 0; i < n; i++) d[i] = base[(i + r) % n];
			if(r % 2) std::reverse(d.begin(), d.end());
			g_cases++;
			std::string key = "n=" + std::to_string(n) + ",rotation=" + std::to_string(r);
			if(!(std::fabs(Arithmetic_Mean(d) - m0) <= 4 * n * mc::U_ * 8) || !(std::fabs(Variance(d) - v0) <= 16 * n * mc::U_ * (v0 + 64))) fail("summary", key, "not_permutation_invariant", "mean/variance change under rotation");
			std::vector<double> dm = d;
			if(Median(dm) != med) fail("summary", key, "median_wrong", "median differs from the sorted definition");
		}
	}
}

// ---- element-wise equality means operator== of the elements: +0 equals -0, NaN equals nothing ------------------------------------------
static void special_values()
{
	const double nan = std::nan(""), inf = INFINITY;
	std::vector<std::vector<double>> lists = {{0.0}, {-0.0}, {nan}, {0.0, 1.0}, {-0.0, 1.0}, {1.0, nan}, {inf}, {-inf}, {inf, -0.0, 2.5}, {inf, 0.0, 2.5}, {}};
	for(size_t i = 0; i < lists.size(); i++)
		for(size_t j = 0; j < lists.size(); j++)
		{
			bool want = lists[i].size() == lists[j].size();
			for(size_t k = 0; want && k < lists[i].size(); k++) want = lists[i][k] == lists[j][k];
			g_cases++;
			std::string key = "double,a=" + mc::decv(lists[i]) + ",b=" + mc::decv(lists[j]);
			if(Lists_Equal(lists[i], lists[j]) != want) fail("lists", key, "lists_equal_not_elementwise", std::string("Lists_Equal = ") + (want ? "false" : "true") + " but the element-wise comparison says " + (want ? "true" : "false"));
			std::vector<std::vector<double>> ni{lists[i], {1.5}}, nj{lists[j], {1.5}};
			if(Lists_Equal(ni, nj) != want) fail("lists", key + ",nested", "lists_equal_not_elementwise", "nested Lists_Equal disagrees with the element-wise comparison");
		}
	// neighbouring doubles are different elements (List_Contains, Find_Indices, Lists_Equal are exact comparisons)
	{
		double a = 0.3, b = 0.1 + 0.2, c = std::nextafter(0.3, 0.0), d = 1.0, e = std::nextafter(1.0, 2.0), f = std::nextafter(std::nextafter(1.0, 2.0), 2.0), g = 1e300, h = std::nextafter(1e300, 0.0);
		std::vector<double> nb{a, b, c, d, e, f, g, h, a, e};
		for(double x : nb)
		{
			std::vector<int> idx;
			for(int i = 0; i < (int)nb.size(); i++) if(nb[i] == x) idx.push_back(i);
			g_cases++;
			if(Find_Indices(nb, x) != idx || !List_Contains(nb, x)) fail("lists", "neighbouring_doubles,x=" + mc::hexd(x), "find_indices_not_elementwise", "Find_Indices / List_Contains do not compare exactly");
		}
		for(double x : {std::nextafter(0.3, 1.0) + 1e-16, std::nextafter(1e300, INFINITY), std::nextafter(1.0, 0.0)})
		{
			g_cases++;
			if(!Find_Indices(nb, x).empty() || List_Contains(nb, x)) fail("lists", "neighbouring_doubles,absent x=" + mc::hexd(x), "find_indices_not_elementwise", "an absent neighbour of a member is reported as found");
		}
		std::vector<double> nb2 = nb;
		nb2[4] = f;
		g_cases++;
		if(Lists_Equal(nb, nb2) || !Lists_Equal(nb, nb)) fail("lists", "neighbouring_doubles", "lists_equal_not_elementwise", "Lists_Equal does not compare exactly");
	}
	std::vector<double> v{1.0, -0.0, nan, 0.0, inf};
	g_cases++;
	if(!List_Contains(v, 0.0) || !List_Contains(v, -0.0) || List_Contains(v, nan) || !List_Contains(v, inf)) fail("lists", "special_values", "list_contains_not_elementwise", "List_Contains disagrees with operator== on 0.0/-0.0/NaN/inf");
	if(Find_Indices(v, 0.0) != std::vector<int>{1, 3} || Find_Indices(v, -0.0) != std::vector<int>{1, 3} || !Find_Indices(v, nan).empty()) fail("lists", "special_values", "find_indices_not_elementwise", "Find_Indices disagrees with operator== on 0.0/-0.0/NaN");
}

// ---- call histories: the helpers are functions of their arguments only ----------------------------------------------------------------
static void histories(unsigned long long& unit)
{
	auto dv = [](const std::vector<double>& v) { return mc::hexv(v); };
	auto iv = [](const std::vector<int>& v) { std::string o; for(int x : v) o += std::to_string(x) + ","; return o; };
	std::vector<mc::PureLetter> L;
	L.push_back({"Workload_Distribution(7,61)", [=]() { return iv(Workload_Distribution(7, 61)); }});
	L.push_back({"Workload_Distribution(3,2)", [=]() { return iv(Workload_Distribution(3, 2)); }});
	L.push_back({"Range(5)", [=]() { return iv(Range(5)); }});
	L.push_back({"Range(-3)", [=]() { return iv(Range(-3)); }});
	L.push_back({"Range(2,11,4)", [=]() { return iv(Range(2, 11, 4)); }});
	L.push_back({"Range(9,-2,3)", [=]() { return iv(Range(9, -2, 3)); }});
	L.push_back({"Linear_Space(0,1,7)", [=]() { return dv(Linear_Space(0, 1, 7)); }});
	L.push_back({"Linear_Space(5,-2,4)", [=]() { return dv(Linear_Space(5, -2, 4)); }});
	L.push_back({"Log_Space(1e-3,1e4,6)", [=]() { return dv(Log_Space(1e-3, 1e4, 6)); }});
	L.push_back({"Log_Space(1e300,1e-300,3)", [=]() { return dv(Log_Space(1e300, 1e-300, 3)); }});
	L.push_back({"Locate_Closest_Location({0,1,1,3},2)", [=]() { return std::to_string(Locate_Closest_Location({0, 1, 1, 3}, 2.0)); }});
	L.push_back({"Locate_Closest_Location({-5,2,8},-9)", [=]() { return std::to_string(Locate_Closest_Location({-5, 2, 8}, -9.0)); }});
	L.push_back({"Sub_List({1,2,3,4},1,2)", [=]() { return dv(Sub_List(std::vector<double>{1, 2, 3, 4}, 1, 2)); }});
	L.push_back({"Flatten_List", [=]() { return dv(Flatten_List(std::vector<std::vector<double>>{{1}, {}, {2, 3}})); }});
	L.push_back({"Find_Indices({a,b,a},a)", [=]() { return iv(Find_Indices(std::vector<std::string>{"a", "b", "a"}, std::string("a"))); }});
	L.push_back({"Arithmetic_Mean", [=]() { return mc::hexd(Arithmetic_Mean({1, 2, 4, 8, -3})); }});
	L.push_back({"Median(odd)", [=]() { std::vector<double> d{5, 1, 4, 2, 9}; return mc::hexd(Median(d)); }});
	L.push_back({"Median(even)", [=]() { std::vector<double> d{5, 1, 4, 2}; return mc::hexd(Median(d)); }});
	L.push_back({"Variance", [=]() { return mc::hexd(Variance({1, 2, 4, 8, -3})); }});
	L.push_back({"Standard_Deviation(1e9+...)", [=]() { return mc::hexd(Standard_Deviation({1e9 + 1, 1e9 + 2, 1e9 + 4})); }});
	L.push_back({"Weighted_Average", [=]() { std::vector<DataPoint> d{DataPoint(1, 0.5), DataPoint(2, 2), DataPoint(4, 1)}; return dv(Weighted_Average(d)); }});
	g_cases += mc::purity("histories", L, mc::thorough() ? 3 : 2, unit);
}

int main(int argc, char** argv)
{
	mc::init(argc, argv);
	if(mc::ctx().replay) { printf("%s\n(no single-case replay for this part; use ./vcheck --replay <file>, which re-runs the enumeration for this key)\n", mc::ctx().replay_case.c_str()); return 0; }
	int fd = open("/dev/null", O_WRONLY);
	dup2(fd, 2);
	mc::bound("rule", "complete enumeration of the finite parts: all (workers,tasks), all integer (min,max,step) for Range, all step counts for Linear_Space/Log_Space on a (min,max) alphabet, all non-decreasing lists over {0,1,2,3} up to length 6 with all element/midpoint/+-ulp/outside targets, all lists of length 0..4 over 3-letter alphabets of int, double and std::string with all Sub_List index pairs (also under ASan), all permutations of dyadic data sets n<=6");
	unsigned long long unit = 0;
	list_templates<int>({0, 1, -7}, "int", unit);
	list_templates<double>({0.0, 1.5, -2.25}, "double", unit);
	list_templates<std::string>({"", "a", "bc"}, "string", unit);
	if(!mc::asan_mode())
	{
		workload(unit);
		ranges(unit);
		spaces(unit);
		closest(unit);
		summary_statistics(unit);
		if(mc::shard0()) special_values();
		histories(unit);
	}
	mc::count("evaluations", g_cases);
	mc::count("distinct_nontrivial", g_cases);
	if(mc::shard0()) mc::sample("Workload_Distribution(7,23) -> 8 indices from 0 to 23 with shares differing by at most 1; Sub_List({a,bc,a},-1,5) -> whole list; Locate_Closest_Location({0,1,1,3}, 2.0) -> an index of an element at distance 1");
	return mc::finish();
}
