// C16 — Rotations and spherical coordinates are geometrically correct for every axis.
// M3: complete products angle x axis (x length) and (r, theta, phi) x axis.
#include "mc/mc.hpp"
#include <sstream>
#include "mc/exit_trap.hpp"
#include "mc/purity.hpp"
#include "libphysica/Linear_Algebra.hpp"
using namespace libphysica;
typedef long double ld;
static const double K = 32;	// (R^T R)_ij sums three products of entries that each carry about 5u (normalised axis 2u, two products, one sum): 3*2*5u

struct Axis { double x, y, z; std::string name; };

static std::vector<Axis> axes()
{
	std::vector<Axis> A;
	auto add = [&](double x, double y, double z, const std::string& n) { A.push_back({x, y, z, n}); };
	for(int s = -1; s <= 1; s += 2) { add(s, 0, 0, "coord"); add(0, s, 0, "coord"); add(0, 0, s, "coord"); }
	for(int a = -1; a <= 1; a += 2)
		for(int b = -1; b <= 1; b += 2)
		{
			for(int c = -1; c <= 1; c += 2) add(a, b, c, "body_diagonal");
			add(a, b, 0, "face_diagonal"); add(a, 0, b, "face_diagonal"); add(0, a, b, "face_diagonal");
		}
	int perm[6][3] = {{1, 2, 3}, {1, 3, 2}, {2, 1, 3}, {2, 3, 1}, {3, 1, 2}, {3, 2, 1}};
	for(auto& p : perm)
		for(int s = 0; s < 8; s++) add((s & 1 ? -1 : 1) * p[0], (s & 2 ? -1 : 1) * p[1], (s & 4 ? -1 : 1) * p[2], "perm123");
	if(mc::thorough())
		for(int i = 1; i < 12; i++)
			for(int j = 0; j < 24; j++) add(std::sin(M_PI * i / 12) * std::cos(2 * M_PI * j / 24 + 0.01), std::sin(M_PI * i / 12) * std::sin(2 * M_PI * j / 24 + 0.01), std::cos(M_PI * i / 12), "lattice");
	for(double d : {1e-12, 1e-8, 1e-4})
		for(int pole = -1; pole <= 1; pole += 2)
			for(int dir = 0; dir < 4; dir++)
			{
				double az = dir * 1.3 + 0.2;
				add(std::sin(d) * std::cos(az), std::sin(d) * std::sin(az), pole * std::cos(d), "near_pole_" + mc::dec(d));
			}
	return A;
}

static std::vector<double> angles()
{
	std::vector<double> a;
	int den = mc::thorough() ? 48 : 12;
	for(int k = -4 * den; k <= 4 * den; k++) a.push_back(k * M_PI / den);
	for(double x : {1.0, -2.7, 0.123456789, 11.0}) a.push_back(x);
	// small angles and angles next to the multiples of pi/2 (where a series shortcut or a reconstructed sine/cosine would lose accuracy)
	for(double d : {1e-12, 1e-9, 1e-6, 1e-4, 5e-4, 9.9e-4, 1.1e-3, 1e-2})
		for(double base : {0.0, M_PI / 2, M_PI, -M_PI / 2, 2 * M_PI})
		{
			a.push_back(base + d);
			a.push_back(base - d);
		}
	return a;
}

static void fail(const std::string& part, const std::string& key, const std::string& cls, const std::string& text) { mc::violation(part, part + "|" + key + "|" + cls, text, key); }

static void rotations(unsigned long long& unit)
{
	auto A = axes();
	auto ang = angles();
	mc::alphabet("axes", A.size());
	mc::alphabet("axis_lengths", 7);
	mc::alphabet("angles", ang.size());
	long long cases = 0;
	for(size_t ai = 0; ai < A.size(); ai++)
		for(double len : {1e-6, 1.0, 1e6, -1.0, -2.0, -3.0, -4.0})
		{
			if(!mc::mine(unit++)) continue;
			ld nx = A[ai].x, ny = A[ai].y, nz = A[ai].z, nn = sqrtl(nx * nx + ny * ny + nz * nz);
			nx /= nn; ny /= nn; nz /= nn;
			// negative codes: axes of length (almost) one - normalised in binary64, and 1 +- 3e-7, 1 + 1e-9 times that
			if(len < 0)
			{
				double d0 = std::sqrt(A[ai].x * A[ai].x + A[ai].y * A[ai].y + A[ai].z * A[ai].z);
				len = (len == -1.0 ? 1.0 : len == -2.0 ? 1.0 + 3e-7 : len == -3.0 ? 1.0 - 3e-7 : 1.0 + 1e-9) / d0;
			}
			Vector axis({A[ai].x * len, A[ai].y * len, A[ai].z * len});
			// two vectors perpendicular to the axis
			ld px = ny, py = -nx, pz = 0;
			if(fabsl(nx) < 0.5 && fabsl(ny) < 0.5) { px = 0; py = nz; pz = -ny; }
			ld pn = sqrtl(px * px + py * py + pz * pz);
			px /= pn; py /= pn; pz /= pn;
			ld cx = ny * pz - nz * py, cy = nz * px - nx * pz, cz = nx * py - ny * px;	 // n x p
			for(size_t i = 0; i < ang.size(); i++)
			{
				double al	   = ang[i];
				std::string key = "axis=" + mc::dec(A[ai].x * len) + "," + mc::dec(A[ai].y * len) + "," + mc::dec(A[ai].z * len) + ";alpha=" + mc::dec(al);
				Matrix R;
				if(mc::library_exits([&]() { R = Rotation_Matrix(al, 3, axis); })) { fail("rotation3d", key, "terminated_process", "valid rotation request ended the process"); continue; }
				cases++;
				double eo = 0;
				for(int a = 0; a < 3; a++)
					for(int b = 0; b < 3; b++)
					{
						ld s = 0;
						for(int k = 0; k < 3; k++) s += (ld)R[k][a] * R[k][b];
						eo = std::max(eo, (double)fabsl(s - (a == b)));
					}
				if(!(eo <= K * mc::U_)) fail("rotation3d", key, "not_orthogonal", "max |R^T R - I| = " + mc::dec(eo));
				mc::maxi("rotation_orthogonality_in_u", eo / mc::U_);
				ld det = (ld)R[0][0] * ((ld)R[1][1] * R[2][2] - (ld)R[1][2] * R[2][1]) - (ld)R[0][1] * ((ld)R[1][0] * R[2][2] - (ld)R[1][2] * R[2][0]) + (ld)R[0][2] * ((ld)R[1][0] * R[2][1] - (ld)R[1][1] * R[2][0]);
				if(!(fabsl(det - 1) <= K * mc::U_)) fail("rotation3d", key, "determinant_not_one", "det = " + mc::dec((double)det));
				// axis fixed
				ld n[3] = {nx, ny, nz}, p[3] = {px, py, pz}, c[3] = {cx, cy, cz};
				ld ca = cosl((ld)al), sa = sinl((ld)al);
				double ea = 0, ep = 0;
				for(int a = 0; a < 3; a++)
				{
					ld rn = 0, rp = 0;
					for(int k = 0; k < 3; k++) { rn += R[a][k] * n[k]; rp += R[a][k] * p[k]; }
					ea = std::max(ea, (double)fabsl(rn - n[a]));
					ep = std::max(ep, (double)fabsl(rp - (ca * p[a] + sa * c[a])));
				}
				if(!(ea <= K * mc::U_)) fail("rotation3d", key, "axis_not_fixed", "max |R n - n| = " + mc::dec(ea));
				if(!(ep <= K * mc::U_)) fail("rotation3d", key, "perpendicular_vector_not_turned_by_alpha", "max |R v - (cos a v + sin a n x v)| = " + mc::dec(ep));
				// composition with the next angle of the list
				double be = ang[(i * 7 + 3) % ang.size()];
				Matrix Rb = Rotation_Matrix(be, 3, axis), Rab = Rotation_Matrix(al + be, 3, axis);
				Matrix P  = R * Rb;
				double ec = 0;
				for(int a = 0; a < 3; a++)
					for(int b = 0; b < 3; b++) ec = std::max(ec, std::fabs(P[a][b] - Rab[a][b]));
				double tc = (K + 2 * (std::fabs(al) + std::fabs(be))) * mc::U_;
				if(!(ec <= tc)) fail("rotation3d", key + ";beta=" + mc::dec(be), "composition_not_additive", "max |R(a)R(b) - R(a+b)| = " + mc::dec(ec) + " tol " + mc::dec(tc));
			}
		}
	// 2D
	if(mc::mine(unit++))
		for(size_t i = 0; i < ang.size(); i++)
		{
			double al = ang[i];
			std::string key = "alpha=" + mc::dec(al);
			Matrix R = Rotation_Matrix(al, 2);
			cases++;
			ld ca = cosl((ld)al), sa = sinl((ld)al);
			if(R.Rows() != 2 || R.Columns() != 2) { fail("rotation2d", key, "shape", "not 2x2"); continue; }
			double e = std::max({(double)fabsl(R[0][0] - ca), (double)fabsl(R[0][1] + sa), (double)fabsl(R[1][0] - sa), (double)fabsl(R[1][1] - ca)});
			if(!(e <= 4 * mc::U_)) fail("rotation2d", key, "entries_wrong", "max deviation from ((cos,-sin),(sin,cos)) = " + mc::dec(e));
			ld det = (ld)R[0][0] * R[1][1] - (ld)R[0][1] * R[1][0];
			if(!(fabsl(det - 1) <= K * mc::U_)) fail("rotation2d", key, "determinant_not_one", "det = " + mc::dec((double)det));
			double be = ang[(i * 7 + 3) % ang.size()];
			Matrix P = R * Rotation_Matrix(be, 2), Rab = Rotation_Matrix(al + be, 2);
			double ec = 0;
			for(int a = 0; a < 2; a++)
				for(int b = 0; b < 2; b++) ec = std::max(ec, std::fabs(P[a][b] - Rab[a][b]));
			if(!(ec <= (K + 2 * (std::fabs(al) + std::fabs(be))) * mc::U_)) fail("rotation2d", key + ";beta=" + mc::dec(be), "composition_not_additive", "max |R(a)R(b) - R(a+b)| = " + mc::dec(ec));
		}
	mc::count("rotation_cases", cases);
	mc::count("evaluations", cases);
	mc::count("distinct_nontrivial", cases);
}

static void spherical(unsigned long long& unit)
{
	auto A = axes();
	std::vector<double> thetas, phis;
	for(int k = 0; k <= 22; k++) thetas.push_back(M_PI * k / 22);
	thetas.push_back(1e-8);
	thetas.push_back(M_PI - 1e-8);
	for(int k = 0; k < 24; k++) phis.push_back(2 * M_PI * k / 24);
	// azimuths next to the multiples of pi/2, for the exact-azimuth relation below (not part of the equally spaced ring)
	std::vector<double> phis_fine;
	for(double base : {0.0, M_PI / 2, M_PI, 3 * M_PI / 2})
		for(double d : {1e-9, 1e-6, 3e-6, 1e-5, 1e-3})
		{
			if(base + d < 2 * M_PI) phis_fine.push_back(base + d);
			if(base - d >= 0) phis_fine.push_back(base - d);
		}
	phis_fine.push_back(2 * M_PI - 1e-6);
	mc::alphabet("phi_fine", phis_fine.size());
	mc::alphabet("theta", thetas.size());
	mc::alphabet("phi", phis.size());
	long long cases = 0, righthanded = 0;
	for(size_t ai = 0; ai < A.size(); ai++)
		for(double len : {1e-6, 1.0, 1e6})
		{
			if(!mc::mine(unit++)) continue;
			ld nx = A[ai].x, ny = A[ai].y, nz = A[ai].z, nn = sqrtl(nx * nx + ny * ny + nz * nz);
			nx /= nn; ny /= nn; nz /= nn;
			Vector axis({A[ai].x * len, A[ai].y * len, A[ai].z * len});
			bool plusz = A[ai].x == 0 && A[ai].y == 0 && A[ai].z > 0;
			for(double r : {1e-3, 1.0, 1e3, 1e-6, 1e6})
				for(double th : thetas)
				{
					std::vector<std::vector<double>> ring;
					for(double ph : phis)
					{
						std::string key = "axis=" + mc::dec(A[ai].x * len) + "," + mc::dec(A[ai].y * len) + "," + mc::dec(A[ai].z * len) + ";r=" + mc::dec(r) + ";theta=" + mc::dec(th) + ";phi=" + mc::dec(ph);
						Vector v;
						if(mc::library_exits([&]() { v = Spherical_Coordinates(r, th, ph, axis); })) { fail("spherical_axis", key, "terminated_process", "valid request ended the process"); continue; }
						cases++;
						ld norm = sqrtl((ld)v[0] * v[0] + (ld)v[1] * v[1] + (ld)v[2] * v[2]);
						ld dot	= v[0] * nx + v[1] * ny + v[2] * nz;
						if(!(fabsl(norm - r) <= K * mc::U_ * r)) fail("spherical_axis", key, "norm_not_r", "norm " + mc::dec((double)norm));
						if(!(fabsl(dot - r * cosl((ld)th)) <= K * mc::U_ * r)) fail("spherical_axis", key, "polar_angle_wrong", "v.n = " + mc::dec((double)dot) + " expected r cos(theta) = " + mc::dec((double)(r * cosl((ld)th))));
						mc::maxi("spherical_norm_error_in_u", (double)(fabsl(norm - r) / r / mc::U_));
						mc::maxi("spherical_polar_error_in_u", (double)(fabsl(dot - r * cosl((ld)th)) / r / mc::U_));
						ring.push_back({v[0], v[1], v[2]});
						if(plusz)
						{
							Vector w = Spherical_Coordinates(r, th, ph);
							// (the same vector to rounding: the statement does not promise identical bits between the two overloads)
							if(!(std::fabs(w[0] - v[0]) <= 8 * mc::U_ * r && std::fabs(w[1] - v[1]) <= 8 * mc::U_ * r && std::fabs(w[2] - v[2]) <= 8 * mc::U_ * r)) fail("spherical_axis", key, "axis_plus_z_differs_from_plain", "axis +z must give the plain spherical coordinates (to rounding)");
						}
					}
					// exact azimuth: with e1 the direction of v(phi=0) perpendicular to n and e2 = n x e1,
				// v(phi) = r (cos(theta) n + sin(theta) (cos(phi) e1 + sin(phi) e2)) for every phi, in particular next to pi/2 and 3pi/2
				if(ring.size() == phis.size() && std::sin(th) > 1e-3)
				{
					ld v0[3] = {ring[0][0], ring[0][1], ring[0][2]}, n[3] = {nx, ny, nz}, e1[3], e2[3];
					ld d0 = v0[0] * n[0] + v0[1] * n[1] + v0[2] * n[2], m = 0;
					for(int k = 0; k < 3; k++) { e1[k] = v0[k] - d0 * n[k]; m += e1[k] * e1[k]; }
					m = sqrtl(m);
					for(int k = 0; k < 3; k++) e1[k] /= m;
					e2[0] = n[1] * e1[2] - n[2] * e1[1]; e2[1] = n[2] * e1[0] - n[0] * e1[2]; e2[2] = n[0] * e1[1] - n[1] * e1[0];
					std::vector<double> all = phis;
					all.insert(all.end(), phis_fine.begin(), phis_fine.end());
					for(double ph : all)
					{
						Vector v;
						if(mc::library_exits([&]() { v = Spherical_Coordinates(r, th, ph, axis); })) continue;
						cases++;
						ld worst = 0;
						for(int k = 0; k < 3; k++)
						{
							ld want = r * (cosl((ld)th) * n[k] + sinl((ld)th) * (cosl((ld)ph) * e1[k] + sinl((ld)ph) * e2[k]));
							worst = std::max(worst, fabsl(v[k] - want));
						}
						// the frame comes from the library's own v(0): its rounding error enters once more, amplified by 1/sin(theta)
						ld tol = (64 + 16 / sinl((ld)th)) * mc::U_ * r;
						if(!(worst <= tol)) fail("spherical_axis", "axis=" + mc::dec(A[ai].x * len) + "," + mc::dec(A[ai].y * len) + "," + mc::dec(A[ai].z * len) + ";r=" + mc::dec(r) + ";theta=" + mc::dec(th) + ";phi=" + mc::dec(ph), "azimuth_not_phi", "v(phi) deviates by " + mc::dec((double)worst) + " from the point at azimuth phi counted from v(0) (tol " + mc::dec((double)tol) + ")");
						else mc::maxi("spherical_azimuth_error_over_tol", (double)(worst / tol));
					}
				}
				// right-handedness: n . (v(phi) x v(phi+d)) > 0 whenever sin(theta) is resolvable
					if(ring.size() == phis.size() && std::sin(th) > 1e-6)
						for(size_t k = 0; k < ring.size(); k++)
						{
							auto &a = ring[k], &b = ring[(k + 1) % ring.size()];
							ld tx = (ld)a[1] * b[2] - (ld)a[2] * b[1], ty = (ld)a[2] * b[0] - (ld)a[0] * b[2], tz = (ld)a[0] * b[1] - (ld)a[1] * b[0];
							ld tp = tx * nx + ty * ny + tz * nz;
							ld expect = (ld)r * r * sinl((ld)th) * sinl((ld)th) * sinl(2 * M_PIl / 24);
							righthanded++;
							if(!(fabsl(tp - expect) <= 1e-6L * expect))
								fail("spherical_axis", "axis=" + mc::dec(A[ai].x * len) + "," + mc::dec(A[ai].y * len) + "," + mc::dec(A[ai].z * len) + ";r=" + mc::dec(r) + ";theta=" + mc::dec(th) + ";phi_index=" + std::to_string(k), "not_right_handed_in_phi", "n.(v(phi) x v(phi+d)) = " + mc::dec((double)tp) + " expected " + mc::dec((double)expect));
						}
				}
		}
	// call histories: the answer for an axis does not depend on the axis of the previous call (all ordered pairs of axes)
	{
		const double r = 1.5, th = 1.1, ph = 0.7;
		for(size_t i = 0; i < A.size(); i++)
		{
			if(!mc::mine(unit++)) continue;
			for(size_t j = 0; j < A.size(); j++)
				for(double lj : {1.0, 2.5})
				{
					Vector ai({A[i].x, A[i].y, A[i].z}), aj({A[j].x * lj, A[j].y * lj, A[j].z * lj}), far({0.3, -0.4, 0.5});
					Vector v1, v2;
					// v1: the request made after an unrelated axis; v2: the same request made directly after a call with axis i
					if(mc::library_exits([&]() { Spherical_Coordinates(r, th, ph, far); v1 = Spherical_Coordinates(r, th, ph, aj); Spherical_Coordinates(r, th, ph, far); Spherical_Coordinates(r, 0.3, 2.0, ai); v2 = Spherical_Coordinates(r, th, ph, aj); })) continue;
					cases++;
					mc::count("axis_history_pairs", 1);
					if(!(mc::same_bits(v1[0], v2[0]) && mc::same_bits(v1[1], v2[1]) && mc::same_bits(v1[2], v2[2])))
						fail("spherical_history", "previous_axis=" + mc::dec(A[i].x) + "," + mc::dec(A[i].y) + "," + mc::dec(A[i].z) + ";axis=" + mc::dec(A[j].x * lj) + "," + mc::dec(A[j].y * lj) + "," + mc::dec(A[j].z * lj), "depends_on_previous_axis", "the same request gives (" + mc::dec(v2[0]) + "," + mc::dec(v2[1]) + "," + mc::dec(v2[2]) + ") after a call with another axis and (" + mc::dec(v1[0]) + "," + mc::dec(v1[1]) + "," + mc::dec(v1[2]) + ") otherwise");
				}
		}
	}
	// plain overload: closed form bitwise; Angle
	if(mc::mine(unit++))
		for(double r : {1e-3, 1.0, 1e3})
			for(double th : thetas)
				for(double ph : phis)
				{
					Vector v = Spherical_Coordinates(r, th, ph);
					cases++;
					double e[3] = {r * std::sin(th) * std::cos(ph), r * std::sin(th) * std::sin(ph), r * std::cos(th)};
					std::string key = "plain;r=" + mc::dec(r) + ";theta=" + mc::dec(th) + ";phi=" + mc::dec(ph);
					// to rounding: any association of the three factors is within 3u of the product
				if(!(std::fabs(v[0] - e[0]) <= 4 * mc::U_ * r && std::fabs(v[1] - e[1]) <= 4 * mc::U_ * r && std::fabs(v[2] - e[2]) <= 4 * mc::U_ * r)) fail("spherical_plain", key, "closed_form_differs", "not (r sin t cos p, r sin t sin p, r cos t)");
					if(th > 1e-3 && th < M_PI - 1e-3)
					{
						double an = Angle(v, Vector({0, 0, 2.5}));
						if(!(std::fabs(an - th) <= 64 * mc::U_ / std::sin(th))) fail("spherical_plain", key, "angle_to_z_not_theta", "Angle = " + mc::dec(an));
					}
				}
	// Angle between vectors of the axis alphabet: defined for every pair, also parallel and antiparallel ones
	if(mc::mine(unit++))
	{
		auto AX = axes();
		for(size_t i = 0; i < AX.size(); i += 2)
			for(size_t j = 0; j < AX.size(); j++)
				for(double sc : {1.0, -1.0, 1e-6, -3.7e5})
				{
					// j == i with the scale factors gives exactly parallel / antiparallel pairs
					Vector v({AX[i].x * 0.37, AX[i].y * 0.37, AX[i].z * 0.37}), w({AX[j].x * sc, AX[j].y * sc, AX[j].z * sc});
					double an = Angle(v, w);
					cases++;
					ld dot = (ld)v[0] * w[0] + (ld)v[1] * w[1] + (ld)v[2] * w[2];
					ld nv = sqrtl((ld)v[0] * v[0] + (ld)v[1] * v[1] + (ld)v[2] * v[2]), nw = sqrtl((ld)w[0] * w[0] + (ld)w[1] * w[1] + (ld)w[2] * w[2]);
					ld cr = dot / (nv * nw);
					std::string key = "angle;v=" + mc::dec(v[0]) + "," + mc::dec(v[1]) + "," + mc::dec(v[2]) + ";w=" + mc::dec(w[0]) + "," + mc::dec(w[1]) + "," + mc::dec(w[2]);
					if(!(an >= 0 && an <= M_PI)) fail("angle", key, "angle_not_in_0_pi", "Angle = " + mc::dec(an));
					else if(!(fabsl(cosl((ld)an) - cr) <= 8 * mc::U_)) fail("angle", key, "angle_wrong", "cos(Angle) = " + mc::dec(std::cos(an)) + " expected " + mc::dec((double)cr));
					if(!(std::fabs(an - Angle(w, v)) <= 4 * mc::U_ * M_PI)) fail("angle", key, "angle_not_symmetric", "Angle(v,w) != Angle(w,v)");
				}
	}
	mc::count("spherical_cases", cases);
	mc::count("right_handedness_checks", righthanded);
	mc::count("evaluations", cases);
	mc::count("distinct_nontrivial", cases);
}

// ---- the ends of "every r", "every non-zero axis": radii next to the ends of the double range, axes tilted from +-z by amounts whose
// squares are subnormal or underflow, and a lattice of integer axes run under a watchdog -------------------------------------------------
static void extremes(unsigned long long& unit)
{
	auto A = axes();
	std::vector<double> thetas;
	for(int k = 0; k <= 22; k += 2) thetas.push_back(M_PI * k / 22);
	thetas.push_back(1e-8);
	const double phis4[] = {0.0, 1.0, M_PI / 2, 4.0};
	long long cases = 0;
	// (a) radii
	for(size_t ai = 0; ai < A.size(); ai++)
	{
		if(!mc::mine(unit++)) continue;
		ld nx = A[ai].x, ny = A[ai].y, nz = A[ai].z, nn = sqrtl(nx * nx + ny * ny + nz * nz);
		nx /= nn; ny /= nn; nz /= nn;
		Vector axis({A[ai].x, A[ai].y, A[ai].z});
		for(double r : {1e154, 1e200, 1e300, 1.5e308, 1e-154, 1e-200, 1e-300})
			for(double th : thetas)
				for(double ph : phis4)
				{
					std::string key = "axis=" + mc::dec(A[ai].x) + "," + mc::dec(A[ai].y) + "," + mc::dec(A[ai].z) + ";r=" + mc::dec(r) + ";theta=" + mc::dec(th) + ";phi=" + mc::dec(ph);
					Vector v, w;
					if(mc::library_exits([&]() { v = Spherical_Coordinates(r, th, ph, axis); w = Spherical_Coordinates(r, th, ph); })) { fail("spherical_extremes", key, "terminated_process", "valid request ended the process"); continue; }
					cases++;
					ld norm = sqrtl((ld)v[0] * v[0] + (ld)v[1] * v[1] + (ld)v[2] * v[2]), dot = v[0] * nx + v[1] * ny + v[2] * nz;
					ld wn = sqrtl((ld)w[0] * w[0] + (ld)w[1] * w[1] + (ld)w[2] * w[2]);
					if(!(fabsl(norm - r) <= K * mc::U_ * r)) fail("spherical_extremes", key, "norm_not_r", "norm " + mc::dec((double)(norm / r)) + " r");
					if(!(fabsl(dot - r * cosl((ld)th)) <= K * mc::U_ * r)) fail("spherical_extremes", key, "polar_angle_wrong", "v.n / r = " + mc::dec((double)(dot / r)) + " expected cos(theta) = " + mc::dec((double)cosl((ld)th)));
					if(!(fabsl(wn - r) <= K * mc::U_ * r && fabsl(w[2] - r * cosl((ld)th)) <= K * mc::U_ * r)) fail("spherical_extremes", key, "plain_overload_wrong", "plain overload: norm " + mc::dec((double)(wn / r)) + " r");
				}
	}
	// (b) tilts
	for(double t : {1e-150, 1e-154, 1e-156, 1e-157, 1e-158, 1e-159, 1e-160, 1e-161, 3e-162, 1e-163, 1e-170, 1e-200, 1e-300, 4.9406564584124654e-324})
		for(int pole = -1; pole <= 1; pole += 2)
			for(int dir = 0; dir < 4; dir++)
			{
				if(!mc::mine(unit++)) continue;
				double ax = dir == 0 ? t : dir == 2 ? -t : dir == 3 ? t : 0, ay = dir == 1 ? t : dir == 3 ? -t : 0;
				for(double len : {1.0, 1e-6, 1e6})
				{
					Vector axis({ax * len, ay * len, pole * len});
					for(double r : {1.0, 1e3})
						for(double th : thetas)
						{
							std::vector<std::vector<double>> ring;
							for(int k = 0; k < 24; k++)
							{
								double ph = 2 * M_PI * k / 24;
								std::string key = "axis=" + mc::dec(ax * len) + "," + mc::dec(ay * len) + "," + mc::dec(pole * len) + ";r=" + mc::dec(r) + ";theta=" + mc::dec(th) + ";phi=" + mc::dec(ph);
								Vector v;
								if(mc::library_exits([&]() { v = Spherical_Coordinates(r, th, ph, axis); })) { fail("spherical_tilt", key, "terminated_process", "valid request ended the process"); continue; }
								cases++;
								ld norm = sqrtl((ld)v[0] * v[0] + (ld)v[1] * v[1] + (ld)v[2] * v[2]), dot = (ld)pole * v[2];	// the unit axis is +-z up to t
								if(!(fabsl(norm - r) <= K * mc::U_ * r)) fail("spherical_tilt", key, "norm_not_r", "norm " + mc::dec((double)norm));
								if(!(fabsl(dot - r * cosl((ld)th)) <= K * mc::U_ * r)) fail("spherical_tilt", key, "polar_angle_wrong", "v.n = " + mc::dec((double)dot) + " expected " + mc::dec((double)(r * cosl((ld)th))));
								ring.push_back({v[0], v[1], v[2]});
							}
							if(ring.size() == 24 && std::sin(th) > 1e-6)
								for(size_t k = 0; k < 24; k++)
								{
									auto &a = ring[k], &b = ring[(k + 1) % 24];
									ld tp = pole * ((ld)a[0] * b[1] - (ld)a[1] * b[0]);
									ld expect = (ld)r * r * sinl((ld)th) * sinl((ld)th) * sinl(2 * M_PIl / 24);
									if(!(fabsl(tp - expect) <= 1e-6L * expect)) fail("spherical_tilt", "axis=" + mc::dec(ax * len) + "," + mc::dec(ay * len) + "," + mc::dec(pole * len) + ";r=" + mc::dec(r) + ";theta=" + mc::dec(th) + ";phi_index=" + std::to_string(k), "not_right_handed_in_phi", "n.(v(phi) x v(phi+d)) = " + mc::dec((double)tp) + " expected " + mc::dec((double)expect));
								}
						}
				}
			}
	// (c) every integer axis (i,j,k) != 0 with |i|,|j|,|k| <= N (24; thorough 64), in batches, each batch in a child with a time limit: the child
	// announces the axis before the call, so an axis on which Rotation_Matrix never returns is named
	// (second lattice: the same indices mapped to generic binary fractions, x = 0.61803398875*i + 0.137 and so on, so that the
	// normalisation meets generic roundings instead of exactly representable sums of squares)
	int N = mc::thorough() ? 64 : 24;
	for(int lattice = 0; lattice < 2; lattice++)
	for(int i = -N; i <= N; i++)
	{
		if(!mc::mine(unit++)) continue;
		auto coord = [lattice](int q, int which) { return lattice == 0 ? (double)q : (which == 0 ? 0.61803398875 * q + 0.137 : which == 1 ? 0.41421356237 * q - 0.0731 : 1.32471795724 * q + 0.2113); };
		auto o = mc::isolate([&](std::function<void(const std::string&)> out) {
			for(int j = -N; j <= N; j++)
				for(int k = -N; k <= N; k++)
				{
					if(!i && !j && !k) continue;
					out("A " + std::to_string(j) + " " + std::to_string(k) + "\n");
					double ci = coord(i, 0), cj = coord(j, 1), ck = coord(k, 2);
					Matrix R = Rotation_Matrix(0.7, 3, Vector({ci, cj, ck}));
					ld worst = 0;
					for(int a = 0; a < 3; a++)
						for(int b = 0; b < 3; b++)
						{
							ld q = 0;
							for(int c = 0; c < 3; c++) q += (ld)R[c][a] * R[c][b];
							worst = std::max(worst, fabsl(q - (a == b)));
						}
					ld nn = sqrtl((ld)ci * ci + (ld)cj * cj + (ld)ck * ck), fx = 0;
					for(int a = 0; a < 3; a++) { ld q = (R[a][0] * (ld)ci + R[a][1] * (ld)cj + R[a][2] * (ld)ck) / nn - (a == 0 ? ci : a == 1 ? cj : ck) / nn; fx = std::max(fx, fabsl(q)); }
					if(!(worst <= K * mc::U_ && fx <= K * mc::U_)) out("F " + std::to_string(j) + " " + std::to_string(k) + " " + mc::dec((double)worst) + " " + mc::dec((double)fx) + "\n");
				}
		}, 60.0);
		cases += (2 * N + 1) * (2 * N + 1);
		std::string last, line;
		std::istringstream is(o.payload);
		while(std::getline(is, line))
		{
			if(line.rfind("A ", 0) == 0) last = line.substr(2);
			else if(line.rfind("F ", 0) == 0) fail("rotation_lattice", "lattice=" + std::to_string(lattice) + ",axis=" + std::to_string(i) + " " + line.substr(2), "not_orthogonal_or_axis_not_fixed", "R^T R - 1 and R n - n: " + line);
		}
		if(o.kind == mc::Outcome::TIMEOUT) fail("rotation_lattice", "lattice=" + std::to_string(lattice) + ",axis=" + std::to_string(i) + " " + last, "does_not_return", "Rotation_Matrix(0.7, 3, axis) did not return within the time limit");
		else if(o.kind != mc::Outcome::RETURNED) fail("rotation_lattice", "lattice=" + std::to_string(lattice) + ",axis=" + std::to_string(i) + " " + last, "terminated_process", std::string("the batch ended with ") + o.name());
	}
	mc::count("extreme_cases", cases);
}

// ---- call histories over rotations, spherical coordinates and angles ------------------------------------------------------------------
static void histories(unsigned long long& unit)
{
	auto ms = [](const Matrix& M) { std::string o; for(unsigned i = 0; i < M.Rows(); i++) for(unsigned j = 0; j < M.Columns(); j++) o += mc::hexd(M[i][j]) + ","; return o; };
	auto vs = [](const Vector& v) { std::string o; for(unsigned i = 0; i < v.Size(); i++) o += mc::hexd(v[i]) + ","; return o; };
	std::vector<mc::PureLetter> L;
	L.push_back({"Rotation_Matrix(0.7,2)", [=]() { return ms(Rotation_Matrix(0.7, 2)); }});
	L.push_back({"Rotation_Matrix(1e-6,2)", [=]() { return ms(Rotation_Matrix(1e-6, 2)); }});
	for(auto ax : std::vector<std::vector<double>>{{0, 0, 1}, {0, 0, -1}, {1, 2, 3}, {1, 2, -3}, {2, 1, 0}, {1e-9, 0, 1}})
		for(double al : {0.7, -11.0})
			L.push_back({"Rotation_Matrix(" + mc::dec(al) + ",3,{" + mc::decv(ax) + "})", [=]() { return ms(Rotation_Matrix(al, 3, Vector(ax))); }});
	L.push_back({"Spherical_Coordinates(2,1.1,0.7)", [=]() { return vs(Spherical_Coordinates(2, 1.1, 0.7)); }});
	for(auto ax : std::vector<std::vector<double>>{{0, 0, 1}, {0, 0, -1}, {1, 2, 3}, {1, 2, -3}, {2, 1, 0}, {2, 1, 3}, {1e-9, 0, -1}})
		L.push_back({"Spherical_Coordinates(2,1.1,0.7,{" + mc::decv(ax) + "})", [=]() { return vs(Spherical_Coordinates(2, 1.1, 0.7, Vector(ax))); }});
	L.push_back({"Angle({1,2,3},{-2,0.5,1})", [=]() { return mc::hexd(Angle(Vector({1, 2, 3}), Vector({-2, 0.5, 1}))); }});
	L.push_back({"Angle(parallel)", [=]() { return mc::hexd(Angle(Vector({0.1, 0.2, 0.3}), Vector({0.1, 0.2, 0.3}))); }});
	long long t = mc::purity("histories", L, mc::thorough() ? 3 : 2, unit);
	mc::count("evaluations", t);
	mc::count("distinct_nontrivial", t);
}

int main(int argc, char** argv)
{
	mc::init(argc, argv);
	if(mc::ctx().replay) { printf("%s\n(no single-case replay for this part; use ./vcheck --replay <file>, which re-runs the enumeration for this key)\n", mc::ctx().replay_case.c_str()); return 0; }
	mc::bound("rule", "complete products: 97 multiples of pi/12 in [-4pi,4pi] + 4 irrational angles x axes (6 coordinate, 8 body-diagonal, 12 face-diagonal, 48 signed permutations of (1,2,3), 24 directions within 1e-12/1e-8/1e-4 of +-z) x 3 lengths; spherical: r x 25 polar x 24 azimuthal x the same axes; every case is one library call checked against long-double geometry");
	unsigned long long unit = 0;
	rotations(unit);
	spherical(unit);
	extremes(unit);
	histories(unit);
	if(mc::shard0()) mc::sample("Spherical_Coordinates(r=1, theta=pi/22, phi=pi/12, axis=(0,0,-1e6)): norm, v.n = r cos(theta), right-handed ring in phi; Rotation_Matrix(alpha=7pi/12, axis=(1,-2,3)): orthogonal, det 1, axis fixed, perpendicular vector turned by alpha");
	return mc::finish();
}
