// C11 — Minimisers never end worse than they started and converge on convex bowls.
// M2: the harness plays the objective (all answer sequences at the first D evaluations, default = convex bowl);
// M3: complete products of unimodal 1D objectives / quadratic bowls x starts x tolerances.
#include "mc/mc.hpp"
#include "mc/exit_trap.hpp"
#include "mc/purity.hpp"
#include "libphysica/Numerics.hpp"
#include <map>
using namespace libphysica;
typedef long double ld;

static const std::vector<double> ANS = {-1, 0, 1e-24, 1, 2};	// choice 0 = default bowl, 1..5 = these (0 and 1e-24 differ by less than any absolute threshold a routine might use)

static std::string g_current;
static void silence()
{
	int fd = open("/dev/null", O_WRONLY);
	dup2(fd, 1);
	dup2(fd, 2);
}

template <class Key> struct Env
{
	std::map<Key, double> memo;
	std::vector<Key> order;
	std::vector<int> sched;
	int newq = 0, window = 0, used = 0;
	bool frozen = false;
	std::function<double(const Key&)> bowl;
	double operator()(const Key& x)
	{
		order.push_back(x);
		auto it = memo.find(x);
		if(it != memo.end()) return it->second;
		double v;
		int c = 0;
		if(!frozen && newq < window)
		{
			if(newq >= (int)sched.size()) sched.push_back(0);
			c	 = sched[newq];
			used = newq + 1;
		}
		v = c == 0 ? bowl(x) : ANS[c - 1];
		newq++;
		memo[x] = v;
		return v;
	}
};

static std::string sched_str(const std::vector<int>& s, int n)
{
	std::string r;
	for(int i = 0; i < n && i < (int)s.size(); i++) r += (i ? "," : "") + std::to_string(s[i]);
	return r.empty() ? "-" : r;
}
// odometer over consumed choice points; false when exhausted
static bool next_schedule(std::vector<int>& s, int used, int radix)
{
	s.resize(used);
	int k = used;
	while(k > 0 && s[k - 1] == radix - 1) k--;
	if(k == 0) return false;
	s[k - 1]++;
	s.resize(k);
	return true;
}

struct Stats
{
	long long execs = 0, evals = 0, cps = 0;
	std::set<uint64_t> outcomes;
};

static void adversary_1d(unsigned long long& unit, Stats& st)
{
	int D = mc::thorough() ? 8 : 7;
	mc::bound("adversary_1d", "Find_Minimum/Find_Maximum: all answer sequences over {bowl value,-1,0,1e-24,1,2} at the first " + std::to_string(D) + " evaluations, afterwards the convex default bowl");
	struct Cfg { double a, b, tol, centre; };
	std::vector<Cfg> cfgs = {{0, 1, 3e-8, 7.3}, {1, 0, 1e-3, 7.3}, {-2, -1.999, 1e-6, -40.5}, {5, 6, 1e-10, 5.25}};
	const int R = ANS.size() + 1;
	for(auto& c : cfgs)
	for(int p0 = 0; p0 < R; p0++)
	for(int p1 = 0; p1 < R; p1++)
	{
		if(!mc::mine(unit++)) continue;
		std::vector<int> sched{p0, p1};
		long long n0 = st.execs;
		for(;;)
		{
			Env<double> e;
			e.window = D;
			e.sched	 = sched;
			e.bowl	 = [&c](const double& x) { return 4.0 + 0.03125 * (x - c.centre) * (x - c.centre); };
			std::function<double(double)> fn = [&e](double x) { return e(x); };
			g_current	   = "Find_Minimum a=" + mc::hexd(c.a) + " b=" + mc::hexd(c.b) + " tol=" + mc::hexd(c.tol) + " centre=" + mc::dec(c.centre) + " sched=" + sched_str(sched, D);
			double r = NAN;
			if(mc::library_exits([&]() { r = Find_Minimum(fn, c.a, c.b, c.tol); }))
			{
				// an iteration cap ended the process with a diagnostic: permitted for an arbitrary objective, counted
				mc::count("adversary_executions_ended_by_iteration_cap_exit", 1);
				st.execs++;
				sched = e.sched;
				if(!next_schedule(sched, e.used, R) || sched.size() < 2 || sched[0] != p0 || sched[1] != p1) break;
				continue;
			}
			st.execs++;
			st.evals += e.order.size();
			st.cps += e.used;
			st.outcomes.insert(mc::bits(r) ^ (e.order.size() << 48));
			std::string sk = sched_str(e.sched, e.used);
			auto viol	   = [&](const std::string& cls, const std::string& text) {
				 mc::violation("adversary1d", "adversary1d|a=" + mc::dec(c.a) + ",b=" + mc::dec(c.b) + ",tol=" + mc::dec(c.tol) + "|sched=" + sk + "|" + cls, text, g_current);
			};
			auto it = e.memo.find(r);
			if(it == e.memo.end()) viol("returned_point_not_evaluated", "returned " + mc::dec(r) + " which was never evaluated");
			else
			{
				double fr = it->second, fa = e.memo[c.a], fb = e.memo[c.b];
				if(!(fr <= fa && fr <= fb)) viol("worse_than_start", "f(returned)=" + mc::dec(fr) + " but f(start)=" + mc::dec(fa) + "," + mc::dec(fb));
				for(auto& kv : e.memo)
					if(kv.second < fr) { mc::count("executions_where_a_lower_value_was_seen_but_not_returned", 1); break; }
			}
			// Find_Maximum of -f: same queries, same bits
			{
				Env<double> e2;
				e2.memo = e.memo; e2.frozen = true; e2.bowl = e.bowl;
				std::function<double(double)> f2 = [&e2](double x) { return -e2(x); };
				double r2 = NAN;
				if(mc::library_exits([&]() { r2 = Find_Maximum(f2, c.a, c.b, c.tol); })) viol("maximum_of_minus_f_differs", "Find_Maximum(-f) ended the process although Find_Minimum(f) returned");
				st.execs++;
				if(!mc::same_bits(r, r2) || e2.order != e.order) viol("maximum_of_minus_f_differs", "Find_Minimum(f)=" + mc::dec(r) + " Find_Maximum(-f)=" + mc::dec(r2));
			}
			sched = e.sched;
			if(!next_schedule(sched, e.used, R) || sched.size() < 2 || sched[0] != p0 || sched[1] != p1) break;
			if((st.execs & 0xfff) == 0 && mc::out_of_time("C11 adversary 1d")) return;
		}
		if(p0 == 1 && p1 == 2) mc::sample("Find_Minimum start (" + mc::dec(c.a) + "," + mc::dec(c.b) + ") tol " + mc::dec(c.tol) + ": " + std::to_string((st.execs - n0) / 2) + " answer schedules at the first " + std::to_string(D) + " evaluations", 2);
	}
}

typedef std::vector<double> Vec;
static void adversary_nm(unsigned long long& unit, Stats& st)
{
	int D = mc::thorough() ? 8 : 7;
	mc::bound("adversary_nm", "Minimization::minimize in 1 and 2 dimensions: all answer sequences over {bowl value,-1,0,1e-24,1,2} at the first " + std::to_string(D) + " evaluations (initial simplex included)");
	struct Cfg { Vec start; double delta, ftol; Vec centre; };
	std::vector<Cfg> cfgs = {{{0.5}, 1.0, 1e-6, {3.25}}, {{0, 0}, 1.0, 1e-6, {2.5, -1.75}}, {{1, 2}, 1e-2, 1e-3, {1.5, 2.25}}, {{-3}, 0.5, 1e-9, {-3.125}}};
	const int R = ANS.size() + 1;
	for(auto& c : cfgs)
	for(int p0 = 0; p0 < R; p0++)
	for(int p1 = 0; p1 < R; p1++)
	{
		if(!mc::mine(unit++)) continue;
		std::vector<int> sched{p0, p1};
		long long n0 = st.execs;
		int nd		 = c.start.size();
		for(;;)
		{
			Env<Vec> e;
			e.window = D;
			e.sched	 = sched;
			e.bowl	 = [&c](const Vec& x) { double s = 4.0; for(size_t i = 0; i < x.size(); i++) s += (0.5 + i) * (x[i] - c.centre[i]) * (x[i] - c.centre[i]); return s; };
			std::function<double(Vec)> fn = [&e](Vec x) { return e(x); };
			g_current	   = "minimize start=" + mc::hexv(c.start) + " delta=" + mc::hexd(c.delta) + " ftol=" + mc::hexd(c.ftol) + " sched=" + sched_str(sched, D);
			Minimization M(c.ftol);
			Vec sp		   = c.start;
			Vec r;
			if(mc::library_exits([&]() { r = M.minimize(sp, c.delta, fn); }))
			{
				mc::count("adversary_executions_ended_by_iteration_cap_exit", 1);
				st.execs++;
				sched = e.sched;
				if(!next_schedule(sched, e.used, R) || sched.size() < 2 || sched[0] != p0 || sched[1] != p1) break;
				continue;
			}
			st.execs++;
			st.evals += e.order.size();
			st.cps += e.used;
			st.outcomes.insert(mc::bits(r[0]) ^ (e.order.size() << 48) ^ mc::bits(M.fmin));
			std::string sk = sched_str(e.sched, e.used);
			auto viol	   = [&](const std::string& cls, const std::string& text) {
				 mc::violation("adversary_nm", "adversary_nm|start=" + mc::decv(c.start) + ",delta=" + mc::dec(c.delta) + ",ftol=" + mc::dec(c.ftol) + "|sched=" + sk + "|" + cls, text, g_current);
			};
			auto it = e.memo.find(r);
			if(it == e.memo.end()) viol("returned_point_not_evaluated", "returned point " + mc::decv(r) + " was never evaluated");
			else
			{
				double fr = it->second;
				if(!mc::same_bits(fr, M.fmin) || !mc::same_bits(M.y[0], fr)) viol("reported_fmin_wrong", "f(returned)=" + mc::dec(fr) + " fmin=" + mc::dec(M.fmin) + " y[0]=" + mc::dec(M.y[0]));
				if(M.current_simplex[0] != r) viol("simplex_not_best_first", "current_simplex[0] is not the returned point");
				for(int i = 0; i <= nd; i++)
				{
					// initial vertices are the first nd+1 evaluations
					if(!(fr <= e.memo[e.order[i]])) viol("worse_than_start", "f(returned)=" + mc::dec(fr) + " but initial vertex " + std::to_string(i) + " has " + mc::dec(e.memo[e.order[i]]));
					auto iv = e.memo.find(M.current_simplex[i]);
					if(iv == e.memo.end() || !mc::same_bits(iv->second, M.y[i])) viol("vertex_values_stale", "y[" + std::to_string(i) + "] is not the objective at current_simplex[" + std::to_string(i) + "]");
					if(!(M.y[0] <= M.y[i])) viol("simplex_not_best_first", "y[0] > y[" + std::to_string(i) + "]");
				}
				{
					// the documented stopping rule: a normal return means the vertex values agree within the fractional tolerance
					double hi = *std::max_element(M.y.begin(), M.y.end()), lo = *std::min_element(M.y.begin(), M.y.end());
					double rt = 2 * std::fabs(hi - lo) / (std::fabs(hi) + std::fabs(lo) + 1e-10);
					if(!(rt <= c.ftol * 1.0000001)) viol("returned_before_the_fractional_tolerance_was_met", "vertex values from " + mc::dec(lo) + " to " + mc::dec(hi) + ": fractional range " + mc::dec(rt) + " > ftol " + mc::dec(c.ftol));
				}
				if(M.nfunc != (int)e.order.size() - (nd + 1)) viol("nfunc_wrong", "nfunc=" + std::to_string(M.nfunc) + " but " + std::to_string(e.order.size() - nd - 1) + " evaluations after the initial simplex");
			}
			sched = e.sched;
			if(!next_schedule(sched, e.used, R) || sched.size() < 2 || sched[0] != p0 || sched[1] != p1) break;
			if((st.execs & 0x3ff) == 0 && mc::out_of_time("C11 adversary nm")) return;
		}
		if(p0 == 1 && p1 == 2) mc::sample("minimize dim " + std::to_string(nd) + " start " + mc::decv(c.start) + ": " + std::to_string(st.execs - n0) + " answer schedules", 4);
	}
}

// ---- M3 ------------------------------------------------------------------------------------------------------------
static void families_1d(unsigned long long& unit, Stats& st)
{
	struct Obj { std::string name; std::function<ld(ld)> f; ld xmin; std::function<ld(ld)> width; };   // width(E): half-width of {f <= f*+E}
	std::vector<Obj> objs;
	for(double c : {0.0, 1.0, -250.0, 1e-3})
		for(double s : {1e-24, 1e-6, 1.0, 1e6, 1e24})
		{
			objs.push_back({"quad_c" + mc::dec(c) + "_s" + mc::dec(s), [c, s](ld x) { return s * (x - c) * (x - c); }, c, [s](ld E) { return sqrtl(E / s); }});
			objs.push_back({"quadoff_c" + mc::dec(c) + "_s" + mc::dec(s), [c, s](ld x) { return 3 + s * (x - c) * (x - c); }, c, [s](ld E) { return sqrtl(E / s); }});
			objs.push_back({"quartic_c" + mc::dec(c) + "_s" + mc::dec(s), [c, s](ld x) { return 1 + s * powl(x - c, 4); }, c, [s](ld E) { return powl(E / s, 0.25L); }});
			objs.push_back({"abs15_c" + mc::dec(c) + "_s" + mc::dec(s), [c, s](ld x) { return s * powl(fabsl(x - c), 1.5L); }, c, [s](ld E) { return powl(E / s, 2 / 3.0L); }});
		}
	for(double c : {0.0, 2.0})
		for(double w : {0.5, 3.0})
			objs.push_back({"cosh_c" + mc::dec(c) + "_w" + mc::dec(w), [c, w](ld x) { return coshl(w * (x - c)); }, c, [w](ld E) { return sqrtl(2 * E) / w; }});
	for(double r0 : {1.0, 3.4, 1e-3})
		objs.push_back({"lennard_jones_r" + mc::dec(r0), [r0](ld x) { ld q = r0 / x; ld q6 = powl(q, 6); return q6 * q6 - 2 * q6; }, r0, [r0](ld E) { return sqrtl(2 * E / (72 / ((ld)r0 * r0))); }});
	// asymmetric and non-quadratic unimodal wells on the whole line (the parabolic steps of the bracketing and of Brent's method see
	// unequal slopes on the two sides); these are started from a sweep of (a, b) pairs
	size_t first_sweep = objs.size();
	objs.push_back({"pseudo_huber", [](ld x) { return sqrtl(1 + x * x); }, 0, [](ld E) { return sqrtl(2 * E + E * E); }});
	objs.push_back({"huber", [](ld x) { return fabsl(x) <= 1 ? x * x / 2 : fabsl(x) - 0.5L; }, 0, [](ld E) { return sqrtl(2 * E); }});
	objs.push_back({"exp_minus_x", [](ld x) { return expl(x) - x; }, 0, [](ld E) { return sqrtl(2 * E) * 1.5L; }});
	objs.push_back({"x_plus_exp_minus_2x", [](ld x) { return x + expl(-2 * x) / 2; }, 0, [](ld E) { return sqrtl(E) * 1.5L; }});
	objs.push_back({"skew_kink", [](ld x) { return x < 0 ? -3 * x : x; }, 0, [](ld E) { return E; }});
	objs.push_back({"skew_quadratic", [](ld x) { return x < 0 ? 8 * x * x : x * x / 2; }, 0, [](ld E) { return sqrtl(2 * E); }});
	objs.push_back({"morse_c2", [](ld x) { ld t = 1 - expl(-(x - 2)); return t * t; }, 2, [](ld E) { return sqrtl(E) * 1.5L; }});
	if(mc::shard0()) mc::alphabet("objectives_1d", objs.size());
	long long cases = 0;
	for(size_t oi = 0; oi < objs.size(); oi++)
	{
		auto& o = objs[oi];
		if(!mc::mine(unit++)) continue;
		bool lj = o.name.rfind("lennard", 0) == 0;
		ld sc	= lj ? o.xmin : 1;
		std::vector<std::pair<ld, ld>> starts = {{o.xmin + 0.3L * sc, o.xmin + 0.4L * sc}, {o.xmin + 0.4L * sc, o.xmin + 0.3L * sc}, {o.xmin - 0.2L * sc, o.xmin + 0.1L * sc}, {o.xmin + 0.5L * sc, o.xmin + 0.5L * sc * (1 + 1e-6L)}};
		if(!lj)
		{
			// far starts only where the objective still has a slope in binary64 (a tail that is constant to rounding is not unimodal for the routine)
			for(auto fs : std::vector<std::pair<ld, ld>>{{o.xmin + 40, o.xmin + 41}, {o.xmin - 1e3L, o.xmin - 999}})
				if(std::fabs((double)o.f(fs.first) - (double)o.f(fs.second)) > 1e-6 * std::fabs((double)o.f(fs.first))) starts.push_back(fs);
		}
		else starts.push_back({o.xmin * 2.5L, o.xmin * 2.4L});
		if(oi >= first_sweep || lj)
			for(ld a : {-0.9L, -0.5L, -0.2L, 0.1L, 0.3L, 0.7L, 1.5L, 4.0L, 10.0L})
				for(ld d : {-2.0L, -0.5L, -0.1L, -0.01L, 0.01L, 0.1L, 0.5L, 2.0L})
				{
					ld A = o.xmin + a * sc * (lj ? 0.5L : 1), B = A + d * sc * (lj ? 0.5L : 1);
					if(lj && (A <= 0.55L * o.xmin || B <= 0.55L * o.xmin)) continue;	// the repulsive wall overflows
					starts.push_back({A, B});
				}
		// the tolerance left to its default in both functions: Find_Maximum of -f is Find_Minimum of f
		for(auto& s : starts)
		{
			if(!std::isfinite((double)o.f(s.first)) || !std::isfinite((double)o.f(s.second))) continue;
			std::function<double(double)> fn = [&](double x) { return (double)o.f(x); };
			std::function<double(double)> fm = [&](double x) { return -(double)o.f(x); };
			double r = NAN, r2 = NAN;
			std::string ck = o.name + "|start=" + mc::dec((double)s.first) + "," + mc::dec((double)s.second) + ",tol=default";
			g_current = "Find_Minimum/Find_Maximum " + o.name + " start=" + mc::hexd((double)s.first) + "," + mc::hexd((double)s.second) + " tol=default";
			if(mc::library_exits([&]() { r = Find_Minimum(fn, (double)s.first, (double)s.second); r2 = Find_Maximum(fm, (double)s.first, (double)s.second); })) { mc::violation("families1d", "families1d|" + ck + "|valid_request_terminated_process", "the library called exit() on a unimodal objective", g_current); continue; }
			cases++;
			if(!mc::same_bits(r, r2)) mc::violation("families1d", "families1d|" + ck + "|maximum_of_minus_f_differs", "Find_Minimum(f)=" + mc::dec(r) + " Find_Maximum(-f)=" + mc::dec(r2) + " with the default tolerance", g_current);
		}
		for(auto& s : starts)
			for(double tol : {1e-3, 1e-6, 3e-8, 1e-10, 1e-12})
			{
				int n = 0;
				std::function<double(double)> fn = [&](double x) { n++; return (double)o.f(x); };
				g_current	   = "Find_Minimum " + o.name + " start=" + mc::hexd((double)s.first) + "," + mc::hexd((double)s.second) + " tol=" + mc::hexd(tol);
				if(!std::isfinite((double)o.f(s.first)) || !std::isfinite((double)o.f(s.second))) continue;
				double r = NAN;
				std::string ck0 = o.name + "|start=" + mc::dec((double)s.first) + "," + mc::dec((double)s.second) + ",tol=" + mc::dec(tol);
				if(mc::library_exits([&]() { r = Find_Minimum(fn, (double)s.first, (double)s.second, tol); }))
				{
					mc::violation("families1d", "families1d|" + ck0 + "|valid_request_terminated_process", "the library called exit() on a unimodal objective", g_current);
					continue;
				}
				cases++;
				st.evals += n;
				ld fstar = o.f(o.xmin);
				ld E	 = 16 * mc::U_ * (fabsl(fstar) + fabsl((ld)(double)o.f(r) - fstar)) + 1e-300L;
				ld bound = 4 * ((ld)tol * fabsl(o.xmin) + 2.3e-16L) + 4 * o.width(E) + 8 * mc::U_ * fabsl(o.xmin);
				ld dist	 = fabsl((ld)r - o.xmin);
				if(lj) dist = std::min(dist, fabsl((ld)r + o.xmin));	// the 12-6 potential is even: the mirror well is a global minimiser as well
				std::string ck = o.name + "|start=" + mc::dec((double)s.first) + "," + mc::dec((double)s.second) + ",tol=" + mc::dec(tol);
				if(!(dist <= bound)) mc::violation("families1d", "families1d|" + ck + "|not_within_tolerance_of_minimiser", "returned " + mc::dec(r) + " minimiser " + mc::dec((double)o.xmin) + " distance " + mc::dec((double)dist) + " bound " + mc::dec((double)bound), g_current);
				else mc::maxi("dist_over_bound_1d", (double)(dist / bound));
				if(!((double)o.f(r) <= (double)o.f((double)s.first) && (double)o.f(r) <= (double)o.f((double)s.second))) mc::violation("families1d", "families1d|" + ck + "|worse_than_start", "f(returned) exceeds f(start)", g_current);
				// Find_Maximum(-f) bitwise
				std::function<double(double)> fm = [&](double x) { return -(double)o.f(x); };
				double r2 = Find_Maximum(fm, (double)s.first, (double)s.second, tol);
				if(!mc::same_bits(r, r2)) mc::violation("families1d", "families1d|" + ck + "|maximum_of_minus_f_differs", "Find_Minimum(f)=" + mc::dec(r) + " Find_Maximum(-f)=" + mc::dec(r2), g_current);
			}
	}
	mc::count("family_cases_1d", cases);
	st.execs += cases;
	mc::count("distinct_nontrivial", cases);
}

static void bowls(unsigned long long& unit, Stats& st)
{
	long long cases = 0;
	const double angles[] = {M_PI / 6, M_PI / 4, M_PI / 3, 1.0};
	for(int d = 1; d <= 6; d++)
		for(double cond : {1.0, 1e2, 1e4})
			for(int rot = 0; rot < 3; rot++)
				for(double off : {0.0, 1.0})
				{
					if(!mc::mine(unit++)) continue;
					if(mc::out_of_time("C11 bowls")) return;
					// A = R^T D R with R a product of plane rotations
					std::vector<std::vector<ld>> R(d, std::vector<ld>(d, 0));
					for(int i = 0; i < d; i++) R[i][i] = 1;
					if(rot)
						for(int i = 0; i + 1 < d; i++)
						{
							ld th = angles[(i + rot) % 4], cs = cosl(th), sn = sinl(th);
							for(int k = 0; k < d; k++)
							{
								ld a = R[i][k], b = R[i + 1][k];
								R[i][k] = cs * a - sn * b; R[i + 1][k] = sn * a + cs * b;
							}
						}
					std::vector<ld> Dg(d);
					for(int i = 0; i < d; i++) Dg[i] = d == 1 ? 1 : powl(cond, (ld)i / (d - 1));
					std::vector<ld> centre(d);
					for(int i = 0; i < d; i++) centre[i] = 0.75L * (i + 1) * (i % 2 ? -1 : 1);
					auto f = [&](const Vec& x) {
						ld s = off;
						for(int i = 0; i < d; i++)
						{
							ld t = 0;
							for(int k = 0; k < d; k++) t += R[i][k] * ((ld)x[k] - centre[k]);
							s += Dg[i] * t * t;
						}
						return (double)s;
					};
					for(double scale : {1e-3, 1.0, 1e3})
						for(double ftol : {1e-3, 1e-6, 1e-9, 1e-12})
						{
							Vec start(d);
							for(int i = 0; i < d; i++) start[i] = (double)centre[i] + scale * (1 + 0.5 * i);
							int n = 0;
							std::function<double(Vec)> fn = [&](Vec x) { n++; return f(x); };
							g_current = "bowl d=" + std::to_string(d) + " cond=" + mc::dec(cond) + " rot=" + std::to_string(rot) + " off=" + mc::dec(off) + " scale=" + mc::dec(scale) + " ftol=" + mc::dec(ftol);
							Minimization M1(ftol), M2(ftol), M3(ftol);
							Vec s1 = start, s2 = start, dl(d, scale);
							std::vector<Vec> pp(d + 1, start);
							for(int i = 0; i < d; i++) pp[i + 1][i] += scale;
							Vec r1, r2, r3;
							std::string ck = "d=" + std::to_string(d) + ",cond=" + mc::dec(cond) + ",rot=" + std::to_string(rot) + ",off=" + mc::dec(off) + ",scale=" + mc::dec(scale) + ",ftol=" + mc::dec(ftol);
							if(mc::library_exits([&]() { r1 = M1.minimize(s1, scale, fn); r2 = M2.minimize(s2, dl, fn); r3 = M3.minimize(pp, fn); }))
							{
								mc::violation("bowls", "bowls|" + ck + "|valid_request_terminated_process", "the library called exit() on a strictly convex quadratic bowl", g_current);
								continue;
							}
							cases++;
							st.evals += n;
							if(r1 != r2 || r1 != r3 || !mc::same_bits(M1.fmin, M2.fmin) || !mc::same_bits(M1.fmin, M3.fmin) || M1.nfunc != M3.nfunc) mc::violation("bowls", "bowls|" + ck + "|overloads_differ", "the three minimize overloads give different results for equivalent simplices", g_current);
							ld dist = 0;
							for(int i = 0; i < d; i++) dist += ((ld)r1[i] - centre[i]) * ((ld)r1[i] - centre[i]);
							dist	 = sqrtl(dist);
							ld bound = sqrtl(20 * (ld)ftol * (off + 1e-10L) / 1.0L) + 1e-7L * 0;
							if(!(dist <= bound)) mc::violation("bowls", "bowls|" + ck + "|not_within_tolerance_of_minimiser", "distance " + mc::dec((double)dist) + " bound sqrt(20*ftol*(|f*|+1e-10)/lambda_min) = " + mc::dec((double)bound) + " after " + std::to_string(M1.nfunc) + " evaluations", g_current);
							else mc::maxi("dist_over_bound_bowls", (double)(dist / bound));
							// a used object answers like a fresh one (nothing of the previous run survives in the reported state)
							{
								Vec s1b = start, r1b;
								int nf1 = M1.nfunc;
								double fm1 = M1.fmin;
								if(mc::library_exits([&]() { r1b = M1.minimize(s1b, scale, fn); })) mc::violation("bowls", "bowls|" + ck + "|valid_request_terminated_process", "second use of one Minimization object ended the process", g_current);
								else if(r1b != r1 || !mc::same_bits(M1.fmin, fm1) || M1.nfunc != nf1) mc::violation("bowls", "bowls|" + ck + "|used_object_differs_from_fresh", "second minimize() on the same object: nfunc " + std::to_string(M1.nfunc) + " vs " + std::to_string(nf1) + ", fmin " + mc::dec(M1.fmin) + " vs " + mc::dec(fm1), g_current);
							}
							// the restart at the claimed minimum, written with the object's own best vertex as the argument (it aliases the object's
							// state): the result is that of the same restart from a copy of that vertex
							{
								Minimization Ma(ftol), Mb(ftol);
								Vec sa = start, sb = start, ra, rb, ra2, rb2, dls(d, 0.1 * scale);
								if(mc::library_exits([&]() {
									   Ma.minimize(sa, scale, fn); Mb.minimize(sb, scale, fn);
									   Vec copy = Mb.current_simplex[0];
									   ra = Ma.minimize(Ma.current_simplex[0], 0.1 * scale, fn); rb = Mb.minimize(copy, 0.1 * scale, fn);
									   Vec copy2 = Mb.current_simplex[0];
									   ra2 = Ma.minimize(Ma.current_simplex[0], dls, fn); rb2 = Mb.minimize(copy2, dls, fn);
								   }))
									mc::violation("bowls", "bowls|" + ck + "|valid_request_terminated_process", "a restart from the object's own best vertex ended the process", g_current);
								else if(ra != rb || ra2 != rb2 || !mc::same_bits(Ma.fmin, Mb.fmin) || Ma.nfunc != Mb.nfunc)
									mc::violation("bowls", "bowls|" + ck + "|restart_from_own_vertex_differs_from_restart_from_a_copy", "minimize(M.current_simplex[0], delta, f) differs from minimize(copy of that vertex, delta, f): fmin " + mc::dec(Ma.fmin) + " vs " + mc::dec(Mb.fmin), g_current);
							}
							// unequal displacements: the vector overload builds the simplex start, start + deltas[i] e_i
							if(d >= 2)
							{
								Vec dl2(d), s4 = start, r4, r5;
								for(int i = 0; i < d; i++) dl2[i] = scale * (1.0 + 0.75 * i) * (i % 3 == 1 ? -1 : 1);
								std::vector<Vec> pp2(d + 1, start), seen;
								for(int i = 0; i < d; i++) pp2[i + 1][i] += dl2[i];
								std::function<double(Vec)> spy = [&](Vec x) { if((int)seen.size() <= d) seen.push_back(x); return f(x); };
								Minimization M4(ftol), M5(ftol);
								if(mc::library_exits([&]() { r4 = M4.minimize(s4, dl2, spy); r5 = M5.minimize(pp2, fn); })) mc::violation("bowls", "bowls|" + ck + "|valid_request_terminated_process", "minimize with unequal deltas ended the process", g_current);
								else
								{
									bool vertices = (int)seen.size() == d + 1;
									for(int i = 0; vertices && i <= d; i++) vertices = std::find(seen.begin(), seen.end(), pp2[i]) != seen.end();
									if(!vertices) mc::violation("bowls", "bowls|" + ck + "|initial_simplex_not_start_plus_deltas", "the first d+1 evaluations of minimize(start, deltas, f) are not start and start + deltas[i] e_i", g_current);
									if(r4 != r5 || !mc::same_bits(M4.fmin, M5.fmin) || M4.nfunc != M5.nfunc) mc::violation("bowls", "bowls|" + ck + "|overloads_differ", "minimize(start, deltas, f) with unequal deltas differs from minimize(simplex, f) on the same simplex", g_current);
									ld worst = f(start);
									for(auto& v : pp2) worst = std::min(worst, (ld)f(v));
									if(!(M4.fmin <= (double)worst)) mc::violation("bowls", "bowls|" + ck + "|worse_than_start", "fmin exceeds the best documented initial vertex (unequal deltas)", g_current);
								}
							}
							{
								double hi = *std::max_element(M1.y.begin(), M1.y.end()), lo = *std::min_element(M1.y.begin(), M1.y.end());
								double rt = 2 * std::fabs(hi - lo) / (std::fabs(hi) + std::fabs(lo) + 1e-10);
								if(!(rt <= ftol * 1.0000001)) mc::violation("bowls", "bowls|" + ck + "|returned_before_the_fractional_tolerance_was_met", "vertex values from " + mc::dec(lo) + " to " + mc::dec(hi) + ": fractional range " + mc::dec(rt) + " > ftol " + mc::dec(ftol), g_current);
							}
							if(!mc::same_bits(M1.fmin, f(r1))) mc::violation("bowls", "bowls|" + ck + "|reported_fmin_wrong", "fmin is not the objective at the returned point", g_current);
							if(!(M1.fmin <= f(start))) mc::violation("bowls", "bowls|" + ck + "|worse_than_start", "fmin exceeds the objective at the starting point", g_current);
						}
				}
	mc::count("bowl_cases", cases);
	st.execs += cases * 3;
	mc::count("distinct_nontrivial", cases);
}

// ---- call histories: a minimisation does not depend on the minimisations made before it ------------------------------------------------
// ---- symmetric bowls from representable starts: exact ties between vertex values are the rule here, and the optimum value may be negative ------
static void lattice_bowls(unsigned long long& unit, Stats& st)
{
	long long cases = 0;
	for(int d = 2; d <= 3; d++)
		for(int wk = 0; wk < 2; wk++)	// weights 1,1,1 or 1,2,3
			for(double off : {0.0, -2.5, -1000.0})
				for(double delta : {0.5, 1.0, 2.0})
				{
					if(!mc::mine(unit++)) continue;
					int side = 9, total = 1;
					for(int i = 0; i < d; i++) total *= side;
					for(int code = 0; code < total; code++)
					{
						Vec start(d);
						int c = code;
						for(int i = 0; i < d; i++) { start[i] = -2.0 + 0.5 * (c % side); c /= side; }
						int n = 0;
						auto f = [&](const Vec& x) { double s = off; for(int i = 0; i < d; i++) s += (wk ? 1 + i : 1) * x[i] * x[i]; return s; };
						std::function<double(Vec)> fn = [&](Vec x) { n++; return f(x); };
						const double ftol = 1e-8;
						Minimization M(ftol);
						Vec s0 = start, r;
						std::string ck = "lattice,d=" + std::to_string(d) + ",weights=" + std::to_string(wk) + ",off=" + mc::dec(off) + ",delta=" + mc::dec(delta) + ",start=" + mc::decv(start);
						g_current = ck;
						if(mc::library_exits([&]() { r = M.minimize(s0, delta, fn); }))
						{
							mc::violation("bowls", "bowls|" + ck + "|valid_request_terminated_process", "the library called exit() on a strictly convex quadratic bowl (" + std::to_string(n) + " evaluations)", g_current);
							continue;
						}
						cases++;
						st.evals += n;
						ld dist = 0;
						for(int i = 0; i < d; i++) dist += (ld)r[i] * r[i];
						dist = sqrtl(dist);
						ld bound = sqrtl(20 * (ld)ftol * (fabsl((ld)off) + 1e-10L) / 1.0L);
						double best0 = f(start);
						for(int i = 0; i < d; i++) { Vec v = start; v[i] += delta; best0 = std::min(best0, f(v)); }
						if(!(M.fmin <= best0)) mc::violation("bowls", "bowls|" + ck + "|worse_than_start", "fmin " + mc::dec(M.fmin) + " exceeds the best initial vertex " + mc::dec(best0) + " after " + std::to_string(M.nfunc) + " evaluations", g_current);
						if(!mc::same_bits(M.fmin, f(r))) mc::violation("bowls", "bowls|" + ck + "|reported_fmin_wrong", "fmin is not the objective at the returned point", g_current);
						// the documented stopping rule: on return the vertex values agree within the fractional tolerance ftol
						// (the distance clause is decided in bowls(); from lattice starts the recorded Nelder-Mead finding - the rule is met by
						// simplices that straddle a level set - shows on about 1 % of the starts and is not listed input by input)
						{
							double hi = *std::max_element(M.y.begin(), M.y.end()), lo = *std::min_element(M.y.begin(), M.y.end());
							double rt = 2 * std::fabs(hi - lo) / (std::fabs(hi) + std::fabs(lo) + 1e-10);
							if(!(rt <= ftol * 1.0000001)) mc::violation("bowls", "bowls|" + ck + "|returned_before_the_fractional_tolerance_was_met", "returned after " + std::to_string(M.nfunc) + " evaluations with vertex values from " + mc::dec(lo) + " to " + mc::dec(hi) + ": fractional range " + mc::dec(rt) + " > ftol " + mc::dec(ftol), g_current);
						}
					}
				}
	mc::count("lattice_bowl_cases", cases);
	mc::count("distinct_nontrivial", cases);
	st.execs += cases;
}

static void histories(unsigned long long& unit)
{
	std::vector<mc::PureLetter> L;
	auto rec1 = [](std::function<double(double)> f, double a, double b, double tol, bool maxi) {
		std::string q;
		std::function<double(double)> fn = [&](double x) { q += mc::hexd(x) + ","; return f(x); };
		double v = maxi ? Find_Maximum(fn, a, b, tol) : Find_Minimum(fn, a, b, tol);
		return mc::hexd(v) + "|" + q;
	};
	L.push_back({"Find_Minimum((x-2)^2,0,1)", [=]() { return rec1([](double x) { return (x - 2) * (x - 2); }, 0, 1, 3e-8, false); }});
	L.push_back({"Find_Minimum((x-2)^2,0,1,1e-3)", [=]() { return rec1([](double x) { return (x - 2) * (x - 2); }, 0, 1, 1e-3, false); }});
	L.push_back({"Find_Minimum(cosh(x+7),5,4)", [=]() { return rec1([](double x) { return std::cosh(x + 7); }, 5, 4, 1e-10, false); }});
	L.push_back({"Find_Maximum(-x^4+x,-1,0)", [=]() { return rec1([](double x) { return -x * x * x * x + x; }, -1, 0, 1e-9, true); }});
	L.push_back({"Find_Minimum(1e-24 scale)", [=]() { return rec1([](double x) { return 1e-24 * (x - 1e-12) * (x - 1e-12); }, 0, 1e-13, 1e-6, false); }});
	auto nm = [](int d, double delta, double ftol, int overload) {
		std::string q;
		int n = 0;
		std::function<double(Vec)> fn = [&](Vec x) { if(n++ < 30) q += mc::hexv(x) + ";"; double s = 3; for(size_t i = 0; i < x.size(); i++) s += (1 + i) * (x[i] - 0.5 * (i + 1)) * (x[i] - 0.5 * (i + 1)); return s; };
		Minimization M(ftol);
		Vec start(d, -1.0), r;
		if(overload == 0) r = M.minimize(start, delta, fn);
		else if(overload == 1) { Vec dl(d); for(int i = 0; i < d; i++) dl[i] = delta * (1 + i); r = M.minimize(start, dl, fn); }
		else { std::vector<Vec> pp(d + 1, start); for(int i = 0; i < d; i++) pp[i + 1][i] += delta; r = M.minimize(pp, fn); }
		return mc::hexv(r) + "|" + mc::hexd(M.fmin) + "|" + std::to_string(M.nfunc) + "|" + q;
	};
	L.push_back({"minimize(d=1,delta=1)", [=]() { return nm(1, 1.0, 1e-8, 0); }});
	L.push_back({"minimize(d=2,delta=0.5)", [=]() { return nm(2, 0.5, 1e-6, 0); }});
	L.push_back({"minimize(d=3,deltas)", [=]() { return nm(3, 0.25, 1e-9, 1); }});
	L.push_back({"minimize(d=2,simplex)", [=]() { return nm(2, 2.0, 1e-3, 2); }});
	long long t = mc::purity("histories", L, mc::thorough() ? 4 : 3, unit);
	mc::count("evaluations", t);
}

int main(int argc, char** argv)
{
	mc::init(argc, argv);
	if(mc::ctx().replay) { printf("%s\n(no single-case replay for this part; use ./vcheck --replay <file>, which re-runs the enumeration for this key)\n", mc::ctx().replay_case.c_str()); return 0; }
	silence();
	mc::bound("rule", "M2: executions of the minimisers under harness-chosen objective values (state = choice point, transition = objective evaluation); M3: complete products objective x start x tolerance; non-trivial = distinct (result, evaluation count) outcomes and family cases");
	mc::alphabet("answers", ANS.size() + 1);
	unsigned long long unit = 0;
	Stats st;
	adversary_1d(unit, st);
	adversary_nm(unit, st);
	families_1d(unit, st);
	bowls(unit, st);
	lattice_bowls(unit, st);
	histories(unit);
	mc::count("executions", st.execs);
	mc::count("evaluations", st.execs);
	mc::count("transitions", st.evals);
	mc::count("states", st.cps);
	mc::count("distinct_nontrivial", st.outcomes.size());
	return mc::finish();
}
