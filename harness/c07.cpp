// C07 — Every distribution's density, CDF, quantile and likelihood are mutually coherent.
// M3: complete products parameter alphabet x argument grid (support boundaries, both sides of every branch, far tails).
#include "mc/mc.hpp"
#include "mc/exit_trap.hpp"
#include "mc/purity.hpp"
#include "libphysica/Statistics.hpp"
#include "libphysica/Special_Functions.hpp"
using namespace libphysica;
typedef long double ld;

static void fail(const std::string& part, const std::string& key, const std::string& cls, const std::string& text) { mc::violation(part, part + "|" + key + "|" + cls, text, part + " " + key); }
static void silence()
{
	int fd = open("/dev/null", O_WRONLY);
	dup2(fd, 1);
	dup2(fd, 2);
}

// own Gauss-Legendre rule in long double (Newton on the Legendre recurrence)
struct GL
{
	std::vector<ld> x, w;
	explicit GL(int n) : x(n), w(n)
	{
		for(int i = 0; i < n; i++)
		{
			ld z = cosl(M_PIl * (i + 0.75L) / (n + 0.5L)), pp = 0;
			for(int it = 0; it < 100; it++)
			{
				ld p1 = 1, p2 = 0;
				for(int j = 0; j < n; j++) { ld p3 = p2; p2 = p1; p1 = ((2 * j + 1) * z * p2 - j * p3) / (j + 1); }
				pp	  = n * (z * p1 - p2) / (z * z - 1);
				ld dz = p1 / pp;
				z -= dz;
				if(fabsl(dz) < 1e-19L) break;
			}
			x[i] = z;
			w[i] = 2 / ((1 - z * z) * pp * pp);
		}
	}
	ld integrate(const std::function<double(double)>& f, double a, double b) const
	{
		ld m = ((ld)a + b) / 2, h = ((ld)b - a) / 2, s = 0;
		for(size_t i = 0; i < x.size(); i++) s += w[i] * f((double)(m + h * x[i]));
		return s * h;
	}
};
static const GL& gl32() { static GL g(32); return g; }
static const GL& gl64() { static GL g(64); return g; }

static long long g_cases = 0, g_intervals = 0, g_unresolved = 0;

// continuous family on a sorted grid
static void continuous(const std::string& fam, const std::string& par, const std::vector<double>& grid, const std::function<double(double)>& pdf, const std::function<double(double)>& cdf, double cdf_acc)
{
	double prev = 0;
	for(size_t k = 0; k < grid.size(); k++)
	{
		double x = grid[k];
		std::string key = fam + "(" + par + "),x=" + mc::dec(x);
		double p = 0, c = 0;
		if(mc::library_exits([&]() { p = pdf(x); c = cdf(x); })) { fail("continuous", key, "terminated_process", "valid arguments ended the process"); continue; }
		g_cases++;
		if(!(p >= 0) || !std::isfinite(p)) fail("continuous", key, "pdf_negative_or_not_finite", "PDF = " + mc::dec(p));
		// (the same absolute slack as for monotonicity: a difference of two rounded terms may come out as -1e-28 where the CDF is 1e-33)
		if(!(c >= -cdf_acc && c <= 1 + cdf_acc)) fail("continuous", key, "cdf_outside_unit_interval", "CDF = " + mc::dec(c));
		if(k > 0 && !(c >= prev - cdf_acc)) fail("continuous", key, "cdf_decreases", "CDF goes from " + mc::dec(prev) + " to " + mc::dec(c));
		if(k == 0 && !(c <= cdf_acc)) fail("continuous", key, "cdf_not_zero_at_lower_end", "CDF = " + mc::dec(c));
		if(k + 1 == grid.size() && !(c >= 1 - cdf_acc)) fail("continuous", key, "cdf_not_one_at_upper_end", "CDF = " + mc::dec(c));
		if(k > 0 && grid[k] > grid[k - 1])
		{
			ld i32 = gl32().integrate(pdf, grid[k - 1], x), i64 = gl64().integrate(pdf, grid[k - 1], x);
			g_intervals++;
			if(!(fabsl(i64 - i32) <= 1e-13L + 1e-11L * fabsl(i64))) g_unresolved++;
			else
			{
				double tol = 2 * cdf_acc + 4 * (double)fabsl(i64 - i32);
				if(!(std::fabs((c - prev) - (double)i64) <= tol)) fail("continuous", key, "cdf_difference_not_integral_of_pdf", "CDF(x)-CDF(x_prev) = " + mc::dec(c - prev) + " integral of PDF over (" + mc::dec(grid[k - 1]) + "," + mc::dec(x) + ") = " + mc::dec((double)i64));
				else mc::maxi("cdf_minus_integral_over_tol_" + fam, std::fabs((c - prev) - (double)i64) / tol, key);
			}
		}
		prev = c;
	}
}

static void continuous_families(unsigned long long& unit)
{
	// uniform
	for(auto ab : std::vector<std::pair<double, double>>{{0, 1}, {-3, 5}, {1e-3, 2e-3}})
	{
		if(!mc::mine(unit++)) continue;
		double a = ab.first, b = ab.second, w = b - a;
		std::vector<double> g{a - w, std::nextafter(a, -INFINITY), a};
		for(int i = 1; i < 20; i++) g.push_back(a + w * i / 20);
		g.push_back(b);
		g.push_back(std::nextafter(b, INFINITY));
		g.push_back(b + w);
		// the density jumps at the support boundaries: drop the ulp-wide intervals from the integral test by duplicating nothing; they are resolved trivially
		continuous("Uniform", mc::dec(a) + "," + mc::dec(b), g, [=](double x) { return PDF_Uniform(x, a, b); }, [=](double x) { return CDF_Uniform(x, a, b); }, 1e-15);
	}
	// normal
	for(double mu : {0.0, -3.0, 1e3})
		for(double sg : {1e-3, 1.0, 50.0, 1e-7, 1e6})
		{
			if(sg == 1e-7 && mu == 1e3) continue;	// 1e3 +- 1e-7 has only 2^20 doubles per sigma: the grid of quarter sigmas is still exact enough, but skip the coarsest case
			if(!mc::mine(unit++)) continue;
			std::vector<double> g;
			for(int i = -160; i <= 160; i++) g.push_back(mu + sg * (i / 4.0));
			continuous("Gauss", mc::dec(mu) + "," + mc::dec(sg), g, [=](double x) { return PDF_Gauss(x, mu, sg); }, [=](double x) { return CDF_Gauss(x, mu, sg); }, 1e-15);
			// quantile inverts the CDF
			// from -9 sigma to +8.2 sigma (beyond, the CDF rounds to 1). In both tails p = CDF(x) = (1+erf)/2 is only known to an ulp of 1, which
			// moves the quantile by u/pdf: there the round trip is judged in p (|CDF(q) - p| <= pdf * accuracy + 4u), elsewhere in x
			for(int i = -36; i <= 33; i++)
			{
				double x = mu + sg * (i / 4.0), q = 0, pr = CDF_Gauss(x, mu, sg);
				std::string key = "Quantile_Gauss(" + mc::dec(mu) + "," + mc::dec(sg) + "),x=" + mc::dec(x);
				if(pr >= 1.0 || pr <= 0.0) continue;
				if(mc::library_exits([&]() { q = Quantile_Gauss(pr, mu, sg); })) { fail("quantile", key, "terminated_process", "ended the process"); continue; }
				g_cases++;
				double tolx = std::sqrt(2.0) * sg * 1e-4 * 1.0001;
				bool in_x = std::fabs(q - x) <= tolx, in_p = std::fabs(CDF_Gauss(q, mu, sg) - pr) <= PDF_Gauss(x, mu, sg) * tolx * 1.5 + 4 * mc::U_;
				if(!(in_x || (std::abs(i) > 20 && in_p))) fail("quantile", key, "quantile_does_not_invert_cdf", "Quantile(CDF(x)) = " + mc::dec(q) + " x = " + mc::dec(x) + ", CDF(q) = " + mc::dec(CDF_Gauss(q, mu, sg)) + " p = " + mc::dec(pr));
				else if(in_x) mc::maxi("quantile_err_over_tol", std::fabs(q - x) / (std::sqrt(2.0) * sg * 1e-4), key);
			}
		}
	// two-dimensional normal density: product of the two one-dimensional ones
	if(mc::mine(unit++))
		for(double mx : {0.0, -3.0})
			for(double my : {1.0, 1e3})
				for(double sx : {1e-3, 2.0})
					for(double sy : {0.5, 50.0})
					{
						// one pair of parameter objects for all 289 evaluations (they are passed by reference and must come back unchanged)
						std::pair<double, double> mean{mx, my}, sig{sx, sy};
						for(int i = -8; i <= 8; i++)
							for(int j = -8; j <= 8; j++)
							{
								double x = mx + sx * i / 2.0, y = my + sy * j / 2.0;
								double p2 = PDF_Gauss_2D(x, y, mean, sig), pp = PDF_Gauss(x, mx, sx) * PDF_Gauss(y, my, sy);
								g_cases++;
								if(!(std::fabs(p2 - pp) <= 16 * mc::U_ * pp * (1 + i * i + j * j) + 1e-300)) fail("continuous", "Gauss_2D(" + mc::dec(mx) + "," + mc::dec(my) + "," + mc::dec(sx) + "," + mc::dec(sy) + "),x=" + mc::dec(x) + ",y=" + mc::dec(y), "gauss_2d_not_product_of_1d", "PDF_Gauss_2D = " + mc::dec(p2) + " product of the 1D densities " + mc::dec(pp));
							}
						if(!(mean.first == mx && mean.second == my && sig.first == sx && sig.second == sy)) fail("continuous", "Gauss_2D(" + mc::dec(mx) + "," + mc::dec(my) + "," + mc::dec(sx) + "," + mc::dec(sy) + ")", "gauss_2d_changes_its_parameters", "mean/sigma objects differ after the calls");
					}
	// exponential and Maxwell-Boltzmann
	for(double m : {1e-3, 1.0, 50.0})
	{
		if(!mc::mine(unit++)) continue;
		std::vector<double> g{-m, -1e-300, 0};
		for(int i = -40; i <= 24; i++) g.push_back(m * std::pow(2.0, i / 4.0));
		g.push_back(80 * m);
		continuous("Exponential", mc::dec(m), g, [=](double x) { return PDF_Exponential(x, m); }, [=](double x) { return CDF_Exponential(x, m); }, 1e-15);
		std::vector<double> h{-m, -1e-300, 0};
		for(int i = 80; i >= 7; i--) h.push_back(m * std::pow(2.0, -i / 2.0));	// geometric approach to the lower end of the support (CDF ~ x^3)
		for(int i = 1; i <= 120; i++) h.push_back(m * i / 10.0);
		h.push_back(40 * m);
		continuous("Maxwell_Boltzmann", mc::dec(m), h, [=](double x) { return PDF_Maxwell_Boltzmann(x, m); }, [=](double x) { return CDF_Maxwell_Boltzmann(x, m); }, 4e-15);
	}
	// chi-square
	for(double dof : {0.5, 1.0, 2.0, 3.0, 10.0, 50.0, 200.0, 342.0, 344.0, 400.0, 1.01, 1.5, 2.5, 2.99, 7.3, 0.99})
	{
		if(!mc::mine(unit++)) continue;
		double top = dof + 14 * std::sqrt(2 * dof) + 40;
		std::vector<double> g{-1.0, 0.0};
		for(int i = 60; i >= 1; i--) g.push_back(top / 200 * std::pow(2.0, -i / 2.0));	// geometric approach to zero (CDF ~ x^(dof/2))
		for(int i = 1; i <= 200; i++) g.push_back(top * i / 200);
		continuous("Chi_Square", mc::dec(dof), g, [=](double x) { return PDF_Chi_Square(x, dof); }, [=](double x) { return CDF_Chi_Square(x, dof); }, 2e-12);
	}
	// chi-bar-square mixtures
	for(auto w : std::vector<std::vector<double>>{{1}, {0.5, 0.5}, {0.25, 0.5, 0.25}, {0.1, 0.2, 0.3, 0.4}, {0.25, 0, 0.5, 0.25}, {0, 0, 1}, {0.5, 0, 0, 0.5}, {0, 1}, {0, 0.3, 0, 0.7, 0}})
	{
		if(!mc::mine(unit++)) continue;
		std::vector<double> g{-1.0};
		for(int i = 0; i <= 160; i++) g.push_back(80.0 * i / 160);
		std::string par = mc::decv(w);
		// the point mass w[0] at x=0 is part of the CDF but not of the density
		double prevc = 0;
		for(size_t k = 0; k < g.size(); k++)
		{
			double x = g[k], p = PDF_Chi_Bar_Square(x, w), c = CDF_Chi_Bar_Square(x, w);
			std::string key = "Chi_Bar_Square(" + par + "),x=" + mc::dec(x);
			g_cases++;
			if(!(p >= 0)) fail("continuous", key, "pdf_negative_or_not_finite", "PDF = " + mc::dec(p));
			if(!(c >= 0 && c <= 1) || !(c >= prevc - 1e-12)) fail("continuous", key, "cdf_outside_unit_interval_or_decreasing", "CDF = " + mc::dec(c));
			if(k == 0 && c != 0) fail("continuous", key, "cdf_not_zero_at_lower_end", "CDF = " + mc::dec(c));
			if(k == 1 && !(std::fabs(c - w[0]) <= 1e-15)) fail("continuous", key, "point_mass_at_zero_wrong", "CDF(0) = " + mc::dec(c) + " weight of dof=0 is " + mc::dec(w[0]));
			if(k + 1 == g.size() && !(c >= 1 - 1e-9)) fail("continuous", key, "cdf_not_one_at_upper_end", "CDF = " + mc::dec(c));
			if(k >= 2)
			{
				std::function<double(double)> f = [&](double t) { return PDF_Chi_Bar_Square(t, w); };
				ld i32 = gl32().integrate(f, g[k - 1], x), i64 = gl64().integrate(f, g[k - 1], x);
				g_intervals++;
				if(!(fabsl(i64 - i32) <= 1e-13L + 1e-11L * fabsl(i64))) g_unresolved++;
				else if(!(std::fabs((c - prevc) - (double)i64) <= 4e-12)) fail("continuous", key, "cdf_difference_not_integral_of_pdf", "CDF difference " + mc::dec(c - prevc) + " integral " + mc::dec((double)i64));
			}
			prevc = c;
		}
	}
	// the argument -0.0 is the number zero: every density and distribution function takes the same value there as at +0.0
	if(mc::mine(unit++))
	{
		std::vector<std::pair<std::string, std::function<double(double)>>> Z;
		for(auto w : std::vector<std::vector<double>>{{1}, {0.5, 0.5}, {0.25, 0.5, 0.25}, {0.1, 0.2, 0.3, 0.4}, {0, 0, 1}})
		{
			Z.push_back({"CDF_Chi_Bar_Square(" + mc::decv(w) + ")", [w](double x) { return CDF_Chi_Bar_Square(x, w); }});
			Z.push_back({"PDF_Chi_Bar_Square(" + mc::decv(w) + ")", [w](double x) { return PDF_Chi_Bar_Square(x, w); }});
		}
		for(double dof : {0.0, 1.0, 2.0, 3.5, 400.0})
		{
			Z.push_back({"CDF_Chi_Square(dof=" + mc::dec(dof) + ")", [dof](double x) { return CDF_Chi_Square(x, dof); }});
			if(dof >= 2) Z.push_back({"PDF_Chi_Square(dof=" + mc::dec(dof) + ")", [dof](double x) { return PDF_Chi_Square(x, dof); }});
		}
		Z.push_back({"CDF_Exponential(2)", [](double x) { return CDF_Exponential(x, 2.0); }});
		Z.push_back({"PDF_Exponential(2)", [](double x) { return PDF_Exponential(x, 2.0); }});
		Z.push_back({"CDF_Maxwell_Boltzmann(1.5)", [](double x) { return CDF_Maxwell_Boltzmann(x, 1.5); }});
		Z.push_back({"PDF_Maxwell_Boltzmann(1.5)", [](double x) { return PDF_Maxwell_Boltzmann(x, 1.5); }});
		Z.push_back({"CDF_Gauss(0,1)", [](double x) { return CDF_Gauss(x, 0.0, 1.0); }});
		Z.push_back({"PDF_Gauss(0,1)", [](double x) { return PDF_Gauss(x, 0.0, 1.0); }});
		Z.push_back({"CDF_Uniform(0,2)", [](double x) { return CDF_Uniform(x, 0.0, 2.0); }});
		Z.push_back({"PDF_Uniform(0,2)", [](double x) { return PDF_Uniform(x, 0.0, 2.0); }});
		Z.push_back({"CDF_Uniform(-1,0)", [](double x) { return CDF_Uniform(x, -1.0, 0.0); }});
		for(auto& z : Z)
		{
			double a = NAN, b = NAN;
			if(mc::library_exits([&]() { a = z.second(0.0); b = z.second(-0.0); })) { fail("continuous", z.first + ",x=-0", "terminated_process", "the argument -0.0 ended the process"); continue; }
			g_cases++;
			if(!(a == b)) fail("continuous", z.first + ",x=-0", "negative_zero_differs_from_zero", "value at +0.0 = " + mc::dec(a) + ", at -0.0 = " + mc::dec(b));
		}
	}
}

static void discrete_families(unsigned long long& unit)
{
	// binomial: all trials 0..170
	for(unsigned n = 0; n <= 170; n++)
	{
		if(!mc::mine(unit++)) continue;
		for(double p : {0.0, 1e-3, 0.1, 0.5, 0.9, 1.0, 0.99, 0.999, 1 - 1e-9, 1e-9})
		{
			ld sum = 0;
			double prevc = 0;
			for(unsigned x = 0; x <= n + 2; x++)
			{
				std::string key = "Binomial(" + std::to_string(n) + "," + mc::dec(p) + "),x=" + std::to_string(x);
				double m = 0, c = 0;
				if(mc::library_exits([&]() { m = PMF_Binomial(n, p, x); c = CDF_Binomial(n, p, x); })) { fail("discrete", key, "terminated_process", "ended the process"); continue; }
				g_cases++;
				sum += m;
				if(!(m >= 0 && m <= 1 + 1e-12)) fail("discrete", key, "pmf_outside_unit_interval", "PMF = " + mc::dec(m));
				if(x > n && m != 0) fail("discrete", key, "pmf_outside_support_nonzero", "PMF = " + mc::dec(m));
				double tol = 1e-13 * (x + 2);
				if(!(std::fabs(c - (double)sum) <= tol)) fail("discrete", key, "cdf_not_sum_of_pmf", "CDF = " + mc::dec(c) + " sum of PMF = " + mc::dec((double)sum));
				if(x > 0 && !(std::fabs((c - prevc) - m) <= tol)) fail("discrete", key, "cdf_step_not_pmf", "CDF step " + mc::dec(c - prevc) + " PMF " + mc::dec(m));
				if(!(c >= prevc - tol && c <= 1 + tol)) fail("discrete", key, "cdf_not_monotone_in_unit_interval", "CDF = " + mc::dec(c));
				if(x >= n && !(std::fabs(c - 1) <= tol)) fail("discrete", key, "cdf_not_one_at_upper_end", "CDF = " + mc::dec(c));
				prevc = c;
			}
		}
	}
	// Poisson: means x all counts 0..500
	std::vector<double> means;
	for(int i = 0; i <= 12; i++) means.push_back(std::pow(10.0, -3 + i / 2.0));
	means.push_back(0.0);
	for(double mu : means)
	{
		if(!mc::mine(unit++)) continue;
		ld sum = 0;
		double prevc = 0;
		for(unsigned k = 0; k <= 500; k++)
		{
			std::string key = "Poisson(" + mc::dec(mu) + "),k=" + std::to_string(k);
			double m = 0, c = 0;
			if(mc::library_exits([&]() { m = PMF_Poisson(mu, k); c = CDF_Poisson(mu, k); })) { fail("discrete", key, "terminated_process", "ended the process"); continue; }
			g_cases++;
			sum += m;
			// reference mass in long double
			ld lm = mu > 0 ? k * logl((ld)mu) - mu - lgammal((ld)k + 1) : (k == 0 ? 0 : -INFINITY);
			ld rm = expl(lm);
			if(!(fabsl(m - rm) <= 1e-13L * rm * (k + 10) + 1e-300L)) fail("discrete", key, "pmf_vs_reference", "PMF = " + mc::dec(m) + " reference " + mc::dec((double)rm));
			if(!(m >= 0)) fail("discrete", key, "pmf_negative", "PMF = " + mc::dec(m));
			double tol = 2e-12;
			if(!(std::fabs(c - (double)sum) <= tol)) fail("discrete", key, "cdf_not_sum_of_pmf", "CDF = " + mc::dec(c) + " sum of PMF = " + mc::dec((double)sum));
			else mc::maxi("poisson_cdf_minus_sum_over_tol", std::fabs(c - (double)sum) / tol, key);
			if(k > 0 && !(std::fabs((c - prevc) - m) <= tol)) fail("discrete", key, "cdf_step_not_pmf", "CDF step " + mc::dec(c - prevc) + " PMF " + mc::dec(m));
			if(!(c >= prevc - tol && c >= 0 && c <= 1)) fail("discrete", key, "cdf_not_monotone_in_unit_interval", "CDF = " + mc::dec(c));
			prevc = c;
		}
		if(!(prevc >= 1 - 1e-9) && mu < 300) fail("discrete", "Poisson(" + mc::dec(mu) + "),k=500", "cdf_not_one_at_upper_end", "CDF = " + mc::dec(prevc));
	}
	// large means: every count within six standard deviations of the mean; the accuracy is that of the incomplete gamma function for
	// shapes above 100 (1e-3, C06), the reference the long-double sum of the closed-form mass
	for(double mu : {800.0, 1000.0, 2500.0})
	{
		if(!mc::mine(unit++)) continue;
		unsigned k0 = (unsigned)(mu - 6 * std::sqrt(mu)), k1 = (unsigned)(mu + 6 * std::sqrt(mu));
		ld sum = 0;
		for(unsigned k = 0; k < k0; k++) sum += expl(k * logl((ld)mu) - mu - lgammal((ld)k + 1));
		double prevc = 0;
		for(unsigned k = k0; k <= k1; k++)
		{
			std::string key = "Poisson(" + mc::dec(mu) + "),k=" + std::to_string(k);
			double m = 0, c = 0;
			if(mc::library_exits([&]() { m = PMF_Poisson(mu, k); c = CDF_Poisson(mu, k); })) { fail("discrete", key, "terminated_process", "ended the process"); continue; }
			g_cases++;
			ld rm = expl(k * logl((ld)mu) - mu - lgammal((ld)k + 1));
			sum += rm;
			if(!(fabsl(m - rm) <= 1e-13L * rm * (k + 10) + 1e-300L)) fail("discrete", key, "pmf_vs_reference", "PMF = " + mc::dec(m) + " reference " + mc::dec((double)rm));
			if(!(std::fabs(c - (double)sum) <= 1e-3)) fail("discrete", key, "cdf_not_sum_of_pmf", "CDF = " + mc::dec(c) + " sum of PMF = " + mc::dec((double)sum));
			else mc::maxi("poisson_large_mean_cdf_minus_sum", std::fabs(c - (double)sum), key);
			if(!(c >= prevc - 1e-3 && c >= 0 && c <= 1)) fail("discrete", key, "cdf_not_monotone_in_unit_interval", "CDF = " + mc::dec(c));
			prevc = c;
		}
		if(!(prevc >= 1 - 1e-3)) fail("discrete", "Poisson(" + mc::dec(mu) + "),k=" + std::to_string(k1), "cdf_not_one_at_upper_end", "CDF = " + mc::dec(prevc));
	}
	// Inv_CDF_Poisson inverts CDF_Poisson in the mean
	for(unsigned n : {0u, 1u, 2u, 5u, 20u, 100u, 500u})
	{
		if(!mc::mine(unit++)) continue;
		std::vector<double> cs;
		for(int k = 1; k <= 6; k++) { cs.push_back(std::pow(10.0, -k)); cs.push_back(1 - std::pow(10.0, -k)); }
		for(int k = 1; k < 20; k++) cs.push_back(k / 20.0);
		for(double c : cs)
		{
			std::string key = "Inv_CDF_Poisson(n=" + std::to_string(n) + ",cdf=" + mc::dec(c) + ")";
			double mu = 0, back = 0;
			if(mc::library_exits([&]() { mu = Inv_CDF_Poisson(n, c); back = CDF_Poisson(mu, n); })) { fail("quantile", key, "terminated_process", "ended the process"); continue; }
			g_cases++;
			if(!(std::fabs(back - c) <= 1e-7)) fail("quantile", key, "inverse_does_not_invert_cdf", "CDF_Poisson(Inv_CDF_Poisson) = " + mc::dec(back) + " (mean " + mc::dec(mu) + ")");
			else mc::maxi("inv_cdf_poisson_err_over_1e-7", std::fabs(back - c) / 1e-7, key);
		}
	}
}

static void likelihoods(unsigned long long& unit)
{
	const std::vector<double> sig = {0.0, 0.5, 3.0, 40.0}, bkg = {0.0, 0.1, 7.5};
	std::vector<unsigned long> obs;
	for(unsigned long n = 0; n <= 260; n++) obs.push_back(n);	// every count up to 260, then a few large ones
	for(unsigned long n : {300ul, 500ul, 1000ul}) obs.push_back(n);
	if(!mc::mine(unit++)) return;
	for(double s : sig)
		for(double b : bkg)
			for(unsigned long n : obs)
			{
				if(s + b == 0) continue;
				std::string key = "s=" + mc::dec(s) + ",b=" + mc::dec(b) + ",n=" + std::to_string(n);
				double L = Likelihood_Poisson(s, n, b), lL = Log_Likelihood_Poisson(s, n, b), pm = PMF_Poisson(s + b, n);
				g_cases++;
				if(!(std::fabs(L - pm) <= 1e-12 * pm * (n + 10))) fail("likelihood", key, "likelihood_not_pmf_at_signal_plus_background", "Likelihood = " + mc::dec(L) + " PMF = " + mc::dec(pm));
				// (where the mass function itself is subnormal or underflows, its logarithm is taken from the closed form instead)
				double lref = pm > 1e-290 ? std::log(pm) : (double)(n * logl((ld)s + b) - ((ld)s + b) - lgammal((ld)n + 1));
				if(!(std::fabs(lL - lref) <= 1e-12 * (std::fabs(lref) + n + 1))) fail("likelihood", key, "log_likelihood_not_log", "Log_Likelihood = " + mc::dec(lL) + " log PMF = " + mc::dec(lref));
			}
	// binned: product over bins, 1..4 bins, all tuples over small alphabets
	const std::vector<double> ps = {0.5, 3.0}, bs = {0.0, 1.5};
	const std::vector<unsigned long> os = {0, 2, 7};
	for(int bins = 1; bins <= 4; bins++)
	{
		mc::Product P(std::vector<int>(bins, (int)(ps.size() * bs.size() * os.size())));
		do
		{
			std::vector<double> pred, back;
			std::vector<unsigned long> ob;
			ld prod = 1, lsum = 0;
			std::string key = "bins=" + std::to_string(bins) + ":";
			for(int i : P.idx)
			{
				double s = ps[i % 2], b = bs[(i / 2) % 2];
				unsigned long n = os[i / 4];
				pred.push_back(s); back.push_back(b); ob.push_back(n);
				prod *= PMF_Poisson(s + b, n);
				lsum += logl((ld)PMF_Poisson(s + b, n));
				key += std::to_string(i) + ",";
			}
			double L = Likelihood_Poisson_Binned(pred, ob, back), lL = Log_Likelihood_Poisson_Binned(pred, ob, back);
			g_cases++;
			if(!(fabsl(L - prod) <= 1e-11L * prod)) fail("likelihood", key, "binned_likelihood_not_product", "binned = " + mc::dec(L) + " product = " + mc::dec((double)prod));
			if(!(fabsl(lL - lsum) <= 1e-11L * (fabsl(lsum) + 1))) fail("likelihood", key, "binned_log_likelihood_not_sum", "binned log = " + mc::dec(lL) + " sum of logs = " + mc::dec((double)lsum));
			// default (empty) background = zero background
			bool zero = true;
			for(double b : back) if(b != 0) zero = false;
			if(zero && !mc::same_bits(Likelihood_Poisson_Binned(pred, ob), L)) fail("likelihood", key, "default_background_differs", "empty background list differs from zeros");
		} while(P.next());
	}
	// every observed count up to 260 in one bin of a three-bin experiment
	for(unsigned long n = 0; n <= 260; n++)
		for(double s : {0.5, 3.0, 40.0})
		{
			std::vector<double> pred{s, 1.5, 2.0}, back{0.1, 0.0, 1.5};
			std::vector<unsigned long> ob{n, 2, (n * 3) % 7};
			ld prod = 1, lsum = 0;
			for(int i = 0; i < 3; i++) { double pm = PMF_Poisson(pred[i] + back[i], ob[i]); prod *= pm; lsum += logl((ld)pm); }
			double L = Likelihood_Poisson_Binned(pred, ob, back), lL = Log_Likelihood_Poisson_Binned(pred, ob, back);
			g_cases++;
			std::string key = "three_bins,s=" + mc::dec(s) + ",n=" + std::to_string(n);
			if(prod > 1e-290L && !(fabsl(L - prod) <= 1e-11L * prod * (1 + n / 10.0L))) fail("likelihood", key, "binned_likelihood_not_product", "binned = " + mc::dec(L) + " product = " + mc::dec((double)prod));
			if(prod > 1e-290L && !(fabsl(lL - lsum) <= 1e-11L * (fabsl(lsum) + n + 1))) fail("likelihood", key, "binned_log_likelihood_not_sum", "binned log = " + mc::dec(lL) + " sum of logs = " + mc::dec((double)lsum));
		}
	// many bins: the logarithm is the sum over bins at any number of bins (a log of the product underflows below exp(-745))
	for(int bins : {30, 200, 500, 2000})
	{
		std::vector<double> pred, back;
		std::vector<unsigned long> ob;
		ld lsum = 0;
		for(int i = 0; i < bins; i++)
		{
			double s = 2.0 + 3.0 * ((i * 7) % 11) / 11.0, b = (i % 3) * 0.4;
			unsigned long n = (unsigned long)((i * 5) % 9);
			pred.push_back(s); back.push_back(b); ob.push_back(n);
			lsum += logl((ld)PMF_Poisson(s + b, n));
		}
		double lL = Log_Likelihood_Poisson_Binned(pred, ob, back), L = Likelihood_Poisson_Binned(pred, ob, back);
		g_cases++;
		std::string key = "bins=" + std::to_string(bins) + ",pattern";
		if(!(fabsl(lL - lsum) <= 1e-11L * (fabsl(lsum) + 1))) fail("likelihood", key, "binned_log_likelihood_not_sum", "binned log = " + mc::dec(lL) + " sum of logs = " + mc::dec((double)lsum));
		ld want = expl(lsum);
		if(want > 1e-300L && !(fabsl(L - want) <= 1e-10L * want)) fail("likelihood", key, "binned_likelihood_not_product", "binned = " + mc::dec(L) + " exp(sum of logs) = " + mc::dec((double)want));
		if(!(L >= 0 && L <= 1)) fail("likelihood", key, "binned_likelihood_not_product", "binned = " + mc::dec(L));
	}
}

static void kde(unsigned long long& unit)
{
	for(int n : {2, 3, 5, 10, 30})
		for(int pat = 0; pat < 5; pat++)	// patterns 3 and 4: digitised readings, most of the sample shares one value
			for(int wt = 0; wt < 2; wt++)
				for(int win = 0; win < 2; win++)
					for(int bwm = 0; bwm < 2; bwm++)
					{
						if(!mc::mine(unit++)) continue;
						std::vector<DataPoint> data;
						for(int i = 0; i < n; i++)
						{
							double v = pat == 3 ? (i % 4 ? 2.0 : 1.0 + (i / 4) % 3) : pat == 4 ? (i == n - 1 ? 3.5 : 1.5) : pat == 0 ? 1.0 + 3.0 * i / n : pat == 1 ? 2.5 + std::sin(1.7 * i) * 1.2 + 0.01 * i : 0.3 + 4.0 * ((i * i * 7 + 3) % 11) / 11.0 + 0.001 * i;
							data.push_back(DataPoint(v, wt ? 0.5 + (i % 3) : 1.0));
						}
						double lo = win ? 0.0 : -1.0, hi = win ? 5.0 : 7.0, bw = bwm ? 0.35 : 0.0;
						std::string key = "n=" + std::to_string(n) + ",pattern=" + std::to_string(pat) + ",weights=" + std::to_string(wt) + ",window=" + mc::dec(lo) + ".." + mc::dec(hi) + ",bw=" + mc::dec(bw);
						Interpolation K;
						if(mc::library_exits([&]() { K = Perform_KDE(data, lo, hi, bw); })) { fail("kde", key, "terminated_process", "ended the process"); continue; }
						g_cases++;
						double worst = 0;
						for(int i = 0; i <= 149 * 16; i++)
						{
							double x = lo + (hi - lo) * i / (149.0 * 16);
							if(x > hi) x = hi;
							double v = K(x);
							if(!(v >= 0) || !std::isfinite(v)) worst = std::min(worst, std::isfinite(v) ? v : -INFINITY);
						}
						if(worst < 0) fail("kde", key, "density_negative_or_not_finite", "smallest value " + mc::dec(worst));
						double I = K.Integrate(lo, hi);
						if(!(std::fabs(I - 1) <= 1e-6)) fail("kde", key, "density_does_not_integrate_to_one", "integral over the window = " + mc::dec(I));
						else mc::maxi("kde_norm_err_over_1e-6", std::fabs(I - 1) / 1e-6, key);
					}
}

// Weighted samples on a lattice: n sorted points whose gaps come from {0.1, 1.0}, first point from a small set, every weight
// from {0.2, 1, 5}; windows that start at 0 (so the boundary correction's pseudo data fall next to the window edge).
// The complete product is enumerated; oracle: non-negative everywhere, integral one.
static void kde_lattice(unsigned long long& unit)
{
	static const double W3[] = {0.2, 1.0, 5.0};
	static const double STARTS[] = {0.4, 0.9, 2.4};
	std::vector<int> ns = mc::thorough() ? std::vector<int>{6, 7, 9} : std::vector<int>{6};
	for(int n : ns)
	{
		int nw = n <= 7 ? 3 : 2;
		long long wcombos = 1;
		for(int i = 0; i < n; i++) wcombos *= nw;
		int gapbits = n - 1, gstep = mc::thorough() ? 1 : 5;
		for(int st = 0; st < 3; st++)
			for(int g = 0; g < (1 << gapbits); g += gstep)
				for(int bwm = 0; bwm < 2; bwm++)
				{
					if(!mc::mine(unit++)) continue;
					std::vector<double> pos(n);
					pos[0] = STARTS[st];
					for(int i = 1; i < n; i++) pos[i] = pos[i - 1] + (((g >> (i - 1)) & 1) ? 1.0 : 0.1);
					double lo = 0.0, hi = pos[n - 1] + 2.0, bw = bwm ? 0.25 : 0.0;
					for(long long wc = 0; wc < wcombos; wc++)
					{
						std::vector<DataPoint> data;
						long long t = wc;
						std::string ws;
						for(int i = 0; i < n; i++) { double w = nw == 3 ? W3[t % 3] : (t % 2 ? 5.0 : 0.2); t /= nw; data.push_back(DataPoint(pos[i], w)); ws += (i ? "," : "") + mc::dec(w); }
						std::string key = "lattice,n=" + std::to_string(n) + ",start=" + mc::dec(pos[0]) + ",gaps=" + std::to_string(g) + ",weights=" + ws + ",bw=" + mc::dec(bw);
						Interpolation K;
						if(mc::library_exits([&]() { K = Perform_KDE(data, lo, hi, bw); })) { fail("kde", key, "terminated_process", "ended the process"); continue; }
						g_cases++;
						mc::count("kde_lattice_samples", 1);
						double worst = 0;
						for(int i = 0; i <= 149 * 4; i++)
						{
							double x = lo + (hi - lo) * i / (149.0 * 4);
							if(x > hi) x = hi;
							double v = K(x);
							if(!(v >= 0) || !std::isfinite(v)) worst = std::min(worst, std::isfinite(v) ? v : -INFINITY);
						}
						if(worst < 0) fail("kde", key, "density_negative_or_not_finite", "smallest value " + mc::dec(worst));
						double I = K.Integrate(lo, hi);
						if(!(std::fabs(I - 1) <= 1e-6)) fail("kde", key, "density_does_not_integrate_to_one", "integral over the window = " + mc::dec(I));
					}
				}
	}
}

// ---- call histories: densities, masses, CDFs, likelihoods and the KDE are functions of their arguments only ------------------------
static void histories(unsigned long long& unit)
{
	std::vector<mc::PureLetter> L;
	auto add = [&](const std::string& n, std::function<double()> f) { L.push_back({n, [f]() { return mc::hexd(f()); }}); };
	add("PDF_Uniform(0.3,0,1)", []() { return PDF_Uniform(0.3, 0, 1); });
	add("CDF_Uniform(0.3,-3,5)", []() { return CDF_Uniform(0.3, -3, 5); });
	add("PDF_Gauss(1,0.5,2)", []() { return PDF_Gauss(1, 0.5, 2); });
	add("CDF_Gauss(-7,0,1)", []() { return CDF_Gauss(-7, 0, 1); });
	add("Quantile_Gauss(0.975,0,1)", []() { return Quantile_Gauss(0.975, 0, 1); });
	add("Quantile_Gauss(1e-7,3,0.1)", []() { return Quantile_Gauss(1e-7, 3, 0.1); });
	add("PMF_Binomial(20,0.3,7)", []() { return PMF_Binomial(20, 0.3, 7); });
	add("CDF_Binomial(170,0.5,85)", []() { return CDF_Binomial(170, 0.5, 85); });
	add("PMF_Poisson(3.5,2)", []() { return PMF_Poisson(3.5, 2); });
	add("PMF_Poisson(250,300)", []() { return PMF_Poisson(250, 300); });
	add("PMF_Poisson(0.001,0)", []() { return PMF_Poisson(0.001, 0); });
	add("CDF_Poisson(31.6,40)", []() { return CDF_Poisson(31.6, 40); });
	add("Inv_CDF_Poisson(5,0.9)", []() { return (double)Inv_CDF_Poisson(5, 0.9); });
	add("PDF_Chi_Square(3.3,4)", []() { return PDF_Chi_Square(3.3, 4); });
	add("CDF_Chi_Square(350,344)", []() { return CDF_Chi_Square(350, 344); });
	add("CDF_Chi_Square(0.2,0.5)", []() { return CDF_Chi_Square(0.2, 0.5); });
	add("PDF_Chi_Bar_Square(2,{.25,.5,.25})", []() { return PDF_Chi_Bar_Square(2, {0.25, 0.5, 0.25}); });
	add("CDF_Chi_Bar_Square(2,{.1,.2,.3,.4})", []() { return CDF_Chi_Bar_Square(2, {0.1, 0.2, 0.3, 0.4}); });
	add("PDF_Exponential(0.7,2)", []() { return PDF_Exponential(0.7, 2); });
	add("CDF_Exponential(0.7,2)", []() { return CDF_Exponential(0.7, 2); });
	add("PDF_Maxwell_Boltzmann(1.2,0.8)", []() { return PDF_Maxwell_Boltzmann(1.2, 0.8); });
	add("CDF_Maxwell_Boltzmann(1e-3,0.8)", []() { return CDF_Maxwell_Boltzmann(1e-3, 0.8); });
	add("Likelihood_Poisson(3,5,1.5)", []() { return Likelihood_Poisson(3, 5, 1.5); });
	add("Log_Likelihood_Poisson(3,0,0)", []() { return Log_Likelihood_Poisson(3, 0, 0); });
	add("Log_Likelihood_Poisson_Binned(3 bins)", []() { return Log_Likelihood_Poisson_Binned({1.5, 2.0, 0.7}, {2, 0, 1}, {0.5, 0.1, 0}); });
	add("Likelihood_Poisson_Binned(2 bins, no background)", []() { return Likelihood_Poisson_Binned({1.5, 2.0}, {2, 3}); });
	add("KDE{1,2,2.5,4}(2.2)", []() { std::vector<DataPoint> d{DataPoint(1, 1), DataPoint(2, 0.5), DataPoint(2.5, 2), DataPoint(4, 1)}; Interpolation K = Perform_KDE(d, 0, 6); return K(2.2); });
	add("KDE{7 points}(0.1)", []() { std::vector<DataPoint> d; for(int i = 0; i < 7; i++) d.push_back(DataPoint(0.4 + 0.6 * i, 1 + (i % 3))); Interpolation K = Perform_KDE(d, 0, 6, 0.3); return K(0.1); });
	g_cases += mc::purity("histories", L, mc::thorough() ? 3 : 2, unit);
}

int main(int argc, char** argv)
{
	mc::init(argc, argv);
	if(mc::ctx().replay) { printf("%s\n(no single-case replay for this part; use ./vcheck --replay <file>, which re-runs the enumeration for this key)\n", mc::ctx().replay_case.c_str()); return 0; }
	silence();
	mc::bound("rule", "complete products of parameter alphabets x argument grids per family; coherence oracles between the members of each pair (CDF difference = own 64-point Gauss-Legendre integral of the library's PDF with a 32-point self-check; discrete CDF = running sum of PMF), inverses, likelihood identities, KDE positivity and normalisation; a case is one (family, parameters, argument) evaluation");
	unsigned long long unit = 0;
	continuous_families(unit);
	discrete_families(unit);
	likelihoods(unit);
	kde(unit);
	kde_lattice(unit);
	histories(unit);
	mc::count("evaluations", g_cases);
	mc::count("distinct_nontrivial", g_cases);
	mc::count("pdf_integrals", g_intervals);
	mc::count("pdf_integrals_unresolved_by_self_check", g_unresolved);
	if(mc::shard0()) mc::sample("Poisson(mean=31.6): PMF and CDF for every count 0..500, CDF(k)-CDF(k-1)=PMF(k) and CDF=sum PMF within 2e-12; Chi_Square(dof=344) on 200 points: CDF differences vs Gauss-Legendre integrals of the PDF");
	return mc::finish();
}
