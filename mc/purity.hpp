// mc/purity.hpp — call histories over a finite alphabet of requests.
// Every sequence of `depth` request letters is executed on the real library; a letter must return the same observation
// (a string of result bits) whatever was requested before it. State that survives between calls - a cache keyed on part of
// its arguments, a static scratch buffer, settings kept in file scope - shows up as two different observations of one letter.
// All sequences are enumerated, so "x, A, B" is run for every x: a cache that merely keeps the first of two look-alike
// requests is still seen.
#pragma once
#include "mc/mc.hpp"
#include "mc/exit_trap.hpp"

namespace mc
{
struct PureLetter
{
	std::string name;
	std::function<std::string()> call;
};

inline long long purity(const std::string& part, const std::vector<PureLetter>& L, int depth, unsigned long long& unit)
{
	int n = L.size();
	if(n == 0) return 0;
	long long total = 1, transitions = 0;
	for(int i = 0; i < depth; i++) total *= n;
	std::vector<std::string> first(n);
	std::vector<std::string> first_hist(n);
	std::vector<bool> have(n, false);
	for(long long code = 0; code < total; code++)
	{
		if(!mc::mine(unit + (code >> 4))) continue;
		long long c = code;
		std::string hist;
		for(int step = 0; step < depth; step++)
		{
			int l = c % n;
			c /= n;
			std::string obs;
			if(mc::library_exits([&]() { obs = L[l].call(); }))
			{
				mc::violation(part, part + "|letter=" + L[l].name + ",after=" + hist + "|valid_request_terminated_process", L[l].name + " ended the process after [" + hist + "]", part + " " + L[l].name);
				break;
			}
			transitions++;
			if(!have[l]) { have[l] = true; first[l] = obs; first_hist[l] = hist; }
			else if(obs != first[l])
			{
				mc::violation(part, part + "|letter=" + L[l].name + ",after=" + hist + "|result_depends_on_earlier_calls", L[l].name + " answers " + obs.substr(0, 80) + " after [" + hist + "] but " + first[l].substr(0, 80) + " after [" + first_hist[l] + "]", part + " " + L[l].name);
				break;
			}
			hist += L[l].name + ";";
		}
	}
	unit += (total >> 4) + 1;
	mc::count("history_transitions", transitions);
	if(mc::shard0()) { mc::alphabet(part + "_letters", n); mc::bound(part + "_depth", std::to_string(depth)); }
	return transitions;
}
}	// namespace mc
