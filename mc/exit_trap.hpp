// exit_trap.hpp — link-time interposition of exit(): the library reports errors by std::exit(EXIT_FAILURE).
// A harness that includes this header (exactly one translation unit) owns that event: while a trap is armed,
// exit() longjmps back into the harness (the abandoned library frames leak their heap blocks, nothing else);
// otherwise the process ends immediately with the given status. Not used in sanitizer builds (C10 forks).
#pragma once
#include <csetjmp>
#include <cstdio>
#include <cstdlib>
#include <functional>
#include <unistd.h>

namespace mc
{
struct ExitTrap
{
	jmp_buf env;
	volatile bool armed = false;
	volatile int status = 0;
	long long trapped	= 0;
};
inline ExitTrap& exit_trap()
{
	static ExitTrap t;
	return t;
}
// runs body; returns true iff the library called exit() inside it
inline bool library_exits(const std::function<void()>& body)
{
	ExitTrap& t = exit_trap();
	if(setjmp(t.env) == 0)
	{
		t.armed = true;
		body();
		t.armed = false;
		return false;
	}
	t.armed = false;
	t.trapped++;
	return true;
}
}	// namespace mc

extern "C" void exit(int status) noexcept
{
	mc::ExitTrap& t = mc::exit_trap();
	if(t.armed)
	{
		t.armed	 = false;
		t.status = status;
		longjmp(t.env, 1);
	}
	fflush(nullptr);
	_exit(status);
}
