// mc.hpp — shared support for the exhaustive-exploration harnesses (DESIGN.md §2.3).
// Command line (given by /verif/vcheck):
//   --tier quick|thorough --mode opt|asan --shard i n --out file.json --seed s --deadline sec --tmp dir
//   --replay <part> <case string>
#pragma once
#include <fstream>
#include <cstdio>
#include <cstdlib>
#include <cstring>
#include <cstdint>
#include <cmath>
#include <string>
#include <vector>
#include <map>
#include <set>
#include <sstream>
#include <functional>
#include <chrono>
#include <algorithm>
#include <limits>
#include <unistd.h>
#include <sys/wait.h>
#include <signal.h>
#include <fcntl.h>

namespace mc
{
struct Violation
{
	std::string part, key, text, cas;
};
struct Ctx
{
	std::string tier = "quick", mode = "opt", out, tmp = ".";
	int shard = 0, nshards = 1;
	long seed	  = 0;
	double deadline = 200;
	bool replay	  = false;
	std::string replay_part, replay_case, replay_key;	// replay_key: re-run the enumeration and report only this violation key
	std::map<std::string, long long> counters;
	std::map<std::string, std::pair<double, std::string>> maxima;
	std::map<std::string, long long> alphabets;
	std::map<std::string, std::string> bounds;
	std::vector<std::string> samples;
	std::map<std::string, Violation> violations;
	std::map<std::string, int> per_part;
	std::vector<std::string> caps, notes;
	long long violation_total = 0;
	bool exhaustive			  = true;
	int report_fd			  = 2;	 // duplicate of the original stderr (harnesses may redirect fd 1 and 2 to /dev/null)
	std::chrono::steady_clock::time_point t0;
};
inline Ctx& ctx()
{
	static Ctx c;
	return c;
}
inline bool thorough() { return ctx().tier == "thorough"; }
inline bool quick() { return !thorough(); }
inline bool asan_mode() { return ctx().mode == "asan"; }

inline void init(int argc, char** argv)
{
	Ctx& c = ctx();
	c.t0   = std::chrono::steady_clock::now();
	for(int i = 1; i < argc; i++)
	{
		std::string a = argv[i];
		auto nxt	  = [&]() { return std::string(i + 1 < argc ? argv[++i] : ""); };
		if(a == "--tier") c.tier = nxt();
		else if(a == "--mode") c.mode = nxt();
		else if(a == "--shard") { c.shard = atoi(nxt().c_str()); c.nshards = atoi(nxt().c_str()); }
		else if(a == "--out") c.out = nxt();
		else if(a == "--seed") c.seed = atol(nxt().c_str());
		else if(a == "--deadline") c.deadline = atof(nxt().c_str());
		else if(a == "--tmp") c.tmp = nxt();
		else if(a == "--replay") { c.replay = true; c.replay_part = nxt(); c.replay_case = nxt(); }
		else if(a == "--replay-key") { c.replay_key = nxt(); }
	}
	if(c.nshards < 1) c.nshards = 1;
	c.report_fd = dup(2);
}
inline double elapsed()
{
	return std::chrono::duration<double>(std::chrono::steady_clock::now() - ctx().t0).count();
}
// true when the global deadline has passed; records the cap once
inline bool out_of_time(const char* where)
{
	if(elapsed() < ctx().deadline) return false;
	std::string w = std::string("deadline hit in ") + where;
	if(std::find(ctx().caps.begin(), ctx().caps.end(), w) == ctx().caps.end()) ctx().caps.push_back(w);
	ctx().exhaustive = false;
	return true;
}
// work partition: unit u belongs to this shard?
inline bool mine(unsigned long long u) { return ctx().replay || (int)(u % (unsigned long long)ctx().nshards) == ctx().shard; }
inline bool shard0() { return ctx().shard == 0; }

inline void count(const std::string& n, long long k = 1) { ctx().counters[n] += k; }
inline void maxi(const std::string& n, double v, const std::string& where = "")
{
	auto it = ctx().maxima.find(n);
	if(it == ctx().maxima.end() || v > it->second.first) ctx().maxima[n] = {v, where};
}
inline void alphabet(const std::string& n, long long size) { ctx().alphabets[n] = size; }
inline void bound(const std::string& n, const std::string& v) { ctx().bounds[n] = v; }
inline void note(const std::string& v) { ctx().notes.push_back(v); }
inline void cap(const std::string& v)
{
	ctx().caps.push_back(v);
	ctx().exhaustive = false;
}
inline void sample(const std::string& s, size_t maxn = 3)
{
	if(ctx().samples.size() < maxn) ctx().samples.push_back(s);
}

inline std::string hexd(double x)
{
	char buf[64];
	snprintf(buf, sizeof buf, "%a", x);
	return buf;
}
inline std::string dec(double x)
{
	char buf[64];
	snprintf(buf, sizeof buf, "%.17g", x);
	return buf;
}
inline std::string hexv(const std::vector<double>& v)
{
	std::string s;
	for(size_t i = 0; i < v.size(); i++) s += (i ? "," : "") + hexd(v[i]);
	return s;
}
inline std::string decv(const std::vector<double>& v)
{
	std::string s;
	for(size_t i = 0; i < v.size(); i++) s += (i ? "," : "") + dec(v[i]);
	return s;
}
inline double parsed(const std::string& s) { return strtod(s.c_str(), nullptr); }
inline std::vector<double> parsev(const std::string& s)
{
	std::vector<double> v;
	std::stringstream ss(s);
	std::string t;
	while(std::getline(ss, t, ','))
		if(!t.empty()) v.push_back(parsed(t));
	return v;
}
// "k=v k2=v2" tokenizer for replay cases
inline std::map<std::string, std::string> parse_case(const std::string& s)
{
	std::map<std::string, std::string> m;
	std::stringstream ss(s);
	std::string t;
	while(ss >> t)
	{
		auto p = t.find('=');
		if(p == std::string::npos) m[t] = "";
		else m[t.substr(0, p)] = t.substr(p + 1);
	}
	return m;
}

// record a violation. key identifies input + failure class (no observed floating-point values).
inline void violation(const std::string& part, const std::string& key, const std::string& text, const std::string& cas)
{
	Ctx& c = ctx();
	if(!c.replay_key.empty())
	{
		if(key != c.replay_key) return;
		dprintf(c.report_fd, "REPRODUCED key=%s\n  %s\n  case: %s\n", key.c_str(), text.c_str(), cas.c_str());
	}
	c.violation_total++;
	c.counters["violating_cases." + part + "." + key.substr(key.rfind('|') == std::string::npos ? 0 : key.rfind('|') + 1)]++;
	if(c.replay) fprintf(stdout, "REPRODUCED part=%s key=%s\n  %s\n  case: %s\n", part.c_str(), key.c_str(), text.c_str(), cas.c_str());
	if(c.violations.count(key)) return;
	std::string cls = part + "|" + key.substr(key.rfind('|') == std::string::npos ? 0 : key.rfind('|') + 1);
	// Recorded findings are always kept and never use up the per-class quota of 12 records: otherwise a class with many
	// recorded inputs could crowd a new input of the same class out of the report. (The driver passes the recorded keys of this
	// property in the file named by VERIF_KNOWN_KEYS; the harness never writes that file.)
	static std::set<std::string> known;
	static bool loaded = false;
	if(!loaded)
	{
		loaded = true;
		if(const char* f = getenv("VERIF_KNOWN_KEYS"))
		{
			std::ifstream in(f);
			std::string line;
			while(std::getline(in, line))
				if(!line.empty()) known.insert(line);
		}
	}
	if(!known.count(key))
	{
		if(c.per_part[cls] >= 12) return;
		c.per_part[cls]++;
	}
	c.violations[key] = {part, key, text, cas};
}

inline std::string jesc(const std::string& s)
{
	std::string o;
	for(unsigned char ch : s)
	{
		if(ch == '"') o += "\\\"";
		else if(ch == '\\') o += "\\\\";
		else if(ch == '\n') o += "\\n";
		else if(ch == '\t') o += "\\t";
		else if(ch < 0x20) { char b[8]; snprintf(b, sizeof b, "\\u%04x", ch); o += b; }
		else o += (char)ch;
	}
	return o;
}

inline int finish()
{
	Ctx& c = ctx();
	if(c.replay) return c.violation_total ? 1 : 0;
	if(!c.replay_key.empty())
	{
		dprintf(c.report_fd, c.violation_total ? "the violation recurs on this tree\n" : "the violation does not recur on this tree\n");
		return c.violation_total ? 1 : 0;
	}
	FILE* f = c.out.empty() ? stdout : fopen(c.out.c_str(), "w");
	if(!f) { perror("open out"); return 3; }
	fprintf(f, "{\n \"counters\": {");
	bool first = true;
	for(auto& kv : c.counters) { fprintf(f, "%s\"%s\": %lld", first ? "" : ", ", jesc(kv.first).c_str(), kv.second); first = false; }
	fprintf(f, "},\n \"maxima\": {");
	first = true;
	for(auto& kv : c.maxima)
	{
		double v = kv.second.first;
		if(!std::isfinite(v)) v = 1e308;
		fprintf(f, "%s\"%s\": {\"v\": %.6g, \"at\": \"%s\"}", first ? "" : ", ", jesc(kv.first).c_str(), v, jesc(kv.second.second).c_str());
		first = false;
	}
	fprintf(f, "},\n \"alphabets\": {");
	first = true;
	for(auto& kv : c.alphabets) { fprintf(f, "%s\"%s\": %lld", first ? "" : ", ", jesc(kv.first).c_str(), kv.second); first = false; }
	fprintf(f, "},\n \"bounds\": {");
	first = true;
	for(auto& kv : c.bounds) { fprintf(f, "%s\"%s\": \"%s\"", first ? "" : ", ", jesc(kv.first).c_str(), jesc(kv.second).c_str()); first = false; }
	fprintf(f, "},\n \"samples\": [");
	first = true;
	for(auto& s : c.samples) { fprintf(f, "%s\"%s\"", first ? "" : ", ", jesc(s).c_str()); first = false; }
	fprintf(f, "],\n \"caps_hit\": [");
	first = true;
	for(auto& s : c.caps) { fprintf(f, "%s\"%s\"", first ? "" : ", ", jesc(s).c_str()); first = false; }
	fprintf(f, "],\n \"notes\": [");
	first = true;
	for(auto& s : c.notes) { fprintf(f, "%s\"%s\"", first ? "" : ", ", jesc(s).c_str()); first = false; }
	fprintf(f, "],\n \"exhaustive\": %s,\n \"violation_total\": %lld,\n \"violations\": [", c.exhaustive ? "true" : "false", c.violation_total);
	first = true;
	for(auto& kv : c.violations)
	{
		fprintf(f, "%s\n  {\"part\": \"%s\", \"key\": \"%s\", \"text\": \"%s\", \"case\": \"%s\"}", first ? "" : ",", jesc(kv.second.part).c_str(), jesc(kv.second.key).c_str(),
				jesc(kv.second.text).c_str(), jesc(kv.second.cas).c_str());
		first = false;
	}
	fprintf(f, "]\n}\n");
	if(f != stdout) fclose(f);
	return 0;
}

// ---------------------------------------------------------------------------------------------
// Isolated execution of one request in a child process (mode M4).
struct Outcome
{
	enum Kind { RETURNED, EXIT_FAIL, SANITIZER, SIGNAL, TIMEOUT, EXIT_OTHER } kind;
	int status	= 0;
	std::string out;	 // combined stdout+stderr of the child (first 4 kB)
	std::string payload; // what the child wrote through the result pipe
	const char* name() const
	{
		switch(kind)
		{
			case RETURNED: return "returned";
			case EXIT_FAIL: return "exit_failure";
			case SANITIZER: return "sanitizer_report";
			case SIGNAL: return "signal";
			case TIMEOUT: return "timeout";
			default: return "exit_other";
		}
	}
	bool diagnostic() const { return kind == EXIT_FAIL && out.find_first_not_of(" \t\r\n") != std::string::npos; }
};

// Runs body in a forked child. body may write a result string through the provided function.
inline Outcome isolate(const std::function<void(std::function<void(const std::string&)>)>& body, double timeout_s = 5.0)
{
	int po[2], pr[2];
	if(pipe(po) || pipe(pr)) { perror("pipe"); exit(3); }
	fflush(stdout);
	fflush(stderr);
	pid_t pid = fork();
	if(pid < 0) { perror("fork"); exit(3); }
	if(pid == 0)
	{
		close(po[0]);
		close(pr[0]);
		dup2(po[1], 1);
		dup2(po[1], 2);
		close(po[1]);
		int rfd = pr[1];
		body([rfd](const std::string& s) { ssize_t w = write(rfd, s.data(), s.size()); (void)w; });
		fflush(stdout);
		fflush(stderr);
		_exit(0);
	}
	close(po[1]);
	close(pr[1]);
	fcntl(po[0], F_SETFL, O_NONBLOCK);
	fcntl(pr[0], F_SETFL, O_NONBLOCK);
	Outcome o;
	auto t0	  = std::chrono::steady_clock::now();
	int st	  = 0;
	bool done = false, timed = false;
	char buf[4096];
	auto drain = [&]() {
		ssize_t n;
		while((n = read(po[0], buf, sizeof buf)) > 0)
			if(o.out.size() < 8192) o.out.append(buf, n);
		while((n = read(pr[0], buf, sizeof buf)) > 0) o.payload.append(buf, n);
	};
	while(!done)
	{
		drain();
		pid_t r = waitpid(pid, &st, WNOHANG);
		if(r == pid) { done = true; break; }
		double el = std::chrono::duration<double>(std::chrono::steady_clock::now() - t0).count();
		if(el > timeout_s)
		{
			kill(pid, SIGKILL);
			waitpid(pid, &st, 0);
			timed = true;
			break;
		}
		usleep(el < 0.01 ? 100 : 1000);
	}
	drain();
	close(po[0]);
	close(pr[0]);
	o.status = st;
	if(timed) o.kind = Outcome::TIMEOUT;
	else if(WIFSIGNALED(st)) o.kind = Outcome::SIGNAL;
	else if(WEXITSTATUS(st) == 0) o.kind = Outcome::RETURNED;
	else if(WEXITSTATUS(st) == 99 || WEXITSTATUS(st) == 98 || o.out.find("AddressSanitizer") != std::string::npos || o.out.find("runtime error:") != std::string::npos)
		o.kind = Outcome::SANITIZER;
	else o.kind = Outcome::EXIT_FAIL;	 // any non-zero status is a failure status (the value itself is not promised anywhere)
	return o;
}

// ---------------------------------------------------------------------------------------------
// mixed-radix product enumerator
struct Product
{
	std::vector<int> radix, idx;
	bool done = false;
	explicit Product(std::vector<int> r) : radix(std::move(r)), idx(radix.size(), 0)
	{
		for(int x : radix)
			if(x <= 0) done = true;
	}
	unsigned long long total() const
	{
		unsigned long long t = 1;
		for(int x : radix) t *= (unsigned long long)x;
		return t;
	}
	bool next()
	{
		for(int i = (int)radix.size() - 1; i >= 0; i--)
		{
			if(++idx[i] < radix[i]) return true;
			idx[i] = 0;
		}
		done = true;
		return false;
	}
};

// 64-bit FNV-1a digests for canonical state keys
struct Digest
{
	uint64_t h = 1469598103934665603ULL, g = 0x9E3779B97F4A7C15ULL;
	void bytes(const void* p, size_t n)
	{
		const unsigned char* b = (const unsigned char*)p;
		for(size_t i = 0; i < n; i++)
		{
			h = (h ^ b[i]) * 1099511628211ULL;
			g = (g + b[i] + 1) * 0xD6E8FEB86659FD93ULL;
			g ^= g >> 32;
		}
	}
	template <class T> void pod(const T& v) { bytes(&v, sizeof v); }
	void vec(const std::vector<double>& v)
	{
		size_t n = v.size();
		pod(n);
		if(n) bytes(v.data(), n * sizeof(double));
	}
	std::pair<uint64_t, uint64_t> key() const { return {h, g}; }
};

inline uint64_t bits(double x)
{
	uint64_t u;
	memcpy(&u, &x, 8);
	return u;
}
inline bool same_bits(double a, double b) { return bits(a) == bits(b) || (std::isnan(a) && std::isnan(b)); }
static const double U_ = 1.1102230246251565e-16;   // 2^-53
static const double ETA = 4.9406564584124654e-324; // smallest subnormal
}	// namespace mc
