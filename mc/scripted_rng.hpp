// scripted_rng.hpp — a real std::mt19937 whose next outputs are chosen by the harness (DESIGN.md §2.2):
// the 624-word state is loaded through operator>> with the tempering function inverted and position 0, so the
// generator becomes an environment whose answers the explorer enumerates. generate_canonical<double,53> draws two
// 32-bit words per variate (low word first), so any uniform on a 2^-64 grid can be scripted.
#pragma once
#include <random>
#include <sstream>
#include <vector>
#include <cstdint>
#include <cmath>

namespace mc
{
inline uint32_t mt_temper(uint32_t y)
{
	y ^= (y >> 11);
	y ^= (y << 7) & 0x9d2c5680u;
	y ^= (y << 15) & 0xefc60000u;
	y ^= (y >> 18);
	return y;
}
inline uint32_t mt_untemper(uint32_t y)
{
	y ^= y >> 18;
	y ^= (y << 15) & 0xefc60000u;
	uint32_t t = y;
	for(int i = 0; i < 5; i++) t = y ^ ((t << 7) & 0x9d2c5680u);
	y = t;
	t = y;
	for(int i = 0; i < 3; i++) t = y ^ (t >> 11);
	return t;
}
// generator whose next outputs are exactly `words` (at most 624)
inline std::mt19937 scripted_words(const std::vector<uint32_t>& words)
{
	std::stringstream ss;
	for(size_t i = 0; i < 624; i++) ss << mt_untemper(i < words.size() ? words[i] : 0x7fffffffu) << ' ';
	ss << 0;
	std::mt19937 g;
	ss >> g;
	return g;
}
// generator whose next canonical uniforms are exactly `u` (each in [0,1), on the 2^-64 grid; at most 312)
inline std::mt19937 scripted_uniforms(const std::vector<long double>& u)
{
	std::vector<uint32_t> w;
	for(long double x : u)
	{
		long double s = x * 18446744073709551616.0L;   // 2^64
		unsigned long long v = (s >= 18446744073709551615.0L) ? ~0ULL : (unsigned long long)s;
		w.push_back((uint32_t)(v & 0xffffffffu));
		w.push_back((uint32_t)(v >> 32));
	}
	return scripted_words(w);
}
// the uniform that the library will see for a scripted value (after the 2^-64 quantisation and the final double rounding)
inline double canonical_of(long double x)
{
	long double s = x * 18446744073709551616.0L;
	unsigned long long v = (s >= 18446744073709551615.0L) ? ~0ULL : (unsigned long long)s;
	double lo = (double)(uint32_t)(v & 0xffffffffu), hi = (double)(uint32_t)(v >> 32);
	double sum = lo + hi * 4294967296.0;
	double r   = sum / 18446744073709551616.0;
	if(r >= 1.0) r = std::nextafter(1.0, 0.0);
	return r;
}
inline std::string state_of(const std::mt19937& g)
{
	std::stringstream ss;
	ss << g;
	return ss.str();
}
inline int position_of(const std::mt19937& g)
{
	std::string s = state_of(g);
	return atoi(s.substr(s.rfind(' ') + 1).c_str());
}
}	// namespace mc
